#!/verif/.venv/bin/python
"""Regenerates section 0b.9 of DESIGN.md (per-property summary) from props/config.py."""
import os
import sys
ROOT = os.path.dirname(os.path.dirname(os.path.abspath(__file__)))
sys.path.insert(0, ROOT)
from props.config import PROPS     # noqa: E402

lines = ["### 0b.9 Per property, as built (generated from `props/config.py`, the same text MANIFEST.json carries)\n"]
for pid in sorted(PROPS):
    c = PROPS[pid]
    lines.append(f"* **{pid}** ({c['level']}) - {c['title']}. {c['level_text']} *Limits / assumptions:* {c['level_note']}\n")
txt = "\n".join(lines) + "\n"
p = os.path.join(ROOT, 'DESIGN.md')
s = open(p).read()
j = s.index('## 1. Why contracts reach what the tests cannot')
i = s.index('### 0b.9 ') if '### 0b.9 ' in s else j
open(p, 'w').write(s[:i] + txt + s[j:])
print('section 0b.9 written,', len(txt), 'characters')
