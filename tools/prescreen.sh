#!/bin/bash
# usage: prescreen.sh <seed suffix list...>   e.g. seed8 seed9
cd /verif
for suf in "$@"; do
for i in $(seq -w 1 20); do
  sd=C$i-$suf
  [ -f /verif/seeded/$sd/patch.diff ] || continue
  S=$(mktemp -d /var/tmp/pyndn-seed-XXXXXX); git -C /repo archive HEAD src | tar -x -C $S; (cd $S && patch -p1 -s < /verif/seeded/$sd/patch.diff)
  out=$(PYTHONPATH="$S/src:$PYTHONPATH" PYVC_REPO_SRC="$S/src" ./check C$i 2>&1)
  rc=$?
  demo=$(cd $S && PYTHONPATH="$S/src" /venv/bin/python /verif/seeded/$sd/demo.py >/dev/null 2>&1; echo $?)
  echo "== $sd exit=$rc demo=$demo ded=$(echo "$out" | grep -c '^  failed obligation') bounded=$(echo "$out" | grep -c 'VIOLATION.*-bounded-') na=$(echo "$out" | grep -c 'NOT-APPLICABLE') err=$(echo "$out" | grep -c 'CHECKER-ERROR')"
  echo "$out" | grep '^  failed obligation' | head -2 | cut -c1-200
  rm -rf $S
done
done
