#!/verif/.venv/bin/python
"""Writes /verif/repo_baseline.json: sha256 of every python file under /repo/src/ndn at the commit the contracts were written
against.  The checks use it for ONE purpose: to tell "a contract cannot be applied to this code because the code was changed"
(reported as undecided, exit 2) from "a contract cannot be applied to the very code it was written for" (checker error,
exit 3).  Re-run after every commit to /repo."""
import hashlib, json, os, subprocess
ROOT = os.path.dirname(os.path.dirname(os.path.abspath(__file__)))
files = {}
for d, _, fs in os.walk('/repo/src/ndn'):
    for f in fs:
        if f.endswith('.py'):
            p = os.path.join(d, f)
            files[os.path.relpath(p, '/repo/src')] = hashlib.sha256(open(p, 'rb').read()).hexdigest()
# loop / yield skeleton of every function that has a contract with loop specifications or yield clauses (see pyvc/verify.py)
import sys, importlib, pkgutil
sys.path.insert(0, ROOT)
import contracts
from pyvc.contracts import REGISTRY
from pyvc.values import SourceIndex
from pyvc.verify import loop_skeleton
for m in pkgutil.iter_modules(contracts.__path__):
    importlib.import_module('contracts.' + m.name)
si = SourceIndex()
skel = {}
for c in REGISTRY.all:
    if c.assumed or c.fn is None:
        continue
    try:
        sk = loop_skeleton(si.find(c.fn))
    except Exception as e:      # noqa
        print('no skeleton for', c.name, e)
        continue
    if sk:
        skel[c.name] = sk
commit = subprocess.run('git -C /repo rev-parse HEAD', shell=True, capture_output=True, text=True).stdout.strip()
json.dump({'commit': commit, 'files': dict(sorted(files.items())), 'loop_skeletons': dict(sorted(skel.items()))}, open(os.path.join(ROOT, 'repo_baseline.json'), 'w'), indent=1)
print(f'repo_baseline.json: {len(files)} files, {len(skel)} loop skeletons at {commit[:10]}')
