#!/verif/.venv/bin/python
"""Writes /verif/repo_baseline.json: sha256 of every python file under /repo/src/ndn at the commit the contracts were written
against.  The checks use it for ONE purpose: to tell "a contract cannot be applied to this code because the code was changed"
(reported as undecided, exit 2) from "a contract cannot be applied to the very code it was written for" (checker error,
exit 3).  Re-run after every commit to /repo."""
import hashlib, json, os, subprocess
ROOT = os.path.dirname(os.path.dirname(os.path.abspath(__file__)))
files = {}
for d, _, fs in os.walk('/repo/src/ndn'):
    for f in fs:
        if f.endswith('.py'):
            p = os.path.join(d, f)
            files[os.path.relpath(p, '/repo/src')] = hashlib.sha256(open(p, 'rb').read()).hexdigest()
commit = subprocess.run('git -C /repo rev-parse HEAD', shell=True, capture_output=True, text=True).stdout.strip()
json.dump({'commit': commit, 'files': dict(sorted(files.items()))}, open(os.path.join(ROOT, 'repo_baseline.json'), 'w'), indent=1)
print(f'repo_baseline.json: {len(files)} files at {commit[:10]}')
