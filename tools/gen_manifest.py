#!/usr/bin/env python3
"""Regenerates /verif/MANIFEST.json from props/config.py (single source of truth)."""
import json, os, sys
ROOT = os.path.dirname(os.path.dirname(os.path.abspath(__file__)))
sys.path.insert(0, ROOT)
from props.config import PROPS, NOT_APPLICABLE
props = [json.loads(l) for l in open(os.path.join(ROOT, 'properties.jsonl'))]
checks = []
for pid, c in sorted(PROPS.items()):
    if not c.get('claimed', True):
        continue
    checks.append({
        'property_id': pid,
        'quick_cmd': f'./check {pid} --tier quick',
        'thorough_cmd': f'./check {pid} --tier thorough',
        'evidence_file': f'evidence/{pid}.json',
        'replay_cmd_template': './check --replay {path}',
        'engine': 'pyvc',
        'level_claimed': {'category': c['level'], 'text': c['level_text'], 'design_ref': c.get('design_ref', 'DESIGN.md section 6')},
        'level_note': c['level_note'],
        'technique': c['technique'],
    })
claimed = {c['property_id'] for c in checks}
na = [{'property_id': p['id'], 'reason': NOT_APPLICABLE.get(p['id'], 'check not built yet (work in progress)')}
      for p in props if p['id'] not in claimed]
m = {
    'version': 1, 'setup_cmd': './setup.sh',
    'hooks': {'guard': 'PYTHON_NDN_VERIF',
              'enable': 'no source hooks: contracts are sidecar files under /verif/contracts, the engine re-reads /repo/src on every run',
              'baseline_off_cmd': 'cd /repo && /venv/bin/python -m pytest -ra -q -p no:cacheprovider --timeout=900 --continue-on-collection-errors',
              'source_commits': [], 'add_only': True},
    'engines': [{'name': 'pyvc', 'path': 'pyvc/', 'serves_properties': sorted(claimed),
                 'kind_free_text': 'home-made deductive verifier: path-exploring symbolic executor over the real ast of the functions in /repo/src '
                                   '(re-read on every run), sidecar contracts (pre/post/exceptional post/loop invariants+variants/frames/ghost), '
                                   'z3 back end; counter-models replayed on the real function in CPython; bounded run-time-contract stand-ins labelled bounded'}],
    'checks': checks,
    'notes': 'Fix commits in /repo (unguarded, one defect each) are listed in known_findings.json with status fixed; open findings are printed as KNOWN-FINDING lines.',
    'not_applicable': na,
}
json.dump(m, open(os.path.join(ROOT, 'MANIFEST.json'), 'w'), indent=1)
import jsonschema
jsonschema.validate(m, json.load(open('/root/.vp/MANIFEST.schema.json')))
print('MANIFEST.json written:', len(checks), 'checks,', len(na), 'not claimed')
