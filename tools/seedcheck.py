#!/verif/.venv/bin/python
"""usage: tools/seedcheck.py [seed dir names...]   (default: all under /verif/seeded)
For each seeded change: apply it to /repo (git apply), confirm the existing suite still passes and the demonstration
fails, run the property's quick check, undo the change (git checkout), confirm the demonstration passes again.
Writes seeded/<id>/meta.json."""
import json, os, subprocess, sys, time
ROOT = os.path.dirname(os.path.dirname(os.path.abspath(__file__)))
SEEDED = os.path.join(ROOT, 'seeded')


def sh(cmd, timeout=1800, cwd=None, env=None):
    p = subprocess.run(cmd, shell=True, capture_output=True, text=True, timeout=timeout, cwd=cwd, env=env)
    return p.returncode, (p.stdout + p.stderr)


def main():
    names = sys.argv[1:] or sorted(os.listdir(SEEDED))
    assert sh('git -C /repo status --porcelain')[1].strip() == '', '/repo is not clean'
    for n in names:
        d = os.path.join(SEEDED, n)
        prop = n.split('-')[0]
        meta = {'id': n, 'property': prop}
        # a change whose author filed it under one property but which, read strictly, breaks another: seeded/<id>/checked_under
        # holds "<property id> <reason>" and the change is run against that property's check
        cu = os.path.join(d, 'checked_under')
        if os.path.exists(cu):
            txt = open(cu).read().strip()
            meta['filed_under_by_its_author'] = prop
            prop = txt.split()[0]
            meta['property'] = prop
            meta['why_checked_under_another_property'] = txt.split(None, 1)[1] if ' ' in txt else ''
        notes = open(os.path.join(d, 'notes.md')).read() if os.path.exists(os.path.join(d, 'notes.md')) else ''
        meta['needs_to_manifest'] = notes[:1500]
        rc, out = sh(f'git -C /repo apply {d}/patch.diff')
        if rc != 0:
            meta['error'] = 'patch does not apply: ' + out[-300:]
            json.dump(meta, open(os.path.join(d, 'meta.json'), 'w'), indent=1)
            print(n, 'PATCH-FAILED')
            continue
        try:
            rc, out = sh('cd /repo && /venv/bin/python -m pytest -q -p no:cacheprovider 2>&1 | tail -1')
            meta['suite_with_change'] = out.strip()
            rc_demo, out = sh(f'cd /repo && /venv/bin/python {d}/demo.py', timeout=600)
            meta['demo_with_change'] = {'exit': rc_demo, 'tail': out[-400:]}
            t0 = time.time()
            # the evidence file is rewritten by every run of a check; the one committed must come from the UNCHANGED tree
            evp = os.path.join(ROOT, 'evidence', f'{prop}.json')
            ev_saved = open(evp, 'rb').read() if os.path.exists(evp) else None
            rc_chk, out = sh(f'cd {ROOT} && ./check {prop} --tier quick', timeout=3000)
            if ev_saved is not None:
                open(evp, 'wb').write(ev_saved)
            meta['check_with_change'] = {'cmd': f'./check {prop} --tier quick', 'exit': rc_chk, 'secs': round(time.time() - t0, 1),
                                         # failed deductive obligations first, then the bounded stand-in's reports
                                         'violation_lines': ([l for l in out.splitlines() if l.startswith('VIOLATION') and '-bounded-' not in l][:6]
                                                             + [l for l in out.splitlines() if l.startswith('VIOLATION') and '-bounded-' in l][:4]),
                                         'failed_obligations': [l.strip() for l in out.splitlines() if l.startswith('  failed obligation:')][:6],
                                         'detail': [l for l in out.splitlines() if l.startswith('  ') and not l.startswith('  failed obligation:')][:6],
                                         'other': [l[:300] for l in out.splitlines() if l.startswith(('UNDECIDED', 'CHECKER-ERROR'))][:4]}
        finally:
            sh('git -C /repo checkout -- .')
        rc_demo0, out = sh(f'cd /repo && /venv/bin/python {d}/demo.py', timeout=600)
        meta['demo_without_change'] = {'exit': rc_demo0}
        meta['detected'] = meta['check_with_change']['exit'] == 1 and bool(meta['check_with_change']['violation_lines'])
        meta['what_was_run'] = 'git -C /repo apply patch.diff; pytest; demo.py; ./check <prop> --tier quick; git -C /repo checkout -- .; demo.py'
        json.dump(meta, open(os.path.join(d, 'meta.json'), 'w'), indent=1)
        print(n, 'suite:', meta['suite_with_change'], '| demo with/without:', rc_demo, rc_demo0, '| check exit', rc_chk,
              'DETECTED' if meta['detected'] else 'MISSED', meta['check_with_change']['secs'], 's', flush=True)


if __name__ == '__main__':
    main()
