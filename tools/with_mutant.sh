#!/bin/bash
# usage: with_mutant.sh <relative file under src> <python-regex> <replacement> -- <command...>
# copies /repo/src to a scratch dir, applies one textual mutation, runs the command with the scratch tree first on
# PYTHONPATH (PYVC_REPO_SRC tells the engine where "the repository" is), removes the scratch dir.
set -e
F="$1"; PAT="$2"; REP="$3"; shift 4
S=$(mktemp -d /var/tmp/pyndn-mut-XXXXXX)
trap 'rm -rf "$S"' EXIT
cp -r /repo/src "$S/src"
python3 - "$S/src/$F" "$PAT" "$REP" <<'PY'
import re, sys
p, pat, rep = sys.argv[1:4]
s = open(p).read()
n = len(re.findall(pat, s))
if n == 0:
    sys.exit(f'mutation pattern not found: {pat}')
s2 = re.sub(pat, rep, s, count=1)
open(p, 'w').write(s2)
PY
find "$S" -name __pycache__ -prune -exec rm -rf {} + 2>/dev/null || true
PYTHONPATH="$S/src:$PYTHONPATH" PYVC_REPO_SRC="$S/src" "$@"
