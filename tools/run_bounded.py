#!/verif/.venv/bin/python
"""usage: tools/run_bounded.py c04 [quick|thorough] [nshards] [seed]   -- runs bounded/c04.py over all shards in a pool"""
import sys, os, json, time, importlib
ROOT = os.path.dirname(os.path.dirname(os.path.abspath(__file__)))
sys.path.insert(0, ROOT)
import concurrent.futures as cf


def one(a):
    mod, tier, seed, k, n = a
    m = importlib.import_module('bounded.' + mod)
    t = time.time()
    r = m.run(tier=tier, seed=seed, shard=(k, n))
    r['secs'] = round(time.time() - t, 1)
    return r


if __name__ == '__main__':
    mod = sys.argv[1]
    tier = sys.argv[2] if len(sys.argv) > 2 else 'quick'
    n = int(sys.argv[3]) if len(sys.argv) > 3 else 8
    seed = int(sys.argv[4]) if len(sys.argv) > 4 else 0
    t0 = time.time()
    with cf.ProcessPoolExecutor(max_workers=min(n, 16)) as pool:
        rs = list(pool.map(one, [(mod, tier, seed, k, n) for k in range(n)]))
    ev = sum(r['evaluations'] for r in rs)
    dn = sum(r['distinct_nontrivial'] for r in rs)
    viol = [v for r in rs for v in r['violations']]
    print(json.dumps(dict(evaluations=ev, distinct_nontrivial=dn, wall=round(time.time() - t0, 1), shard_secs=[r['secs'] for r in rs],
                          rule=rs[0].get('rule'), bound=rs[0].get('bound'), samples=rs[0].get('samples', [])[:3],
                          n_violations=len(viol), violation_keys=sorted({v['key'] for v in viol})), indent=1, default=str))
    for v in viol[:10]:
        print('VIOLATION', json.dumps(v, default=str)[:600])
    sys.exit(1 if viol else 0)
