#!/bin/bash
# usage: bonly.sh <seed dir names...> : bounded stand-in only, on scratch copies, 6 at a time
cd /verif
one() {
  sd=$1; P=${sd%%-*}
  [ -f /verif/seeded/$sd/checked_under ] && P=$(cut -d' ' -f1 /verif/seeded/$sd/checked_under)
  S=$(mktemp -d /var/tmp/pyndn-seed-XXXXXX); git -C /repo archive HEAD src | tar -x -C $S; (cd $S && patch -p1 -s < /verif/seeded/$sd/patch.diff)
  out=$(PYTHONPATH="$S/src:$PYTHONPATH" PYVC_REPO_SRC="$S/src" ./check $P --only nothing 2>&1)
  echo "== $sd exit=$? bounded=$(echo "$out" | grep -c 'VIOLATION.*-bounded-') $(echo "$out" | grep '^  bounded' | head -1 | cut -c1-160)"
  rm -rf $S
}
export -f one
printf '%s\n' "$@" | xargs -P 6 -I{} bash -c 'one {}'
