import sys, time
sys.path.insert(0, '/verif')
from pyvc.values import SourceIndex
from pyvc.verify import verify_contract, summarize
from pyvc.contracts import REGISTRY
import importlib
for m in sys.argv[1].split(','): importlib.import_module('contracts.'+m)
only = sys.argv[2].split(',') if len(sys.argv) > 2 else None
si = SourceIndex()
for c in REGISTRY.all:
    if only and not any(o in c.name for o in only): continue
    if c.assumed: continue
    r = verify_contract(c, si)
    s = summarize(r)
    print(c.name, 'paths', r['paths'], 'obl', s['n'], 'disch', s['discharged'], 'failed', len(s['failed']), 'unk', len(s['unknown']), f"{r['secs']:.2f}s", r['exits'], 'inl', r['inlined'])
    for e in r['errors'][:3]: print('   ERR', e[:300])
    if len(r['errors']) > 3: print('   ...', len(r['errors']), 'errors')
    for o in r['obligations']:
        if o.secs > 3: print('   SLOW', o.name, round(o.secs,1), o.status)
    for o in (s['failed'] + s['unknown'])[:int(__import__('os').environ.get('NF','8'))]: print('   ', o.status, o.name, str(o.inputs)[:200], o.trace[-5:], f'{o.secs:.2f}s')
