#!/verif/.venv/bin/python
"""usage: tools/benigncheck.py [dir names...]   (default: all under /verif/benign)
The mirror image of seedcheck.py: each /verif/benign/<id>/patch.diff is a BEHAVIOUR-PRESERVING refactoring of functions a
property depends on.  Apply it to /repo (git apply), confirm the suite passes and the differential demonstration passes,
run the property's quick check, undo the change.  Expected: exit 0 and no VIOLATION line (a contract that no longer fits
the rewritten function may report NOT-APPLICABLE; the bounded stand-in then decides).  Writes benign/<id>/meta.json."""
import json, os, subprocess, sys, time
ROOT = os.path.dirname(os.path.dirname(os.path.abspath(__file__)))
BENIGN = os.path.join(ROOT, 'benign')


def sh(cmd, timeout=1800):
    p = subprocess.run(cmd, shell=True, capture_output=True, text=True, timeout=timeout)
    return p.returncode, (p.stdout + p.stderr)


def main():
    names = sys.argv[1:] or sorted(os.listdir(BENIGN))
    assert sh('git -C /repo status --porcelain')[1].strip() == '', '/repo is not clean'
    for n in names:
        d = os.path.join(BENIGN, n)
        prop = n.split('-')[0]
        meta = {'id': n, 'property': prop, 'kind': 'behaviour-preserving refactoring (must NOT be reported)'}
        notes = open(os.path.join(d, 'notes.md')).read() if os.path.exists(os.path.join(d, 'notes.md')) else ''
        meta['what_was_refactored'] = notes[:1500]
        rc, out = sh(f'git -C /repo apply {d}/patch.diff')
        if rc != 0:
            meta['error'] = 'patch does not apply: ' + out[-300:]
            json.dump(meta, open(os.path.join(d, 'meta.json'), 'w'), indent=1)
            print(n, 'PATCH-FAILED')
            continue
        try:
            rc, out = sh('cd /repo && /venv/bin/python -m pytest -q -p no:cacheprovider 2>&1 | tail -1')
            meta['suite_with_change'] = out.strip()
            rc_demo, out = sh(f'cd /repo && PYTHONPATH=/repo/src /venv/bin/python {d}/demo.py', timeout=900)
            meta['demo_with_change'] = {'exit': rc_demo, 'tail': out[-300:]}
            t0 = time.time()
            # the evidence file is rewritten by every run of a check; the one committed must come from the UNCHANGED tree
            evp = os.path.join(ROOT, 'evidence', f'{prop}.json')
            ev_saved = open(evp, 'rb').read() if os.path.exists(evp) else None
            rc_chk, out = sh(f'cd {ROOT} && ./check {prop} --tier quick', timeout=3000)
            if ev_saved is not None:
                open(evp, 'wb').write(ev_saved)
            lines = out.splitlines()
            meta['check_with_change'] = {'cmd': f'./check {prop} --tier quick', 'exit': rc_chk, 'secs': round(time.time() - t0, 1),
                                         'violation_lines': [l for l in lines if l.startswith('VIOLATION')][:6],
                                         'detail': [l for l in lines if l.startswith('  ')][:6],
                                         'not_applicable': [l[:300] for l in lines if l.startswith('NOT-APPLICABLE')][:8],
                                         'other': [l[:300] for l in lines if l.startswith(('UNDECIDED', 'CHECKER-ERROR'))][:6],
                                         'summary': lines[-1] if lines else ''}
        finally:
            sh('git -C /repo checkout -- .')
        rc_demo0, out = sh(f'cd /repo && PYTHONPATH=/repo/src /venv/bin/python {d}/demo.py', timeout=900)
        meta['demo_without_change'] = {'exit': rc_demo0}
        meta['quiet'] = rc_chk == 0 and not meta['check_with_change']['violation_lines']
        meta['what_was_run'] = 'git -C /repo apply patch.diff; pytest; demo.py; ./check <prop> --tier quick; git -C /repo checkout -- .; demo.py'
        json.dump(meta, open(os.path.join(d, 'meta.json'), 'w'), indent=1)
        print(n, 'suite:', meta['suite_with_change'], '| demo with/without:', rc_demo, rc_demo0, '| check exit', rc_chk,
              'QUIET' if meta['quiet'] else 'FALSE-ALARM', 'n/a:', len(meta['check_with_change']['not_applicable']),
              meta['check_with_change']['secs'], 's', flush=True)


if __name__ == '__main__':
    main()
