"""Per-property configuration: level, bounded harnesses, texts used by MANIFEST generation."""

ASSUMPTIONS_COMMON = [
    'Python semantics as modelled by pyvc (DESIGN.md 2.2): unbounded ints; bytes/bytearray/memoryview as windows on heap cells; '
    'attribute lookup is static (no monkey-patching of verified classes); MemoryError/RecursionError/KeyboardInterrupt not modelled',
    'trusted builtin models listed under coverage.trusted_base (struct big-endian packing, len, isinstance, memoryview, bytes, reduce, ...)',
    'distinct buffer parameters do not alias unless a contract says so',
    'prefix-sum ghost function PS with its recurrence/monotonicity axioms (true by induction; instantiated, not proved, in z3)',
    'soundness of the home-made verifier itself (mitigated by mutant runs on scratch copies and CPython replay) and of z3',
]

PROPS = {}


def prop(pid, **kw):
    PROPS[pid] = kw


NOT_APPLICABLE = {}

T_DEDUCTIVE = ('contract-based deductive verification of the real functions: pyvc generates verification conditions from the real '
               'ast against sidecar contracts (pre/post, exceptional post, loop invariants + variants, frames) and z3 discharges them '
               'for all inputs; counter-models are replayed on the real code in CPython')

T_MIXED = ('contract-based deductive verification of the decisive real functions (pyvc: verification conditions from the real ast '
           'against sidecar contracts, discharged by z3) plus a bounded stand-in: the same clauses as run-time contracts on the '
           'real code over an enumerated domain (labelled bounded, never counted as proved)')
T_BOUNDED = ('run-time contracts on the real functions over an enumerated, stated domain (bounded stand-in of the contract '
             'family), with the functions that could be brought under deductive contracts proved by pyvc/z3')
SH = {'quick': 8, 'thorough': 16}

prop('C01', title='Interest and Data packets survive an encode/decode round trip', level='proof',
     bounded=[('bounded.c01', 'run', SH)],
     level_text='Unbounded proof for the var-number codec, shrink_length (all length-width pairs), every Field encoder against its announced '
                'size, SignatureValueField with a signer that returns fewer bytes than reserved, and make_data with the real field list '
                'unrolled: exactly one well-formed element with exact, shortest-form lengths for every name form / MetaInfo / content / '
                'signer. make_interest and the parse-back equality are covered by the bounded stand-in only.',
     level_note='Trusted: pyvc, z3, builtin models, nested plain models via the generic TlvModel contracts. The Signer interface the packet '
                'proofs assume (reserved size S, at most S bytes written at the start of a buffer of exactly S bytes, nothing else touched) '
                'is itself proved for the six shipped signers (digest, HMAC, RSA, ECDSA, Ed25519, null) with the primitives assumed. '
                'Bounded part: round trips over boundary sizes x all shipped signers.',
     technique=T_MIXED)
prop('C02', title='Signatures and parameter digests cover the specified bytes; tampering detected', level='proof',
     bounded=[('bounded.c02', 'run', SH)],
     level_text='Unbounded proof (Data, encode side) that the signer is handed exactly one range from the first byte of the Name to the start '
                'of the SignatureValue element and the value buffer right after its header, before and after the length repair; the Interest '
                'name encoder hands the signer every component except the digest component and the 32 digest value bytes as digest '
                'buffer; params_sha256_checker / sha256_digest_checker hash EVERY covered block, in order, once, and accept iff the digest '
                'equals the value buffer (SHA-256 uninterpreted); on the parse side InterestNameField.parse_from hands validators every '
                'name component except ParametersSha256Digest ones, in order, and the value bytes of that component as digest buffer; '
                'verify_ecdsa / rsa / hmac / ed25519 hand the (assumed) cryptographic verifier the hash over every covered block in '
                'order, the packet\'s signature value and exactly the given key and return its verdict; the per-algorithm checkers refuse '
                'other signature types; from_key\'s validator insists on a key locator under the configured key name. '
                'The other parse-side ranges, acceptance by the matching verifier and tamper rejection are a bounded stand-in with '
                'real crypto.',
     level_note='Signing side: each shipped signer writes the primitive\'s output for the hash over EVERY covered block in order (its own key, '
                'its own type and key locator in the SignatureInfo). Unforgeability of RSA/ECDSA/HMAC/Ed25519 and SHA-256 and the output '
                'lengths of the primitives are assumed (Cryptodome/hashlib); "no differing packet is accepted" '
                'is only sampled.',
     technique=T_MIXED)
prop('C03', title='Every expressed Interest completes exactly once with the right outcome', level='exploration',
     bounded=[('bounded.c03', 'run', SH)],
     level_text='Deciding check: run-time contracts (outcome per Interest, pending-table invariant, no internal error, loop exception handler '
                'silent) on the real NDNApp (both front-ends) over all event histories up to a stated length on a virtual-time loop. '
                'Deductive fragments (unbounded, pyvc/z3; current front-end): PendingIntEntry.satisfy (done-guard, single completion, all '
                'verdicts); InterestTreeNode.nack_interest / satisfy / timeout / cancel over pending lists of ANY length (exactly the '
                'addressed entries leave the list, each is completed / handed to validation at most once, all others stay untouched in '
                'order, return value = nothing remains); _on_data over any number of prefix nodes, _on_nack, _remove_pending, '
                '_wait_for_data (timeout / cancellation mapped after removal, other outcomes passed through) and express_raw_interest '
                '(one fresh entry registered before the Interest is sent, coroutine waits on that future); legacy front-end: '
                'name_tree.InterestTreeNode.nack_interest / satisfy / timeout / cancel (same clauses, completion with the Data itself) and '
                'the table handlers; express / express_interest (refusals before any effect, data flow into make_interest and '
                'express_raw_interest, nonce, signer selection), _clean_up (every pending node cancelled once, tables emptied) and '
                'main_loop (connect, start task, run, shut the face down however run() ends, then clean up, then await the start task).',
     level_note='One open known finding (current front-end: an Interest fetched at or after its deadline, e.g. InterestLifetime 0, waits '
                'another 100 ms and accepts Data arriving in that window) is reported on every run. '
                'Bounded by history length and alphabet (see evidence.bounded); liveness rests on asyncio.wait_for. The composition of the '
                'per-function contracts over all event histories (a global exactly-once theorem) is NOT proved: asyncio futures / tasks, '
                'pygtrie and wait_for are assumed interfaces, futures of distinct entries are assumed distinct.',
     technique=T_BOUNDED)
prop('C04', title='Incoming Interests reach exactly the handler of their longest registered prefix', level='proof',
     bounded=[('bounded.c04', 'run', SH)],
     level_text='Unbounded proof of appv2 _on_interest against the assumed pygtrie contract of longest_prefix: only the handler stored at the '
                'longest attached prefix can be invoked, at most once, none when nothing matches; reply transmits iff now <= deadline and '
                'returns True iff it sent; attach_handler / detach_handler against an assumed trie (refused attach changes nothing, other '
                'prefixes untouched); legacy _on_interest: longest registered prefix only, at most once, extras exactly as registered; '
                'legacy set_interest_filter / unset_interest_filter (same clauses as attach / detach). Representation independence of '
                'the name forms is bounded. Dispatcher.register / unregister / dispatch carry the same clauses.',
     level_note='pygtrie (longest_prefix, setdefault, __delitem__) is assumed and validated at run time by the bounded stand-in; '
                'create_task is modelled as eager execution.',
     technique=T_MIXED)
prop('C05', title='Nothing that requires validation reaches the application unvalidated', level='proof',
     bounded=[('bounded.c05', 'run', SH)],
     level_text='Unbounded proof for the current front-end: PendingIntEntry.satisfy maps every validator answer of any type (and a missing / '
                'timed-out validator) to payload vs ValidationFailure carrying packet and verdict; _on_interest delivers a parameterised or '
                'signed Interest only after a correct digest AND an accepting validator, plain Interests without consulting one. Legacy '
                'front-end: _wait_for_data hands Data to the caller only after the given (else the default) validator accepted exactly '
                'this name and signature, every falsy answer is a ValidationFailure; legacy _on_interest delivers a signed Interest only '
                'after digest AND the prefix\'s (else the application\'s) validator accepted. Deadline behaviour is a bounded stand-in '
                '(one open known finding there).',
     level_note='Validators and handlers are arbitrary callables modelled by assumed contracts; the clock is a ghost variable.',
     technique=T_MIXED)
prop('C06', title='Receive path: exact stream framing, and no failure on any delivered bytes', level='proof',
     bounded=[('bounded.c06', 'run', SH)],
     level_text='Unbounded proof that _receive of both front-ends returns normally for every (typ, bytes): every decoder below it has a '
                'verified raise-set and every raised class is caught, incl. envelopes without fragment. Stream framing: '
                'read_tl_num_from_stream consumes and copies exactly one variable-size number; StreamFace.run (loop step contract + '
                'variant, ANY byte stream, reads abstracted by the readexactly contract) hands over exactly one complete packet per '
                'iteration - its type and a buffer equal to its bytes - continues at the next packet, and on a stream that ends inside '
                'a packet hands over nothing, shuts the face down and terminates. "Unrelated Interests/handlers unaffected" and real '
                'cut positions on real StreamReaders are a bounded stand-in.',
     level_note='parse of shipped model classes is summarised (contracts/parse_summary.py) on top of the generic TlvModel.parse proof; '
                '_on_data/_on_nack/_on_interest are call-site summaries inside _receive; their own contracts (raise nothing for ANY name, '
                'also the empty one, any table content) are verified under this property as well.',
     technique=T_MIXED)
prop('C07', title='Packet decoders accept exactly the well-formed packets', level='proof', bounded=[('bounded.c07', 'run', SH)],
     level_text='Unbounded proof, per function, that the decoders (var-number codec, outer-element check, Name.decode, UintField widths, '
                'the generic TlvModel.parse scan for an arbitrary field list) keep every nested element inside its parent, match recognised '
                'elements once and in order, reject unrecognised critical ones, examine the WHOLE wire before returning, hand a nested model '
                'exactly its Value bytes and the criticality rule declared for that field (ModelField.parse_from; no nested element of the '
                'Interest format is declared relaxed), terminate in linear time and raise only documented errors. '
                'One open known finding (declared length overrunning the parent is truncated, not rejected) is reported on every run.',
     level_note='Trusted: pyvc itself, z3, the builtin models (struct, bytes, memoryview, len, isinstance), the Field interface used for the '
                'generic parse proof (each shipped Field class is tied to it by its own contract). "Fields equal a strict reading" is only '
                'covered by the bounded stand-in.',
     technique=T_DEDUCTIVE,
     assumptions=['Field subclasses satisfy the Field interface used in the generic TlvModel.parse proof (tied by per-class contracts)'])
prop('C08', title='TLV models encode to exact, minimal TLV and decode back to equal values', level='proof', bounded=[('bounded.c08', 'run', SH)],
     level_text='Unbounded proof that var-numbers are written in shortest form, that every integer/boolean/byte-string/text field announces '
                'exactly the size it then writes (smallest legal integer width, UTF-8 length for text), that the generic encoded_length/encode '
                'drivers write the fields in declared order at consecutive offsets with total == announced for ANY field list, that parse '
                'skips unknown non-critical and rejects unknown critical elements, and that RepeatedField / MapField over ANY number of '
                'values announce the sum of their element sizes, encode every element (key then value) once, in order, at consecutive '
                'offsets touching nothing else, and append / store parsed elements without disturbing earlier ones.',
     level_note='Trusted: pyvc, z3, builtin models, the prefix-sum ghost axioms. Model-level parse(encode(m)) == m for generated classes is a '
                'bounded stand-in, not part of the proof.',
     technique=T_DEDUCTIVE)

prop('C09', title='Name representations (URI, component list, wire) are mutually consistent', level='proof',
     bounded=[('bounded.c09', 'run', SH)],
     level_text='Unbounded proof for the wire side: Name.decode (components tile exactly the declared length), Name.encode / encoded_length '
                '(exact size, header), Name.normalize, Component.from_bytes / from_number / get_type / get_value / to_number and the typed-number '
                'constructors; and for the URI PRINTERS over a structured-text abstraction: Component.to_canonical_uri / to_str (decimal type '
                'prefix unless generic, sha256digest= / params-sha256= hex forms, seg= off= v= t= seq= decimal forms, value bytes in order, each '
                'of the 256 byte values rendered as the URI scheme says - tabulated from the real nested function) and Name.to_str / '
                'to_canonical_uri (leading slash, every component in order, trailing slash exactly for an empty last component); '
                'Name.is_prefix on component lists of any length: True exactly when lhs is not longer and every component equals the '
                'one of rhs at its position byte for byte (list equality = quantified byte-string equality); Name.from_bytes = the '
                'component list of Name.decode.',
     level_note='The URI PARSERS (Component.from_str, Name.from_str, escape_str) - hence every round trip through text, the normalisation of '
                'text input forms, is_prefix on text forms and canonical ordering - are a bounded stand-in (exhaustive over a small alphabet + random names): '
                'their character loops need an inductive position argument that this engine does not carry (DESIGN.md 6/C09).',
     technique=T_MIXED)
prop('C10', title='Link-layer envelopes are transparent: Nack, PIT token and wrapped packets', level='proof',
     bounded=[('bounded.c10', 'run', SH)],
     level_text='Unbounded proof: parse_lp_packet_v2 rejects a recognised FragIndex/FragCount and raises only documented errors; _receive '
                'dispatches at most once per packet and a Nack header leads to _on_nack only; the reply of an Interest that arrived with a '
                'PIT token is 64 L (62 |t| t)(50 |d| d) with identical token and unmodified payload (LpPacket unrolled), bare without token.',
     level_note='make_network_nack: exact layout 64 L (fd0320 n (fd0321 w r))(50 |i| i) for every reason < 2^64 and every Interest '
                '(LpPacket unrolled) is proved as well, and so is the header of the no-copy send path (64 L (62 |t| t) 50 |d| followed by the '
                'Data itself, L covering the Data; one defect found and fixed there); table-level Nack handling: see C03. Several tokens '
                'in all orders are bounded.',
     technique=T_MIXED)

prop('C11', title='A compiled trust schema matches exactly the names its source text describes', level='exploration',
     bounded=[('bounded.c11', 'run', SH)],
     level_text='Deciding check (bounded): Checker.match on compile_lvs(text), directly and after load(save()), equals an independent '
                'reference semantics evaluated on the generator\'s abstract schema, for generated schemas x all names up to length 4.',
     level_note='A proof of the three-pass compiler for all programs is outside what contracts on these functions can express '
                '(DESIGN.md 6/C11). Deductive fragments (unbounded, pyvc/z3): Checker._check_cons for any number of constraints and '
                'options - True iff every constraint has a satisfied option; Checker._match on a sanity-checked model for any name and '
                'initial bindings: stack representation invariant, no run-time error, and soundness of every step (value edge only for an '
                'equal component; pattern edge only after its constraints held, bound pattern only for an equal value, named pattern '
                'bound / temporary not; match reported exactly when the name is consumed; backtracking undoes exactly the binding of the '
                'undone edge). Completeness of the search and termination are not proved.',
     technique=T_BOUNDED)
prop('C12', title='The signing check holds exactly when the schema lets that key sign that packet', level='exploration',
     bounded=[('bounded.c12', 'run', SH)],
     level_text='Deciding check (bounded): Checker.check equals the reference signing relation on generated schemas with signing '
                'chains / alternatives / shared patterns, for all name pairs up to length 3 (+ matching length-4 names).',
     level_note='Deductive fragments (unbounded, pyvc/z3): Checker.check for any number of matches - True iff some packet match and some '
                'key match UNDER THAT MATCH\'S BINDINGS reach nodes p, k with k in sign_cons(p), trailing implicit digests (and only those) '
                'dropped - against an assumed interface of the matcher; _check_cons; step soundness of the matcher _match (see C11). '
                'Completeness of the backtracking matcher is only explored, not proved.', technique=T_BOUNDED)
prop('C13', title='Ill-formed schemas and models are rejected; accepted models always terminate', level='fault_enumeration',
     bounded=[('bounded.c13', 'run', SH)],
     level_text='Deciding check (bounded): one injected static error of each documented kind at every position of generated schemas must '
                'raise the documented error; every single-field corruption of compiled models is rejected or yields a model on which '
                'match/check terminate within a step budget.',
     level_note='Deductive fragments (unbounded, pyvc/z3): the loader\'s recursive dfs (nested-function contract, loop invariants over '
                'any number of edges / constraint sets / options / signers): normal return only if every documented node, edge, option '
                'and signer rule holds at the node and - through the recursive calls - below it, LvsModelError otherwise; '
                '_sanity_check: version, start node, whole tree from the root, cycle check over all nodes. The compiler and '
                'termination are bounded only (step budget 10^5 traced lines).', technique=T_BOUNDED)
prop('C14', title='The schema validator accepts exactly packets with a valid chain to the anchor', level='fault_enumeration',
     bounded=[('bounded.c14', 'run', SH)],
     level_text='Deciding check (bounded): generated PKIs (depth 1..4, EC + RSA) x every single deviation at every link, with real crypto and '
                'an in-process certificate face; constructor refusal; verdict independence over all orders of two instances x three packets.',
     level_note='Deductive fragments (unbounded, pyvc/z3) with signature schemes and certificate retrieval as assumed interfaces: '
                'CascadeChecker._verify_sig (truthy only for RSA/ECDSA with the verifier\'s own verdict on these key bits; HMAC and '
                'unknown types refused), CascadeChecker.validate (True only if a key locator is present and the signature verifies under '
                'the anchor key / a cached key / a certificate fetched with validator = next level; Nack, timeout, validation failure '
                'and empty content refuse), __init__ (self-signature of the anchor, per-instance cache), union_checker (conjunction, '
                'order, short-circuit) and lvs_validator (sanity conditions, schema check AND cascade, cascade re-validates fetched '
                'certificates with the union). The induction over chain length is not proved: hierarchies are small and generated.',
     technique=T_BOUNDED)
prop('C16', title='Issued certificates are well-formed, correctly named and verifiable', level='exploration',
     bounded=[('bounded.c16', 'run', SH)],
     level_text='Deciding check (bounded): self_sign / sign_req / derive_cert / new_cert over EC/RSA/Ed25519 subject x issuer, many ECDSA '
                'signature lengths, start times at year and leap boundaries, naive/UTC/offset datetimes: well-formed element (independent '
                'walker), name, content, content type, exact validity instants, verification, key locator, parse-back.',
     level_note='datetime/strftime and the signature primitives are assumed. Deductive fragments (pyvc/z3): new_cert (thorough tier: one '
                'well-formed Data element, name = key / issuer / version, content, content type, validity from the requested instants in '
                'UTC, covered range, exact signature length) and, against its contract, self_sign / sign_req / derive_cert (issuer '
                'component, subject key / public key / signer passed on, validity start and end as stated).', technique=T_BOUNDED)

prop('C15', title='Keychain contents, defaults and signers stay consistent over any history', level='fault_enumeration',
     bounded=[('bounded.c15', 'run', SH)],
     level_text='Deciding check (bounded): class invariants of the keychain / Identity / Key Mapping views, default invariants, cascade to '
                'private-key files and signer correctness as run-time contracts after every operation on a real KeychainSqlite3 + TpmFile, '
                'over operation histories up to a stated length, close/reopen, and one injected storage failure at every step.',
     level_note='SQL trigger semantics live in SQL text executed by SQLite: no contract on the Python functions can express them '
                '(DESIGN.md 6/C15). Deductive fragments (unbounded, pyvc/z3, database / TPM as assumed ghost interfaces): get_signer for '
                'every combination of arguments (selection cert > key > identity > default, key locator, TPM signer for exactly that '
                'pair, cache keyed by the pair); del_key / del_cert / new_key / import_cert / touch_identity / del_identity (any number of keys) with a failure of any '
                'exception class injected at every database and TPM step: nothing uncommitted is left behind, failures are rolled back, '
                'an orphan private key is removed, the signer cache is emptied before any deletion; TpmFile.get_signer / key_exist / '
                'save_key / delete_key over a ghost file system: every operation addresses the file named after exactly that key name, '
                'a deleted key\'s file is gone and no other file is touched, the signer is built from that file\'s content.'
                'Identity / Key views (__len__, __getitem__, has_default_*, default_*): exactly one query, parameterised by the '
                'owner\'s row id (scoped to the owner), looked up by the requested name, the returned Key / Certificate carries the '
                'owner\'s name and the row\'s fields, KeyError only without a matching row of the owner.',
     technique=T_BOUNDED)
prop('C17', title='Prefix registration speaks the forwarder management protocol correctly', level='proof',
     bounded=[('bounded.c17', 'run', SH)],
     level_text='Unbounded proof for NfdRegister.register / unregister against assumed contracts of the app, clock, sleep and semaphore: '
                'exactly one command naming the prefix, sent while holding the semaphore, SignatureTime strictly after the previous '
                'command, True iff the reply decodes to status 200, every other reply / exception gives False, nothing raised; '
                'parse_response raise-set and field flow; legacy front-end register / unregister (handler installed or removed first, a '
                'duplicate refused before any command, one rib command with 1 s lifetime under the semaphore, True iff status 200, every '
                'other outcome False); auto-registration: main_loop.starting_task (nested-function contract, any number of remembered '
                'routes) registers every route exactly once, in order, before the start coroutine runs; make_command_v2: command name = '
                '/localhost|localhop/nfd/<module>/<command> + one component 08 |p| (68 |n| (07 .. prefix ..)) and nothing else '
                '(ControlParameters unrolled). The legacy signed command format and concurrency are bounded.',
     level_note='asyncio (Semaphore, sleep advances the ms clock by >= 1), the application and the clock are assumed models.',
     technique=T_MIXED)
prop('C18', title='State-vector sync merges monotonically and announces exactly when needed', level='proof',
     bounded=[('bounded.c18', 'run', SH)],
     level_text='Unbounded proof over state vectors as maps on opaque node ids and received vectors with ANY number of entries: '
                'sync_handler ignores malformed / over-claiming vectors entirely, otherwise local\' = entry-wise max and the callback '
                'fires exactly once iff some entry was raised, nothing raised; aggregate = entry-wise max into the aggregate; on_timer '
                '(loop step contract, any state and vectors): a reset sends nothing, a steady-state timer sends exactly one sync '
                'Interest, after suppression one is sent iff some local entry exceeds what the aggregate covers, back to steady, '
                'vectors untouched; new_data: own sequence number +1 recorded for this node only, timer due at once, task woken iff '
                'running; sync_handler and the suppression period: a steady instance enters suppression iff the sender is behind or names '
                'unknown nodes, the merge of the period starts as exactly that vector, later vectors are folded in entry-wise, and the '
                'periodic timer is pushed back only when no sync Interest is due now (a publication waiting for the timer task is not '
                'postponed: one defect found and fixed there); express_sync_interest (local vector with ANY number of entries): exactly '
                'one Interest, fire-and-forget, signed with the Interest signer, named <sync prefix>/<encoded vector>, and the vector '
                'carries every local entry exactly once with its sequence number and nothing else (the full vector). Timing (when '
                'timers fire) and the byte-level encoding of the emitted vector are a bounded stand-in on a virtual clock.',
     level_note='Quantified obligations (maps, exists) are discharged by z3 with MBQI; a false one may come back unknown (reported '
                'as undecided, never as holding). Wall-clock arithmetic is opaque.',
     technique=T_MIXED)
prop('C19', title='Segmented fetch yields every segment once, in order, tolerating bounded loss', level='proof',
     bounded=[('bounded.c19', 'run', SH)],
     level_text='Unbounded proof (loop invariants on the retry loop and the segment loop, ghost counters): each Interest is re-expressed '
                'until exactly retry_times attempts, timeout exactly then, Nack / ValidationFailure end the fetch at once, the k-th '
                'content yielded answers the request for segment k, the fetch stops exactly at the final block or for an unsegmented '
                'object, a discovery answer that is not segment 0 restarts at 0.',
     level_note='Assumed (property C03): express_interest returns Data matching the Interest or raises. Simulated producers with '
                'loss patterns are the bounded stand-in.',
     technique=T_MIXED)
prop('C20', title='Client configuration resolves with environment over file over platform default', level='proof',
     bounded=[('bounded.c20', 'run', SH)],
     level_text='Unbounded proof over opaque text values and a ghost file system / environment (every combination of presence, every '
                'value): read_client_conf takes each setting from NDN_CLIENT_* else the first existing client.conf else the platform '
                'default and opens only that file; resolve_location (nested-function contract) keeps an existing location, resolves a '
                'missing one against the configuration directory, else the first existing platform default, else the first default; '
                'default_face maps unix / tcp* / udp* to the face type, host and port (6363 when absent or 0) and refuses every other '
                'scheme; default_keychain builds the sqlite/file pair at the given locations and refuses unknown schemes. Linux platform.',
     level_note='ASSUMED interfaces: os.path.exists / expandvars / expanduser / join / dirname, ConfigParser, open, urlparse, os.environ. '
                'The bounded stand-in runs the same clauses against the real ones on real directory trees (225 URIs).',
     technique=T_MIXED)
