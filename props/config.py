"""Per-property configuration: level, bounded harnesses, texts used by MANIFEST generation."""

ASSUMPTIONS_COMMON = [
    'Python semantics as modelled by pyvc (DESIGN.md 2.2): unbounded ints; bytes/bytearray/memoryview as windows on heap cells; '
    'attribute lookup is static (no monkey-patching of verified classes); MemoryError/RecursionError/KeyboardInterrupt not modelled',
    'trusted builtin models listed under coverage.trusted_base (struct big-endian packing, len, isinstance, memoryview, bytes, reduce, ...)',
    'distinct buffer parameters do not alias unless a contract says so',
    'prefix-sum ghost function PS with its recurrence/monotonicity axioms (true by induction; instantiated, not proved, in z3)',
    'soundness of the home-made verifier itself (mitigated by mutant runs on scratch copies and CPython replay) and of z3',
]

PROPS = {}


def prop(pid, **kw):
    PROPS[pid] = kw


prop('C07', title='Packet decoders accept exactly the well-formed packets', level='proof',
     bounded=[],
     assumptions=['Field subclasses satisfy the Field interface used in the generic TlvModel.parse proof (tied by per-class contracts)'])
prop('C08', title='TLV models encode to exact, minimal TLV and decode back to equal values', level='proof', bounded=[])
