"""Per-property configuration: level, bounded harnesses, texts used by MANIFEST generation."""

ASSUMPTIONS_COMMON = [
    'Python semantics as modelled by pyvc (DESIGN.md 2.2): unbounded ints; bytes/bytearray/memoryview as windows on heap cells; '
    'attribute lookup is static (no monkey-patching of verified classes); MemoryError/RecursionError/KeyboardInterrupt not modelled',
    'trusted builtin models listed under coverage.trusted_base (struct big-endian packing, len, isinstance, memoryview, bytes, reduce, ...)',
    'distinct buffer parameters do not alias unless a contract says so',
    'prefix-sum ghost function PS with its recurrence/monotonicity axioms (true by induction; instantiated, not proved, in z3)',
    'soundness of the home-made verifier itself (mitigated by mutant runs on scratch copies and CPython replay) and of z3',
]

PROPS = {}


def prop(pid, **kw):
    PROPS[pid] = kw


NOT_APPLICABLE = {}

T_DEDUCTIVE = ('contract-based deductive verification of the real functions: pyvc generates verification conditions from the real '
               'ast against sidecar contracts (pre/post, exceptional post, loop invariants + variants, frames) and z3 discharges them '
               'for all inputs; counter-models are replayed on the real code in CPython')

prop('C07', title='Packet decoders accept exactly the well-formed packets', level='proof', bounded=[],
     level_text='Unbounded proof, per function, that the decoders (var-number codec, outer-element check, Name.decode, UintField widths, '
                'the generic TlvModel.parse scan for an arbitrary field list) keep every nested element inside its parent, match recognised '
                'elements once and in order, reject unrecognised critical ones, terminate in linear time and raise only documented errors. '
                'One open known finding (declared length overrunning the parent is truncated, not rejected) is reported on every run.',
     level_note='Trusted: pyvc itself, z3, the builtin models (struct, bytes, memoryview, len, isinstance), the Field interface used for the '
                'generic parse proof (each shipped Field class is tied to it by its own contract). "Fields equal a strict reading" is only '
                'covered by the bounded stand-in.',
     technique=T_DEDUCTIVE,
     assumptions=['Field subclasses satisfy the Field interface used in the generic TlvModel.parse proof (tied by per-class contracts)'])
prop('C08', title='TLV models encode to exact, minimal TLV and decode back to equal values', level='proof', bounded=[],
     level_text='Unbounded proof that var-numbers are written in shortest form, that every integer/boolean/byte-string/text field announces '
                'exactly the size it then writes (smallest legal integer width, UTF-8 length for text), that the generic encoded_length/encode '
                'drivers write the fields in declared order at consecutive offsets with total == announced for ANY field list, and that parse '
                'skips unknown non-critical and rejects unknown critical elements.',
     level_note='Trusted: pyvc, z3, builtin models, the prefix-sum ghost axioms. Model-level parse(encode(m)) == m for generated classes is a '
                'bounded stand-in, not part of the proof.',
     technique=T_DEDUCTIVE)
