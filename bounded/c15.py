"""C15 bounded stand-in: the real KeychainSqlite3 + TpmFile in a temp directory, class invariants as run-time contracts.

Every case is a history of operations; after EVERY operation the whole store is audited against a reference model
(which identities / keys / certificates must exist, which were deleted, which defaults were set explicitly):

  inv_view(v)        for the keychain, each Identity and each Key: len(v) == len(list(v)), no duplicates, the listed
                     names are exactly the live items of that owner, k in v and v[k] succeed for listed names and give
                     an object that says it belongs to this owner, and fail (KeyError) for items of other owners and for
                     names that never existed
  inv_default(s)     per scope: at most one item flagged default; has_default_x() / default_x() agree with the flags;
                     exactly one whenever the scope is populated and its default was not deleted; set_default(x) makes x it
  inv_cascade        private-key files exist exactly for the live keys (none for deleted keys / identities, no strays);
                     no database rows survive beneath a deleted owner
  post_signer(args)  get_signer(args) signs with the private key of the key the arguments select (verified with the
                     stored public key bits), the key locator is the explicit one or the selected/default certificate;
                     when nothing can be selected, or the key/certificate was deleted, get_signer fails
  post_fault         one storage failure injected at step n of the last operation (TpmFile.save_key/delete_key,
                     sqlite execute/commit); afterwards the structural invariants still hold, repeating the operation
                     (optionally after close + reopen) succeeds, and the store again matches the model
"""
import os
import random
import shutil
import sqlite3
from datetime import datetime, timezone

from Cryptodome.PublicKey import ECC, RSA
from ndn.app_support.security_v2 import derive_cert
from ndn.encoding import Name, MetaInfo, make_data, parse_data, SignatureType
from ndn.security import KeychainSqlite3, TpmFile
from ndn.security.signer.sha256_digest_signer import DigestSha256Signer
from ndn.security.validator.known_key_validator import verify_ecdsa, verify_rsa

from ._misc import drive, replay_with, tmpdir, where

MODULE = 'bounded.c15'
# 'c': an identity whose own name contains a KEY component (a legal name; key and certificate names under it contain two)
IDN = {'a': '/c15/alice', 'b': '/c15/bob', 'c': '/c15/KEY/carol'}
GHOST_ID = '/c15/ghost'
LOCATOR = '/c15/explicit/locator'


def nb(name):
    return bytes(Name.to_bytes(name))


# ---------------------------------------------------------------- reference model
class CertM:
    def __init__(self, name, data):
        self.name, self.data = nb(name), bytes(data)


class KeyM:
    def __init__(self, name, bits, kind):
        self.name, self.bits, self.kind = nb(name), bytes(bits), kind
        self.certs = []
        self.default = None            # name set explicitly / by being the only item; None = not determined
        self.default_deleted = False


class IdM:
    def __init__(self, name):
        self.name = nb(name)
        self.keys = []
        self.default = None
        self.default_deleted = False


class Model:
    def __init__(self):
        self.ids = {}                  # letter -> IdM
        self.default = None
        self.default_deleted = False
        self.dead_keys = []            # (key name, [cert names]) of deleted keys
        self.dead_certs = []           # (cert name, key name) of deleted certificates whose key is still alive
        self.n_issued = 0


# ---------------------------------------------------------------- the real store
_BASE = {}


def _base():
    pid = os.getpid()
    if pid not in _BASE:
        t = tmpdir('c15-')
        KeychainSqlite3.initialize(os.path.join(t.name, 'template', 'pib.db'), 'tpm-file', os.path.join(t.name, 'template', 'tpm'))
        _BASE[pid] = t
    return _BASE[pid].name


def _cleanup():
    t = _BASE.pop(os.getpid(), None)
    if t is not None:
        t.cleanup()


class Fault(Exception):
    pass


class ConnProxy:
    """stands in for the sqlite3 connection of the keychain: counts execute/commit steps and fails the planned one"""

    def __init__(self, real, world):
        self.__dict__['_real'] = real
        self.__dict__['_world'] = world

    def execute(self, sql, *a):
        self._world.step('db', sql)
        return self._real.execute(sql, *a)

    def commit(self):
        self._world.step('db', 'COMMIT')
        return self._real.commit()

    def __getattr__(self, item):
        return getattr(self._real, item)


class _fs_refuses:
    """while active, the file system refuses to remove ('remove') or to create / overwrite ('open') private-key files"""

    def __init__(self, what):
        self.what = what

    def __enter__(self):
        import ndn.security.tpm.tpm_file as tf
        self.tf = tf
        if self.what == 'remove':
            self.real = os.remove

            def remove(path, *a, **kw):
                if str(os.fsdecode(path)).endswith('.privkey'):
                    raise PermissionError(13, 'Permission denied (injected by the harness)', os.fsdecode(path))
                return self.real(path, *a, **kw)
            os.remove = remove
        else:
            def open_(path, mode='r', *a, **kw):
                if str(os.fsdecode(path)).endswith('.privkey') and any(c in mode for c in 'wax+'):
                    raise OSError(28, 'No space left on device (injected by the harness)', os.fsdecode(path))
                return open(path, mode, *a, **kw)
            tf.open = open_
        return self

    def __exit__(self, *exc):
        if self.what == 'remove':
            os.remove = self.real
        else:
            del self.tf.open
        return False


class World:
    def __init__(self, root):
        self.root = root
        shutil.copytree(os.path.join(_base(), 'template'), root)
        self.db = os.path.join(root, 'pib.db')
        self.tpm_dir = os.path.join(root, 'tpm')
        self.plan = None               # step ordinal at which to fail, or None
        self.count = 0
        self.fired = None
        self.kc = None
        self.open()

    def open(self):
        self.tpm = TpmFile(self.tpm_dir)
        real_save, real_delete = self.tpm.save_key, self.tpm.delete_key

        # a private-key-store failure is injected BELOW TpmFile (the file system refuses), so that TpmFile's own handling of
        # the error is part of what is exercised: a failure it swallows is a deletion / save that did not happen
        def save_key(key_name, key_der):
            if self.due('tpm', 'save_key'):
                with _fs_refuses('open'):
                    return real_save(key_name, key_der)
            return real_save(key_name, key_der)

        def delete_key(key_name):
            if self.due('tpm', 'delete_key'):
                with _fs_refuses('remove'):
                    return real_delete(key_name)
            return real_delete(key_name)
        self.tpm.save_key, self.tpm.delete_key = save_key, delete_key
        self.kc = KeychainSqlite3(self.db, self.tpm)
        self.kc.conn.execute('PRAGMA synchronous=OFF')         # speed only
        self.real_conn = self.kc.conn
        self.kc.conn = ConnProxy(self.real_conn, self)

    def reopen(self):
        self.kc.shutdown()
        self.open()

    def close(self):
        try:
            if self.kc is not None and self.kc.conn is not None:
                self.kc.shutdown()
        except Exception:
            pass

    def due(self, layer, what):
        """counts a storage step; True when it is the planned failing one (the caller then makes the file system refuse)"""
        if self.plan is None:
            return False
        n = self.count
        self.count += 1
        if n == self.plan and self.fired is None:
            self.fired = 'tpm-' + what.replace('_', '-')
            return True
        return False

    def step(self, layer, what):
        if self.plan is None:
            return
        n = self.count
        self.count += 1
        if n == self.plan and self.fired is None:
            if layer == 'db':
                verb = what.strip().split()[0].upper()
                table = ''
                for t in ('identities', 'keys', 'certificates'):
                    if t in what:
                        table = '-' + t
                        break
                self.fired = ('db-read' if verb == 'SELECT' else 'db-commit' if verb == 'COMMIT' else f'db-write{table}')
                raise sqlite3.OperationalError('disk I/O error (injected by the harness)')
            self.fired = 'tpm-' + what.replace('_', '-')
            raise OSError(28, 'No space left on device (injected by the harness)')


# ---------------------------------------------------------------- signing contract
def sign_and_check(signer, keym, locator):
    """None if a packet signed by `signer` verifies under keym's public bits and names `locator`; else a description"""
    try:
        wire = make_data('/c15/probe/data', MetaInfo(freshness_period=1), b'payload', signer=signer)
        _, _, _, sig = parse_data(wire)
    except Exception as e:
        return f'signing failed: {type(e).__name__}: {e} @ {where(e)}'
    si = sig.signature_info
    if si is None or si.key_locator is None or si.key_locator.name is None:
        return 'the signed packet has no key locator name'
    got = nb(si.key_locator.name)
    if got != locator:
        return f'key locator is {Name.to_str(got)}, expected {Name.to_str(locator)}'
    try:
        if keym.kind == 'rsa':
            ok = si.signature_type == SignatureType.SHA256_WITH_RSA and verify_rsa(RSA.import_key(keym.bits), sig)
        else:
            ok = si.signature_type == SignatureType.SHA256_WITH_ECDSA and verify_ecdsa(ECC.import_key(keym.bits), sig)
    except Exception as e:
        return f'verification raised {type(e).__name__}: {e}'
    if not ok:
        return f'the signature does not verify under the public key of {Name.to_str(keym.name)}'
    return None


# ---------------------------------------------------------------- audit (class invariants)
class Audit:
    def __init__(self, world, model, ctx, structural_only=False):
        self.w, self.m, self.ctx, self.so = world, model, ctx, structural_only
        self.v = []

    def viol(self, key, what):
        self.v.append((key, f'{self.ctx}: {what}'))

    def view(self, label, kind, v, expect_names, foreign, ghost, owner_check):
        """inv_view for one mapping; returns the listed names (bytes)"""
        try:
            listed = [nb(n) for n in v]
            length = len(v)
        except Exception as e:
            self.viol(f'C15:{kind}-view-raises', f'{label}: iteration/len raised {type(e).__name__}: {e} @ {where(e)}')
            return []
        if length != len(listed):
            # (for a Key view the shipped __len__ counts rows of the keys table, hence the historical name of the key)
            self.viol('C15:key-len-counts-identity-keys' if kind == 'key' else f'C15:{kind}-len-differs-from-iteration',
                      f'{label}: len() is {length} but iteration yields {len(listed)} item(s)')
        if len(set(listed)) != len(listed):
            self.viol(f'C15:{kind}-iteration-duplicates', f'{label}: iteration yields duplicates')
        if expect_names is not None and set(listed) != set(expect_names):
            extra = [Name.to_str(n) for n in set(listed) - set(expect_names)]
            missing = [Name.to_str(n) for n in set(expect_names) - set(listed)]
            self.viol(f'C15:{kind}-view-content', f'{label}: lists unexpected {extra}, lacks {missing}')
        for n in listed:
            try:
                present = Name.from_bytes(n) in v
                item = v[Name.from_bytes(n)]
            except Exception as e:
                self.viol(f'C15:{kind}-lookup-of-listed-item-fails', f'{label}: {Name.to_str(n)} is listed but lookup raised {type(e).__name__}: {e}')
                continue
            if not present:
                self.viol(f'C15:{kind}-membership-differs-from-iteration', f'{label}: {Name.to_str(n)} is listed but `in` is False')
            if nb(item.name) != n:
                self.viol(f'C15:{kind}-lookup-wrong-item', f'{label}: lookup of {Name.to_str(n)} returned {Name.to_str(item.name)}')
        for n in list(foreign) + [ghost]:
            if n in listed:
                continue
            is_foreign = n != ghost
            try:
                present = Name.from_bytes(n) in v
            except Exception as e:
                self.viol(f'C15:{kind}-membership-raises', f'{label}: `{Name.to_str(n)} in view` raised {type(e).__name__}: {e}')
                present = False
            try:
                item = v[Name.from_bytes(n)]
                found = True
            except KeyError:
                found = False
            except Exception as e:
                self.viol(f'C15:{kind}-lookup-raises', f'{label}: lookup of absent {Name.to_str(n)} raised {type(e).__name__}: {e}')
                found = False
            if present or found:
                key = f'C15:{kind}-getitem-not-owner-scoped' if is_foreign else f'C15:{kind}-lookup-of-absent-name-succeeds'
                self.viol(key, f'{label}: {Name.to_str(n)} belongs to {"another owner" if is_foreign else "nobody"} and is not listed, '
                               f'but `in` is {present} and lookup {"succeeds" if found else "fails"}')
        return listed

    def defaults(self, label, kind, names, flag_of, has_default, get_default, scope_m, populated):
        flags = []
        for n in names:
            try:
                if flag_of(n):
                    flags.append(n)
            except Exception:
                pass
        if len(flags) > 1:
            self.viol(f'C15:{kind}-more-than-one-default', f'{label}: {len(flags)} items are flagged default')
        try:
            has = has_default()
        except Exception as e:
            self.viol(f'C15:{kind}-has-default-raises', f'{label}: {type(e).__name__}: {e}')
            has = None
        try:
            d = nb(get_default().name)
        except KeyError:
            d = None
        except Exception as e:
            self.viol(f'C15:{kind}-default-raises', f'{label}: {type(e).__name__}: {e}')
            d = None
        if has is not None and has != (len(flags) >= 1):
            self.viol(f'C15:{kind}-has-default-disagrees', f'{label}: has_default is {has} but {len(flags)} item(s) are flagged')
        if (d is None) != (len(flags) == 0) or (d is not None and flags and d not in flags):
            self.viol(f'C15:{kind}-default-disagrees', f'{label}: default_*() gives {Name.to_str(d) if d else None}, flagged {[Name.to_str(f) for f in flags]}')
        if self.so or scope_m is None:
            return
        if populated and not scope_m.default_deleted and len(flags) == 0:
            self.viol(f'C15:{kind}-populated-scope-without-default', f'{label}: populated, its default was never deleted, yet nothing is default')
        if scope_m.default is not None and flags and flags[0] != scope_m.default:
            self.viol(f'C15:{kind}-default-is-not-the-one-set', f'{label}: default is {Name.to_str(flags[0])}, expected {Name.to_str(scope_m.default)}')
        if len(flags) == 1:                      # a default is (re-)established: remember it
            scope_m.default_deleted = False

    def run(self):
        w, m = self.w, self.m
        kc = w.kc
        all_keys = [(idm, k) for idm in m.ids.values() for k in idm.keys]
        id_names = [idm.name for idm in m.ids.values()]
        listed_ids = self.view('keychain', 'keychain', kc, None if self.so else id_names, [], nb(GHOST_ID), None)
        self.defaults('keychain', 'keychain', listed_ids, lambda n: kc[Name.from_bytes(n)].is_default,
                      kc.has_default_identity, kc.default_identity, None if self.so else m, bool(id_names))
        by_name = {idm.name: idm for idm in m.ids.values()}
        real_keys = {}
        for idn in listed_ids:
            idm = by_name.get(idn)
            try:
                iobj = kc[Name.from_bytes(idn)]
            except Exception:
                continue
            label = f'identity {Name.to_str(idn)}'
            foreign = [k.name for im, k in all_keys if im.name != idn]
            ghost = idn + b''  # placeholder, replaced below
            ghost = nb(Name.from_bytes(idn) + Name.from_str('/KEY/%00%00ghost'))
            exp = None if (self.so or idm is None) else [k.name for k in idm.keys]
            keys = self.view(label, 'identity', iobj, exp, foreign, ghost, None)
            self.defaults(label, 'identity', keys, lambda n: iobj[Name.from_bytes(n)].is_default,
                          iobj.has_default_key, iobj.default_key, None if self.so else idm, bool(keys))
            for kn in keys:
                try:
                    kobj = iobj[Name.from_bytes(kn)]
                except Exception:
                    continue
                real_keys[kn] = kobj
                km = next((k for k in (idm.keys if idm else []) if k.name == kn), None)
                klabel = f'key {Name.to_str(kn)}'
                if nb(kobj.identity) != idn:
                    self.viol('C15:key-reports-wrong-owner', f'{klabel}: says it belongs to {Name.to_str(kobj.identity)}')
                if km is not None and bytes(kobj.key_bits) != km.bits:
                    self.viol('C15:key-bits-changed', f'{klabel}: stored public key differs from the generated one')
                fcerts = [c.name for im, k in all_keys if k.name != kn for c in k.certs]
                cghost = nb(Name.from_bytes(kn) + Name.from_str('/ghost/v=1'))
                cexp = None if (self.so or km is None) else [c.name for c in km.certs]
                certs = self.view(klabel, 'key', kobj, cexp, fcerts, cghost, {'identity': Name.from_bytes(idn)})
                self.defaults(klabel, 'key', certs, lambda n: kobj[Name.from_bytes(n)].is_default,
                              kobj.has_default_cert, kobj.default_cert, None if self.so else km, bool(certs))
                for cn in certs:
                    try:
                        cobj = kobj[Name.from_bytes(cn)]
                    except Exception:
                        continue
                    cm = next((c for c in (km.certs if km else []) if c.name == cn), None)
                    if nb(cobj.key) != kn:
                        self.viol('C15:cert-reports-wrong-owner', f'certificate {Name.to_str(cn)} says its key is {Name.to_str(cobj.key)}')
                    if cm is not None and bytes(cobj.data) != cm.data:
                        self.viol('C15:cert-data-changed', f'certificate {Name.to_str(cn)}: stored data differs from the imported data')
        # cascade: private keys and rows
        if not self.so:
            for im, k in all_keys:
                if not w.tpm.key_exist(Name.from_bytes(k.name)):
                    self.viol('C15:private-key-missing-for-live-key', f'no private key stored for live key {Name.to_str(k.name)}')
            for kn, _ in m.dead_keys:
                if w.tpm.key_exist(Name.from_bytes(kn)):
                    self.viol('C15:private-key-survives-delete', f'private key of deleted key {Name.to_str(kn)} still stored')
            files = [f for f in os.listdir(w.tpm_dir) if f.endswith('.privkey')]
            if len(files) != len(all_keys):
                self.viol('C15:stray-private-key-file', f'{len(files)} private-key file(s) for {len(all_keys)} live key(s)')
        cur = w.real_conn.execute('SELECT (SELECT count(*) FROM keys WHERE identity_id NOT IN (SELECT id FROM identities)), '
                                  '(SELECT count(*) FROM certificates WHERE key_id NOT IN (SELECT id FROM keys))')
        ok_, oc_ = cur.fetchone()
        cur.close()
        if ok_ or oc_:
            self.viol('C15:orphan-rows', f'{ok_} key row(s) without identity, {oc_} certificate row(s) without key')
        if self.so:
            return self.v
        # default signer
        sel = select(m, {})
        self.signer({}, 'get_signer({})', sel, None)
        # deleted keys / certificates must not be signable
        for kn, cns in m.dead_keys[-2:]:
            self.signer({'key': Name.from_bytes(kn)}, f'get_signer(key=<deleted {Name.to_str(kn)}>)', 'deleted', None)
            for cn in cns[:1]:
                self.signer({'cert': Name.from_bytes(cn)}, f'get_signer(cert=<certificate of deleted key {Name.to_str(kn)}>)', 'deleted', None)
        return self.v

    def signer(self, args, label, sel, locator, fail_key=None, nosel_key=None):
        """post_signer: sel = (KeyM, cert name) | 'nothing' | 'deleted'"""
        kc = self.w.kc
        if sel == 'unknown':
            return None          # the statement does not say which item is default here; nothing to judge
        try:
            s = kc.get_signer(dict(args))
        except Exception as e:
            if isinstance(sel, tuple):
                self.viol(fail_key or 'C15:get-signer-fails-for-valid-selection',
                          f'{label} raised {type(e).__name__}: {e} @ {where(e)} although it selects key {Name.to_str(sel[0].name)}')
            elif not isinstance(e, (KeyError, ValueError)):
                self.viol('C15:get-signer-unexpected-exception', f'{label} raised {type(e).__name__}: {e} @ {where(e)}')
            return None
        if not isinstance(sel, tuple):
            k = nosel_key or ('C15:signer-for-deleted-key' if sel == 'deleted' else 'C15:signer-without-selection')
            self.viol(k, f'{label} returned a signer although {"the key/certificate was deleted" if sel == "deleted" else "no key + certificate can be selected"}')
            return s
        keym, cert = sel
        why = sign_and_check(s, keym, locator or cert)
        if why:
            self.viol(fail_key or 'C15:signer-wrong-key-or-locator', f'{label} (selects {Name.to_str(keym.name)}): {why}')
        return s


def select(m, args_kind):
    """the statement's resolution for the default arguments: default identity -> default key -> default certificate"""
    idm = next((i for i in m.ids.values() if m.default is not None and i.name == m.default), None)
    if idm is None:
        live = list(m.ids.values())
        if len(live) == 1 and not m.default_deleted:
            idm = live[0]
    if idm is None:
        return 'unknown'
    return select_identity(idm)


def select_identity(idm):
    km = next((k for k in idm.keys if idm.default is not None and k.name == idm.default), None)
    if km is None:
        if len(idm.keys) == 1 and not idm.default_deleted:
            km = idm.keys[0]
        else:
            return 'unknown' if idm.keys else 'nothing'
    return select_key(km)


def select_key(km):
    cn = km.default if km.default is not None and any(c.name == km.default for c in km.certs) else None
    if cn is None:
        if len(km.certs) == 1 and not km.default_deleted:
            cn = km.certs[0].name
        else:
            return 'unknown' if km.certs else 'nothing'
    return (km, cn)


# ---------------------------------------------------------------- operations
class Runner:
    def __init__(self, world):
        self.w = world
        self.m = Model()
        self.v = []
        self.locator_use = {}          # explicit key locator -> key names it was requested for

    # observation helpers (which item is default right now, as the store reports it)
    def real_default(self, scope_obj, names, getter):
        for n in names:
            try:
                if getter(n).is_default:
                    return n
            except Exception:
                pass
        return None

    def sync_defaults(self):
        """after an operation: adopt the store's defaults where the statement leaves the choice open"""
        m, kc = self.m, self.w.kc
        try:
            for idm in m.ids.values():
                iobj = kc[Name.from_bytes(idm.name)]
                if idm.default is None or not any(k.name == idm.default for k in idm.keys):
                    idm.default = self.real_default(iobj, [k.name for k in idm.keys], lambda n: iobj[Name.from_bytes(n)])
                for km in idm.keys:
                    kobj = iobj[Name.from_bytes(km.name)]
                    if km.default is None or not any(c.name == km.default for c in km.certs):
                        km.default = self.real_default(kobj, [c.name for c in km.certs], lambda n: kobj[Name.from_bytes(n)])
            if m.default is None or not any(i.name == m.default for i in m.ids.values()):
                m.default = self.real_default(kc, [i.name for i in m.ids.values()], lambda n: kc[Name.from_bytes(n)])
        except Exception:
            pass

    def audit(self, ctx, structural_only=False):
        a = Audit(self.w, self.m, ctx, structural_only)
        try:
            self.v.extend(a.run())
        except Exception as e:
            self.v.extend(a.v)
            self.v.append(('C15:audit-escape', f'{ctx}: audit stopped by {type(e).__name__}: {e} @ {where(e)}'))

    # -- resolving an abstract operation into a concrete call + model update
    def resolve(self, op):
        """returns (description, call, expect_exc, model_update) or None when the operation has no target in this state"""
        m, w = self.m, self.w
        parts = op.split(':')
        verb = parts[0]
        letter = parts[1] if len(parts) > 1 else None
        idm = m.ids.get(letter) if letter else None
        idname = Name.from_str(IDN[letter]) if letter in IDN else None

        def newest_key(pred=lambda k: True):
            ks = [k for k in (idm.keys if idm else []) if pred(k)]
            return ks[-1] if ks else None

        def default_key():
            return next((k for k in (idm.keys if idm else []) if k.name == idm.default), None) or newest_key()

        if verb == 'touch':
            def call():
                return w.kc.touch_identity(idname)

            def upd(ret):
                if letter not in m.ids:
                    m.ids[letter] = IdM(idname)
                    self.adopt_new_keys(m.ids[letter], expect=1, what=f'touch_identity({IDN[letter]})')
                if nb(ret.name) != nb(idname):
                    self.v.append(('C15:touch-identity-returns-wrong-identity', f'touch_identity({IDN[letter]}) returned {Name.to_str(ret.name)}'))
            return f'touch_identity({IDN[letter]})', call, None, upd
        if verb in ('newkey', 'idnewkey', 'newkey_rsa'):
            kind = 'rsa' if verb == 'newkey_rsa' else 'ec'
            if verb == 'idnewkey' and idm is None:
                return None

            def call():
                if verb == 'idnewkey':
                    return w.kc[idname].new_key('ec')
                if kind == 'rsa':
                    return w.kc.new_key(idname, 'rsa', key_size=1024)
                return w.kc.new_key(idname)

            def upd(ret):
                self.adopt_new_keys(idm, expect=1, what=f'new_key({IDN[letter]})', kind=kind, returned=ret)
            return f'{verb}({IDN[letter]})', call, (None if idm is not None else KeyError), upd
        if verb == 'newkey_id':
            # a key with a caller-chosen id (the same id every time: after a deletion the NAME comes back with a new key)
            if idm is not None and any(bytes(Name.from_bytes(k.name)[-1]) == b'\x08\x04KID1' for k in idm.keys):
                return None

            def upd(ret):
                self.adopt_new_keys(idm, expect=1, what=f'new_key({IDN[letter]}, key_id=KID1)', kind='ec', returned=ret)
            return (f'new_key({IDN[letter]}, key_id=KID1)', (lambda: w.kc.new_key(idname, key_id=b'\x08\x04KID1')),
                    (None if idm is not None else KeyError), upd)
        if verb == 'newkey_dup':
            # new_key with an explicit key id that names an EXISTING key: refused, and the existing key (its private key
            # included - the audit signs with every listed key) is left as it was
            km = default_key()
            if km is None:
                return None
            kid = bytes(Name.from_bytes(km.name)[-1])
            return (f'new_key({IDN[letter]}, key_id=<id of an existing key>)', (lambda: w.kc.new_key(idname, key_id=kid)),
                    Exception, lambda ret: None)
        if verb == 'import':
            km = newest_key()
            if km is None:
                return None
            m.n_issued += 1
            signer = w.tpm.get_signer(Name.from_bytes(km.name))
            cname, cdata = derive_cert(Name.from_bytes(km.name), f'issuer{m.n_issued}', km.bits, signer,
                                       datetime.now(timezone.utc).replace(tzinfo=None), 3600)
            cdata = bytes(cdata)

            def call():
                return w.kc.import_cert(Name.from_bytes(km.name), cname, cdata)

            def upd(ret):
                km.certs.append(CertM(cname, cdata))
            return f'import_cert({Name.to_str(cname)})', call, None, upd
        if verb == 'setdef_id':
            if idm is None:
                return None

            def upd(ret):
                m.default, m.default_deleted = idm.name, False
            return f'set_default_identity({IDN[letter]})', (lambda: w.kc.set_default_identity(idname)), None, upd
        if verb == 'setdef_key':
            km = newest_key(lambda k: k.name != idm.default) if idm else None
            if km is None:
                return None

            def upd(ret):
                idm.default, idm.default_deleted = km.name, False
            return (f'Identity({IDN[letter]}).set_default_key({Name.to_str(km.name)})',
                    (lambda: w.kc[idname].set_default_key(Name.from_bytes(km.name))), None, upd)
        if verb == 'setdef_cert':
            km = default_key()
            cm = next((c for c in reversed(km.certs) if c.name != km.default), None) if km else None
            if cm is None:
                return None

            def upd(ret):
                km.default, km.default_deleted = cm.name, False
            return (f'Key.set_default_cert({Name.to_str(cm.name)})',
                    (lambda: w.kc[idname][Name.from_bytes(km.name)].set_default_cert(Name.from_bytes(cm.name))), None, upd)
        if verb == 'setdef_stale':
            # set_default_* with a name that is not in the owner's scope (never stored): the scope keeps its default
            what = parts[2]
            if what == 'id':
                return ('set_default_identity(/never/stored)', (lambda: w.kc.set_default_identity(Name.from_str('/never/stored'))), None,
                        lambda ret: None)
            if idm is None:
                return None
            if what == 'key':
                return (f'Identity({IDN[letter]}).set_default_key(<never stored>)',
                        (lambda: w.kc[idname].set_default_key(idname + Name.from_str('/KEY/%DE%AD'))), None, lambda ret: None)
            km = default_key()
            if km is None:
                return None
            return ('Key.set_default_cert(<never stored>)',
                    (lambda: w.kc[idname][Name.from_bytes(km.name)].set_default_cert(
                        Name.from_bytes(km.name) + Name.from_str('/nobody/v=1'))), None, lambda ret: None)
        if verb == 'setdef_foreign':
            # set_default_* on ONE owner with a name that is stored - in ANOTHER owner's scope: neither scope changes its default
            what = parts[2]
            other = m.ids.get('b' if letter == 'a' else 'a')
            if idm is None or other is None:
                return None
            if what == 'key':
                okm = next((k for k in reversed(other.keys) if k.name != other.default), None)
                if okm is None:
                    return None
                return (f'Identity({IDN[letter]}).set_default_key({Name.to_str(okm.name)}: a key of the other identity)',
                        (lambda: w.kc[idname].set_default_key(Name.from_bytes(okm.name))), None, lambda ret: None)
            km = default_key()
            okm = next((k for k in other.keys if k.name == other.default), None)
            ocm = next((c for c in reversed(okm.certs) if c.name != okm.default), None) if okm else None
            if km is None or ocm is None:
                return None
            return (f'Key({Name.to_str(km.name)}).set_default_cert({Name.to_str(ocm.name)}: a certificate of another key)',
                    (lambda: w.kc[idname][Name.from_bytes(km.name)].set_default_cert(Name.from_bytes(ocm.name))), None, lambda ret: None)
        if verb in ('delcert', 'keydelcert'):
            which = parts[2] if len(parts) > 2 else 'default'
            km = default_key()
            if km is None or not km.certs:
                return None
            if which == 'default':
                cm = next((c for c in km.certs if c.name == km.default), None)
            else:
                cm = next((c for c in reversed(km.certs) if c.name != km.default), None)
            if cm is None:
                return None

            def call():
                if verb == 'keydelcert':
                    return w.kc[idname][Name.from_bytes(km.name)].del_cert(Name.from_bytes(cm.name))
                return w.kc.del_cert(Name.from_bytes(cm.name))

            def upd(ret):
                km.certs.remove(cm)
                m.dead_certs.append((cm.name, km.name))
                if km.default == cm.name:
                    km.default, km.default_deleted = None, True
            return f'{"Key." if verb == "keydelcert" else ""}del_cert({Name.to_str(cm.name)})', call, None, upd
        if verb in ('delkey', 'iddelkey'):
            which = parts[2] if len(parts) > 2 else 'default'
            if idm is None or not idm.keys:
                return None
            if which == 'default':
                km = next((k for k in idm.keys if k.name == idm.default), None)
            else:
                km = next((k for k in reversed(idm.keys) if k.name != idm.default), None)
            if km is None:
                return None

            def call():
                if verb == 'iddelkey':
                    return w.kc[idname].del_key(Name.from_bytes(km.name))
                return w.kc.del_key(Name.from_bytes(km.name))

            def upd(ret):
                idm.keys.remove(km)
                m.dead_keys.append((km.name, [c.name for c in km.certs]))
                if idm.default == km.name:
                    idm.default, idm.default_deleted = None, True
            return f'{"Identity." if verb == "iddelkey" else ""}del_key({Name.to_str(km.name)})', call, None, upd
        if verb == 'delid':
            if idm is None:
                return None

            def upd(ret):
                del m.ids[letter]
                for km in idm.keys:
                    m.dead_keys.append((km.name, [c.name for c in km.certs]))
                if m.default == idm.name:
                    m.default, m.default_deleted = None, True
            return f'del_identity({IDN[letter]})', (lambda: w.kc.del_identity(idname)), None, upd
        if verb == 'reopen':
            return 'close + reopen', (lambda: w.reopen()), None, (lambda ret: None)
        raise ValueError(op)

    def adopt_new_keys(self, idm, expect, what, kind='ec', returned=None):
        """after touch/new_key: the identity must list exactly `expect` new key(s), each with one self-signed certificate"""
        try:
            iobj = self.w.kc[Name.from_bytes(idm.name)]
            known = {k.name for k in idm.keys}
            new = [nb(n) for n in iobj if nb(n) not in known]
        except Exception as e:
            self.v.append(('C15:new-key-not-listed', f'{what}: cannot list keys: {type(e).__name__}: {e}'))
            return
        if len(new) != expect:
            self.v.append(('C15:new-key-not-listed', f'{what}: {len(new)} new key(s) listed, expected {expect}'))
        for kn in new:
            kobj = iobj[Name.from_bytes(kn)]
            km = KeyM(kn, kobj.key_bits, kind)
            for cn in kobj:
                km.certs.append(CertM(cn, kobj[cn].data))
            if len(km.certs) != 1:
                self.v.append(('C15:new-key-without-self-signed-cert', f'{what}: new key {Name.to_str(kn)} has {len(km.certs)} certificate(s)'))
            idm.keys.append(km)
            # a NAME that belonged to a deleted key is alive again (another key under the same name): it is no longer "deleted"
            self.m.dead_keys = [(n_, c_) for n_, c_ in self.m.dead_keys if n_ != kn]
            self.m.dead_certs = [(c_, k_) for c_, k_ in self.m.dead_certs if k_ != kn and c_ not in {x.name for x in km.certs}]
        if returned is not None and new and nb(returned.name) not in new:
            self.v.append(('C15:new-key-returns-wrong-key', f'{what}: returned {Name.to_str(returned.name)}'))

    # -- one plain step
    def step(self, op):
        try:
            if op.startswith('sign:'):
                self.sign(op)
                return True
            r = self.resolve(op)
        except Exception as e:
            # preparing the call needs items the model says are alive (a key object, the private key of a live key, ...)
            self.v.append(('C15:live-item-not-retrievable', f'{op}: fetching an item that must exist raised {type(e).__name__}: {e} @ {where(e)}'))
            self.resync()
            return True
        if r is None:
            return False
        desc, call, expect_exc, upd = r
        try:
            ret = call()
        except Exception as e:
            if expect_exc is not None and isinstance(e, expect_exc):
                self.audit(f'after {desc} (refused with {type(e).__name__})')
                return True
            if op.startswith('keydelcert') and isinstance(e, AttributeError):
                self.v.append(('C15:key-del-cert-attributeerror', f'{desc} raised AttributeError: {e} @ {where(e)}'))
            else:
                self.v.append((f'C15:{op.split(":")[0]}-raises:{type(e).__name__}', f'{desc} raised {type(e).__name__}: {e} @ {where(e)}'))
            self.audit(f'after failed {desc}', structural_only=True)
            self.resync()
            return True
        if expect_exc is not None:
            self.v.append((f'C15:{op.split(":")[0]}-accepts-missing-owner', f'{desc} succeeded although its owner does not exist'))
        upd(ret)
        self.sync_defaults()
        self.audit(f'after {desc}')
        return True

    def resync(self):
        """rebuild the model from the store after an unexpected failure so that later steps are judged on their own"""
        m, kc = self.m, self.w.kc
        try:
            live = {nb(n) for n in kc}
            for letter, idm in list(m.ids.items()):
                if idm.name not in live:
                    del m.ids[letter]
                    continue
                iobj = kc[Name.from_bytes(idm.name)]
                names = [nb(n) for n in iobj]
                idm.keys = [k for k in idm.keys if k.name in names]
                for km in idm.keys:
                    kobj = iobj[Name.from_bytes(km.name)]
                    cn = [nb(c) for c in kobj]
                    km.certs = [c for c in km.certs if c.name in cn]
            self.sync_defaults()
        except Exception:
            pass

    # -- get_signer with the different argument forms
    def sign(self, op):
        _, kind, *rest = op.split(':')
        letter = rest[0] if rest else 'a'
        m, w = self.m, self.w
        a = Audit(w, m, f'{op}')
        idm = m.ids.get(letter)
        idname = Name.from_str(IDN[letter])

        def key_of(idm_):
            return idm_.keys[-1] if idm_ and idm_.keys else None
        if kind == 'digest':
            s = w.kc.get_signer({'digest_sha256': True})
            if not isinstance(s, DigestSha256Signer):
                a.viol('C15:digest-signer', f'get_signer(digest_sha256) returned {type(s).__name__}')
        elif kind == 'nosig':
            if w.kc.get_signer({'no_signature': True}) is not None:
                a.viol('C15:no-signature-signer', 'get_signer(no_signature) did not return None')
        elif kind == 'default':
            a.signer({}, 'get_signer({})', select(m, {}), None)
        elif kind in ('id', 'idobj'):
            if idm is None:
                if kind == 'id':
                    a.signer({'identity': idname}, f'get_signer(identity={IDN[letter]})', 'nothing', None)
            else:
                arg = idname if kind == 'id' else w.kc[idname]
                nk = None
                if kind == 'idobj' and not arg:
                    # `if id_name:` inside get_signer takes an Identity without keys (len 0) for "no identity given"
                    nk = 'C15:get_signer-empty-identity-object-falls-back-to-default'
                a.signer({'identity': arg}, f'get_signer(identity={"<Identity with " + str(len(arg)) + " key(s)>" if kind == "idobj" else IDN[letter]})',
                         select_identity(idm), None, nosel_key=nk)
        elif kind in ('key', 'keyobj', 'keyloc'):
            km = key_of(idm)
            if km is not None:
                arg = Name.from_bytes(km.name) if kind != 'keyobj' else w.kc[idname][Name.from_bytes(km.name)]
                args = {'key': arg}
                loc = None
                if kind == 'keyloc':
                    args['key_locator'] = Name.from_str(LOCATOR + '/' + letter)
                    loc = nb(args['key_locator'])
                sel = select_key(km)
                fk = None
                if kind == 'keyobj' and not arg and list(arg):
                    # `if not key_name` inside get_signer takes a Key whose len() is 0 for "no key given"
                    fk = 'C15:get_signer-key-object-with-len-0-ignored'
                if kind == 'keyloc':
                    used = self.locator_use.setdefault(loc, set())
                    used.add(km.name)
                    if len(used) > 1:
                        fk = 'C15:signer-cache-keyed-by-locator-only'
                a.signer(args, f'get_signer(key={"<Key>" if kind == "keyobj" else Name.to_str(km.name)}'
                               f'{", key_locator [locator used for " + str(len(self.locator_use[loc])) + " key(s) so far]" if kind == "keyloc" else ""})',
                         sel, loc, fail_key=fk)
        elif kind == 'keyloc2':
            # two different keys, same explicit key locator, one after the other
            pool = [k for i in m.ids.values() for k in i.keys if select_key(k) != 'nothing' and isinstance(select_key(k), tuple)]
            if len(pool) >= 2:
                loc = Name.from_str(LOCATOR + '/shared')
                for km in (pool[0], pool[-1]):
                    self.locator_use.setdefault(nb(loc), set()).add(km.name)
                    a.signer({'key': Name.from_bytes(km.name), 'key_locator': loc},
                             f'get_signer(key={Name.to_str(km.name)}, key_locator={LOCATOR}/shared) [same locator used for {len(pool)} keys]',
                             select_key(km), nb(loc), fail_key='C15:signer-cache-keyed-by-locator-only')
        elif kind in ('cert', 'certobj', 'certname'):
            km = key_of(idm)
            if km is not None and km.certs:
                cm = km.certs[-1]
                kobj = w.kc[idname][Name.from_bytes(km.name)]
                if kind == 'cert':
                    arg = next(n for n in kobj if nb(n) == cm.name)       # the name as the view lists it
                    label = f'get_signer(cert={Name.to_str(cm.name)})'
                    fk = None
                else:
                    cobj = kobj[Name.from_bytes(cm.name)]
                    encoded = isinstance(cobj.name, (bytes, bytearray, memoryview))     # not a list of components
                    fk = 'C15:get_signer-cert-name-encoded' if encoded else None
                    if kind == 'certobj':
                        arg = cobj
                        label = f'get_signer(cert=<Certificate object from the key view; its .name is a {type(cobj.name).__name__}>)'
                    else:
                        arg = cobj.name
                        label = f'get_signer(cert=<Certificate>.name) [a {type(arg).__name__}]'
                a.signer({'cert': arg}, label, (km, cm.name), None, fail_key=fk)
        elif kind == 'deadcert':
            # (removed clause) An earlier version demanded that a deleted certificate of a LIVE key is refused as an explicit
            # 'cert' argument.  The statement only says "never one for a key that has been deleted"; for a live key the
            # signer still signs with the selected key, so this asked for more than the statement (false alarm, DESIGN 7b).
            for cn, kn in []:
                if any(k.name == kn for i in m.ids.values() for k in i.keys):
                    a.signer({'cert': Name.from_bytes(cn)}, f'get_signer(cert=<deleted certificate {Name.to_str(cn)} of a live key>)', 'deleted', None,
                             nosel_key='C15:signer-names-deleted-certificate')
        else:
            raise ValueError(op)
        self.v.extend(a.v)

    # -- the last operation with an injected storage failure
    def faulted(self, op, n, reopen):
        w, m = self.w, self.m
        try:
            r = self.resolve(op)
        except Exception as e:
            self.v.append(('C15:live-item-not-retrievable', f'{op}: fetching an item that must exist raised {type(e).__name__}: {e} @ {where(e)}'))
            return True
        if r is None:
            return False
        desc, call, expect_exc, upd = r
        if expect_exc is not None:
            return False
        w.plan, w.count, w.fired = n, 0, None
        failed = None
        ret = None
        try:
            ret = call()
        except Exception as e:
            failed = e
        finally:
            w.plan = None
        if w.fired is None:
            # the operation has fewer than n+1 storage steps: an ordinary run
            if failed is not None:
                self.v.append((f'C15:{op.split(":")[0]}-raises:{type(failed).__name__}', f'{desc} raised {type(failed).__name__}: {failed} @ {where(failed)}'))
                return True
            upd(ret)
            self.sync_defaults()
            self.audit(f'after {desc}')
            return True
        api = {'touch': 'touch_identity', 'newkey': 'new_key', 'idnewkey': 'new_key', 'import': 'import_cert', 'setdef_id': 'set_default_identity',
               'setdef_key': 'set_default_key', 'setdef_cert': 'set_default_cert', 'delcert': 'del_cert', 'delkey': 'del_key',
               'delid': 'del_identity'}.get(op.split(':')[0], op.split(':')[0])
        site = api
        ctx = f'{desc} with a storage failure at step {n} ({w.fired})'
        if failed is None:
            self.v.append((f'C15:fault-swallowed:{site}:{w.fired}', f'{ctx}: the failure was not reported to the caller'))
        self.audit(f'right after {ctx}', structural_only=True)
        if reopen:
            try:
                w.reopen()
            except Exception as e:
                self.v.append((f'C15:fault-recovery:{site}:reopen-raises-{type(e).__name__}', f'{ctx}: reopening raised {type(e).__name__}: {e}'))
                return True
        # repeat the operation (its targets were resolved against the model, which did not change: the same call)
        try:
            ret = call()
        except Exception as e:
            self.v.append((f'C15:fault-recovery:{site}:repeat-raises-{type(e).__name__}', f'{ctx}{" then close+reopen" if reopen else ""}: repeating the operation raised '
                                                         f'{type(e).__name__}: {e} @ {where(e)}'))
            self.audit(f'after the failed repeat of {desc}', structural_only=True)
            return True
        before = len(self.v)
        if op.startswith(('newkey', 'idnewkey', 'touch')):
            idm = m.ids.get(op.split(':')[1])
            if op.startswith('touch') and idm is None:
                m.ids[op.split(':')[1]] = idm = IdM(Name.from_str(IDN[op.split(':')[1]]))
                self.adopt_after_fault(idm, ctx, at_least=1)
            elif not op.startswith('touch'):
                self.adopt_after_fault(idm, ctx, at_least=1)
        else:
            upd(ret)
        self.sync_defaults()
        self.audit(f'after repeating {ctx}{" (after close+reopen)" if reopen else ""}')
        # what the store CONTAINS after the repeat (items, private keys, defaults, signers) is a consequence of the failed attempt;
        # defects in how a view answers (len / membership / owner scoping) are reported under their own keys
        def symptom(k):
            k = k[4:]
            if op.startswith('del') and k in ('private-key-survives-delete', 'signer-for-deleted-key', 'stray-private-key-file'):
                return 'private-key-survives-delete'
            return k
        self.v[before:] = [((f'C15:fault-recovery:{site}:{symptom(k)}', what) if _is_content_key(k) else (k, what))
                           for k, what in self.v[before:]]
        return True

    def adopt_after_fault(self, idm, ctx, at_least):
        """after fail + repeat of a key-creating operation: every listed new key must be complete (certificate + private key);
        a complete extra key from the failed attempt is tolerated, a half-created one is not"""
        w = self.w
        try:
            iobj = w.kc[Name.from_bytes(idm.name)]
            known = {k.name for k in idm.keys}
            new = [nb(n) for n in iobj if nb(n) not in known]
        except Exception as e:
            self.v.append(('C15:incomplete-after-repeat', f'{ctx}: cannot list keys after the repeat: {type(e).__name__}: {e}'))
            return
        if len(new) < at_least:
            self.v.append(('C15:incomplete-after-repeat', f'{ctx}: after repeating, the identity lists {len(new)} new key(s); expected at least {at_least}'))
        for kn in new:
            kobj = iobj[Name.from_bytes(kn)]
            km = KeyM(kn, kobj.key_bits, 'ec')
            for cn in kobj:
                km.certs.append(CertM(cn, kobj[cn].data))
            if not km.certs:
                self.v.append(('C15:incomplete-after-repeat', f'{ctx}: key {Name.to_str(kn)} from the failed attempt is listed without any certificate'))
            idm.keys.append(km)


CONTENT_KEYS = ('-view-content', 'stray-private-key-file', 'private-key-missing-for-live-key', 'private-key-survives-delete', 'orphan-rows',
                'incomplete-after-repeat', '-populated-scope-without-default', '-default-is-not-the-one-set', 'get-signer-fails-for-valid-selection',
                'signer-wrong-key-or-locator', 'signer-for-deleted-key', 'signer-without-selection', '-more-than-one-default',
                'key-bits-changed', 'cert-data-changed', '-lookup-of-listed-item-fails')


def _is_content_key(k):
    return any(k.endswith(sfx) or sfx in k for sfx in CONTENT_KEYS)


# ---------------------------------------------------------------- case execution
def run_case(case):
    base = _base()
    root = os.path.join(base, 'case')
    if os.path.exists(root):
        shutil.rmtree(root)
    w = World(root)
    r = Runner(w)
    try:
        ops = case['ops']
        fault = case.get('fault')
        for i, op in enumerate(ops):
            if fault is not None and i == len(ops) - 1:
                r.faulted(op, fault['step'], fault.get('reopen', False))
            else:
                r.step(op)
        return r.v
    finally:
        w.close()
        shutil.rmtree(root, ignore_errors=True)


# ---------------------------------------------------------------- cases
BASIC = ('touch:a', 'touch:b', 'newkey:a', 'newkey:b', 'idnewkey:a', 'import:a', 'import:b', 'setdef_id:a', 'setdef_id:b',
         'setdef_key:a', 'setdef_cert:a', 'delcert:a:default', 'delcert:a:other', 'keydelcert:a:other', 'delkey:a:default',
         'delkey:a:other', 'iddelkey:b:default', 'delid:a', 'delid:b', 'reopen',
         'setdef_stale:a:id', 'setdef_stale:a:key', 'setdef_stale:a:cert', 'newkey_dup:a', 'setdef_foreign:a:key',
         'setdef_foreign:a:cert')
SIGNS = ('sign:default', 'sign:id:a', 'sign:idobj:b', 'sign:key:a', 'sign:keyobj:a', 'sign:keyloc:a', 'sign:keyloc2', 'sign:cert:a',
         'sign:certobj:a', 'sign:certname:a', 'sign:deadcert', 'sign:digest', 'sign:nosig', 'sign:id:b', 'sign:key:b')
ALPHABET = BASIC + SIGNS
FAULTABLE = ('touch:a', 'touch:b', 'newkey:a', 'idnewkey:a', 'import:a', 'setdef_id:b', 'setdef_key:a', 'setdef_cert:a',
             'delcert:a:default', 'delkey:a:default', 'delkey:a:other', 'delid:a')
PREFIXES_FOR_FAULTS = ([], ['touch:a'], ['touch:a', 'newkey:a'], ['touch:a', 'touch:b'], ['touch:a', 'newkey:a', 'import:a'],
                       ['touch:b', 'touch:a', 'import:a'])
DIRECTED = (
    ['touch:a', 'newkey:a', 'touch:b', 'sign:keyloc2'],
    ['touch:a', 'touch:b', 'sign:keyloc2', 'sign:key:a', 'sign:key:b'],
    ['touch:a', 'newkey:a', 'import:a', 'setdef_cert:a', 'sign:key:a'],
    ['touch:a', 'newkey:a', 'setdef_key:a', 'sign:id:a', 'delkey:a:default', 'sign:id:a'],
    ['touch:a', 'import:a', 'delcert:a:default', 'sign:key:a', 'sign:deadcert'],
    ['touch:a', 'touch:b', 'delid:a', 'sign:default', 'touch:a', 'sign:default'],
    ['touch:a', 'newkey_rsa:a', 'sign:key:a', 'sign:cert:a', 'reopen', 'sign:key:a'],
    ['touch:a', 'newkey:a', 'newkey:a', 'delkey:a:other', 'delkey:a:default', 'newkey:a', 'sign:id:a'],
    ['touch:a', 'touch:b', 'setdef_id:b', 'reopen', 'sign:default', 'delid:b', 'sign:default'],
    ['touch:a', 'import:a', 'import:a', 'keydelcert:a:other', 'delcert:a:other', 'sign:cert:a'],
    ['newkey:a', 'touch:a', 'delid:a', 'newkey:a', 'touch:a'],
    ['touch:c', 'sign:cert:c', 'sign:certobj:c', 'sign:certname:c', 'sign:key:c', 'sign:id:c'],
    ['touch:a', 'touch:c', 'newkey:c', 'import:c', 'sign:cert:c', 'reopen', 'sign:certname:c', 'delkey:c:default', 'sign:id:c'],
    ['touch:c', 'touch:a', 'sign:default', 'setdef_id:a', 'sign:cert:c', 'delid:c', 'sign:default'],
    ['touch:a', 'newkey_id:a', 'setdef_key:a', 'sign:key:a', 'delkey:a:default', 'newkey_id:a', 'setdef_key:a', 'sign:key:a',
     'sign:cert:a', 'reopen', 'sign:key:a'],
    ['touch:a', 'newkey_id:a', 'delkey:a:other', 'newkey_id:a', 'setdef_key:a', 'sign:id:a', 'sign:keyobj:a'],
    # a signer is handed out (and cached), its key deleted and a key of the SAME name created again, the same request repeated:
    # the second signer must sign with the new private key (round 9, C15-seed14: cache validated by "the key exists")
    ['touch:a', 'newkey_id:a', 'setdef_key:a', 'sign:keyloc:a', 'delkey:a:default', 'newkey_id:a', 'setdef_key:a', 'sign:keyloc:a'],
    ['touch:a', 'newkey_id:a', 'setdef_key:a', 'sign:keyloc:a', 'delid:a', 'touch:a', 'newkey_id:a', 'setdef_key:a', 'sign:keyloc:a'],
    ['touch:a', 'newkey_id:a', 'setdef_key:a', 'sign:cert:a', 'sign:certname:a', 'delkey:a:default', 'newkey_id:a', 'setdef_key:a',
     'sign:cert:a', 'sign:certname:a', 'sign:keyloc:a'],
    ['touch:a', 'newkey_dup:a', 'sign:key:a', 'reopen', 'sign:key:a', 'sign:id:a'],
    ['touch:a', 'newkey:a', 'newkey_dup:a', 'reopen', 'sign:key:a', 'delkey:a:default', 'sign:id:a'],
    ['touch:a', 'touch:b', 'setdef_stale:a:id', 'sign:default', 'reopen', 'sign:default'],
    ['touch:a', 'newkey:a', 'setdef_stale:a:key', 'sign:id:a', 'reopen', 'sign:id:a'],
    ['touch:a', 'import:a', 'setdef_stale:a:cert', 'sign:key:a', 'reopen', 'sign:key:a'],
    ['touch:a', 'touch:b', 'newkey:b', 'setdef_foreign:a:key', 'sign:id:b', 'sign:id:a', 'reopen', 'sign:id:b'],
    ['touch:a', 'touch:b', 'import:b', 'setdef_foreign:a:cert', 'sign:key:b', 'sign:key:a', 'reopen', 'sign:key:b'],
    ['touch:b', 'newkey:b', 'touch:a', 'newkey:a', 'setdef_foreign:a:key', 'setdef_foreign:b:key', 'sign:id:a', 'sign:id:b'],
)


def cases(tier, rng):
    for ops in DIRECTED:
        yield {'ops': list(ops)}
    # every single operation after a small setup, then pairs
    setups = (['touch:a'], ['touch:a', 'touch:b', 'newkey:a', 'import:a'])
    for setup in setups:
        for op in ALPHABET:
            yield {'ops': setup + [op]}
    for op1 in BASIC:
        for op2 in ALPHABET:
            yield {'ops': ['touch:a', 'touch:b', 'newkey:a', 'import:a', op1, op2]} if tier != 'quick' or rng.random() < 0.45 else None
    # storage failure at every step of the last operation
    for prefix in PREFIXES_FOR_FAULTS:
        for op in FAULTABLE:
            for step in range(0, 14 if tier != 'quick' else 12):
                for reopen in (False, True):
                    if tier == 'quick' and reopen and step % 2 == 1:
                        continue
                    yield {'ops': list(prefix) + [op], 'fault': {'step': step, 'reopen': reopen}}
    # random histories
    n_random = 900 if tier == 'quick' else 120000
    max_len = 4 if tier == 'quick' else 5
    for _ in range(n_random):
        n = rng.randint(3, max_len)
        ops = ['touch:a'] if rng.random() < 0.7 else []
        ops += [rng.choice(ALPHABET) if rng.random() < 0.8 else rng.choice(BASIC) for _ in range(n)]
        yield {'ops': ops}
    n_rf = 300 if tier == 'quick' else 25000
    for _ in range(n_rf):
        ops = ['touch:a'] + [rng.choice(BASIC) for _ in range(rng.randint(1, max_len - 2))] + [rng.choice(FAULTABLE)]
        yield {'ops': ops, 'fault': {'step': rng.randrange(12), 'reopen': rng.random() < 0.4}}


def _cases(tier, rng):
    return (c for c in cases(tier, rng) if c is not None)


def run(tier='quick', seed=0, shard=(0, 1)):
    rng = random.Random(seed * 1000)
    try:
        return drive(MODULE, _cases(tier, rng), run_case, shard,
                     rule='histories over {touch_identity, new_key (EC; RSA-1024 in one directed case), Identity.new_key, import_cert of a freshly '
                          'issued certificate, set default identity/key/cert, del_cert / Key.del_cert / del_key / Identity.del_key / del_identity, '
                          'close+reopen, get_signer with 15 argument forms}: directed, all single operations and sampled pairs after a setup, random '
                          'histories; plus one storage failure at every step (<= 14) of the last operation for 12 operations x 6 prefixes, repeated '
                          'directly or after close+reopen; the whole store is audited after every operation; distinct by (ops, fault)',
                     bound=('histories of <= 4 operations after an optional setup of <= 4' if tier == 'quick' else 'histories of <= 5 operations after an optional setup')
                           + '; two identities; one injected failure per history; EC P-256 keys',
                     exhaustive=False)
    finally:
        _cleanup()


def replay(rec):
    try:
        return replay_with(run_case, rec)
    finally:
        _cleanup()
