"""C08 bounded stand-in: TLV models encode to exact, minimal TLV and decode back to equal values.

Reference side: a model is described by a ModelSpec (ordered FieldSpecs); `ref_tree` / `ref_encode` build the expected
wire with the independent codec of `_codec` (shortest var-numbers, smallest NonNegativeInteger width or the declared
fixed width, fields in declared order, absent values omitted).  Library side: the real TlvModel classes - either
generated here with type() / class statements from a ModelSpec, or the classes shipped with the library, whose
ModelSpec is read off their declarations (`spec_from_class`).

Contracts (all on real calls of encoded_length / encode / parse / __eq__):
  post_encode      bytes(m.encode()) == reference wire (=> well-formed elements, declared order, shortest T/L, smallest
                   integer width); a differing wire is diagnosed with the TLV walker to name the failed clause
  post_length      m.encoded_length() == len(m.encode()) (also when encoding into a caller's buffer at an offset:
                   bytes outside [offset, offset+length) untouched)
  post_roundtrip   M.parse(wire) == m under the library's __eq__ AND field by field against the reference value
  post_unknown     an unknown non-critical (even) element inserted at any position of any (nested) model is ignored;
                   an unknown critical (odd) one is rejected with DecodeError (ignored under ignore_critical=True)
  post_repeated    a duplicated critical single-valued element is rejected with DecodeError
  post_order       two adjacent fields swapped, the displaced one critical -> DecodeError
"""
import enum
import importlib
import random

from ._codec import Node, L, C, enc_var, nni, walk, Malformed, Collector, shard_of, h64

MODULE = 'bounded.c08'
TYPE_POOL = (1, 2, 3, 7, 252, 253, 254, 65535, 65536, 65537, 2 ** 32 - 2, 2 ** 32 - 1)
REQUIRED_TYPES = (1, 252, 253, 65535, 65536, 2 ** 32 - 1)
UINT_BOUNDS = (0, 1, 0xFF, 0x100, 0xFFFF, 0x10000, 0xFFFFFFFF, 0x100000000, (1 << 64) - 1)
SHIPPED_MODULES = ('ndn.app_support.nfd_mgmt', 'ndn.encoding.ndnlp_v2', 'ndn.app_support.light_versec.binary',
                   'ndn.app_support.svs.tlv', 'ndn.app_support.security_v2', 'ndn.encoding.ndn_format_0_3')
SHIPPED_SKIP = {'InterestPacketValue', 'InterestPacket', 'DataPacket', 'DataPacketValue'}   # need signer machinery (C01/C02)

_LIB = {}


def lib():
    if not _LIB:
        import ndn.encoding as enc
        import ndn.encoding.tlv_model as tm
        _LIB.update(enc=enc, tm=tm)
    return _LIB


# --------------------------------------------------------------------------------------------------------------------
# specs
# --------------------------------------------------------------------------------------------------------------------
class FS:
    """field spec. kind in uint bool bytes text name model repeated map skip"""

    def __init__(self, kind, t, name=None, fixed_len=None, sub=None, ic=False, elem=None, key=None, val=None,
                 choices=None, default=None):
        self.kind, self.t, self.name, self.fixed_len, self.sub, self.ic = kind, t, name, fixed_len, sub, ic
        self.elem, self.key, self.val, self.choices, self.default = elem, key, val, choices, default

    def first_type(self):
        return self.t


class MS:
    def __init__(self, name, fields, cls=None, src=None):
        self.name, self.fields, self.cls, self.src = name, fields, cls, src

    def types(self):
        s = set()
        for f in self.fields:
            if f.kind != 'skip':
                s.add(f.t)
                if f.kind == 'map':
                    s.add(f.val.t)
        return s

    def describe(self, depth=0):
        def fd(f):
            d = f'{f.kind}({f.t}'
            if f.fixed_len:
                d += f',fixed={f.fixed_len}'
            if f.kind == 'model':
                d += ',' + f.sub.describe(depth + 1) + (',ic' if f.ic else '')
            if f.kind == 'repeated':
                d += ',' + fd(f.elem)
            if f.kind == 'map':
                d += ',' + fd(f.key) + '=>' + fd(f.val)
            return d + ')'
        return self.name + '[' + ' '.join(f'{f.name}:{fd(f)}' for f in self.fields if f.kind != 'skip') + ']'


# --------------------------------------------------------------------------------------------------------------------
# reference encoder (builds a Node tree so that elements can be inserted / moved afterwards)
# --------------------------------------------------------------------------------------------------------------------
class Tree:
    def __init__(self):
        self.containers = []       # dicts: kids (list of Node), spec, ic, units [(FS, [nodes])], path
        self.map_keys = set()      # id(node) of map key elements


def name_body(v):
    """reference value of a name = list of (type, value) pairs"""
    return b''.join(enc_var(t) + enc_var(len(x)) + x for t, x in v)


def ref_field_nodes(f, v, tree, path):
    if v is None or f.kind == 'skip':
        return []
    k = f.kind
    if k == 'uint':
        return [L(f.t, nni(v, f.fixed_len or 0))]
    if k == 'bool':
        return [L(f.t, b'')] if v else []
    if k == 'bytes':
        return [L(f.t, bytes(v))]
    if k == 'text':
        return [L(f.t, v.encode('utf-8'))]
    if k == 'name':
        return [L(f.t, name_body(v))]
    if k == 'model':
        kids = ref_model_nodes(f.sub, v, tree, f.ic, path + '.' + str(f.name))
        return [Node(f.t, kids=kids)]
    if k == 'repeated':
        out = []
        for i, e in enumerate(v):
            out += ref_field_nodes(f.elem, e, tree, f'{path}.{f.name}[{i}]')
        return out
    if k == 'map':
        out = []
        for i, (kk, vv) in enumerate(v.items()):
            kn = ref_field_nodes(f.key, kk, tree, path)
            tree.map_keys.add(id(kn[0]))
            out += kn + ref_field_nodes(f.val, vv, tree, f'{path}.{f.name}[{i}]')
        return out
    raise AssertionError(k)


def ref_model_nodes(ms, val, tree, ic=False, path=''):
    kids, units = [], []
    for f in ms.fields:
        ns = ref_field_nodes(f, val.get(f.name), tree, path)
        if ns:
            units.append((f, ns))
        kids += ns
    tree.containers.append({'kids': kids, 'spec': ms, 'ic': ic, 'units': units, 'path': path or 'top'})
    return kids


def ref_tree(ms, val):
    tree = Tree()
    top = ref_model_nodes(ms, val, tree)
    return top, tree


def ser(nodes):
    return b''.join(n.ser() for n in nodes)


# --------------------------------------------------------------------------------------------------------------------
# library classes from specs, specs from library classes
# --------------------------------------------------------------------------------------------------------------------
def field_src(f, ns):
    """python source of the Field constructor; sub-model classes are put in namespace `ns`"""
    k = f.kind
    if k == 'uint':
        return f'UintField({f.t}' + (f', fixed_len={f.fixed_len}' if f.fixed_len else '') + ')'
    if k == 'bool':
        return f'BoolField({f.t})'
    if k == 'bytes':
        return f'BytesField({f.t})'
    if k == 'text':
        return f'BytesField({f.t}, is_string=True)'
    if k == 'name':
        return 'NameField()' if f.t == 7 else f'NameField(type_number={f.t})'
    if k == 'model':
        ns[f.sub.name] = f.sub.cls
        return f'ModelField({f.t}, {f.sub.name}' + (', ignore_critical=True' if f.ic else '') + ')'
    if k == 'repeated':
        return f'RepeatedField({field_src(f.elem, ns)})'
    if k == 'map':
        return f'MapField({field_src(f.key, ns)}, {field_src(f.val, ns)})'
    raise AssertionError(k)


def build_class(ms, how, base=None, own_before=(), own_after=(), override=None):
    """create the library class for ms.  With `base` (an MS whose class exists) the class derives from it and includes
    its fields with IncludeBase between own_before and own_after; `override` redefines one base field in place."""
    enc = lib()['enc']
    ns = {n: getattr(enc, n) for n in ('TlvModel', 'UintField', 'BoolField', 'BytesField', 'NameField', 'ModelField',
                                       'RepeatedField', 'MapField', 'IncludeBase')}
    lines = []
    if base is None:
        for f in ms.fields:
            lines.append((f.name, field_src(f, ns)))
        bases = 'TlvModel'
    else:
        ns[base.name] = base.cls
        bases = base.name
        for f in own_before:
            lines.append((f.name, field_src(f, ns)))
        lines.append(('_inc', f'IncludeBase({base.name})'))
        for f in own_after:
            lines.append((f.name, field_src(f, ns)))
        if override is not None:
            lines.append((override.name, field_src(override, ns)))
    if how == 'exec':
        src = f'class {ms.name}({bases}):\n' + ''.join(f'    {n} = {s}\n' for n, s in lines)
        exec(src, ns)
        ms.cls = ns[ms.name]
    else:
        attrs = {}
        for n, s in lines:
            attrs[n] = eval(s, ns)
        ms.cls = type(ms.name, (ns[bases],), attrs)
        src = f'type({ms.name!r}, ({bases},), ' + '{' + ', '.join(f'{n!r}: {s}' for n, s in lines) + '})'
    ms.src = src
    return ms.cls


def spec_from_field(fo, cache):
    tm = lib()['tm']
    if isinstance(fo, tm.UintField):
        ch = None
        if fo.val_base_type is not int:
            ch = sorted({int(m.value) for m in fo.val_base_type})
        return FS('uint', fo.type_num, fo.name, fixed_len=fo.fixed_len, choices=ch)
    if isinstance(fo, tm.BoolField):
        return FS('bool', fo.type_num, fo.name)
    if isinstance(fo, tm.NameField):
        return FS('name', fo.type_num, fo.name, default=fo.default)
    if isinstance(fo, tm.BytesField):
        return FS('text' if fo.is_string else 'bytes', fo.type_num, fo.name)
    if isinstance(fo, tm.ModelField):
        return FS('model', fo.type_num, fo.name, sub=spec_from_class(fo.model_type, cache), ic=fo.ignore_critical)
    if isinstance(fo, tm.RepeatedField):
        return FS('repeated', fo.type_num, fo.name, elem=spec_from_field(fo.element_type, cache))
    if isinstance(fo, tm.MapField):
        return FS('map', fo.type_num, fo.name, key=spec_from_field(fo.key_type, cache),
                  val=spec_from_field(fo.value_type, cache))
    return FS('skip', -1, fo.name)          # ProcedureArgument, OffsetMarker, SignatureValueField (needs a signer)


def spec_from_class(cls, cache):
    if cls in cache:
        return cache[cls]
    ms = MS(cls.__name__, [], cls=cls, src=f'{cls.__module__}.{cls.__name__}')
    cache[cls] = ms
    ms.fields = [spec_from_field(fo, cache) for fo in cls._encoded_fields]
    return ms


def shipped_specs():
    tm = lib()['tm']
    cache, out = {}, []
    for modname in SHIPPED_MODULES:
        mod = importlib.import_module(modname)
        for n in sorted(vars(mod)):
            o = getattr(mod, n)
            if isinstance(o, type) and issubclass(o, tm.TlvModel) and o.__module__ == modname and n not in SHIPPED_SKIP:
                out.append(spec_from_class(o, cache))
    return out


# --------------------------------------------------------------------------------------------------------------------
# values: reference value dict -> library instance; library instance -> reference value dict
# --------------------------------------------------------------------------------------------------------------------
def lib_name(v, form):
    comps = [enc_var(t) + enc_var(len(x)) + x for t, x in v]
    if form == 1:
        return [bytearray(c) for c in comps]
    if form == 2:
        return enc_var(7) + enc_var(len(b''.join(comps))) + b''.join(comps)          # encoded name
    return comps


def to_lib_value(f, v, form=0):
    if v is None:
        return None
    k = f.kind
    if k == 'name':
        return lib_name(v, form)
    if k == 'model':
        return instantiate(f.sub, v, form)
    if k == 'repeated':
        return [to_lib_value(f.elem, e, form) for e in v]
    if k == 'map':
        return {kk: to_lib_value(f.val, vv, form) for kk, vv in v.items()}
    if k == 'bytes' and form == 1:
        return bytearray(v)
    return v


def instantiate(ms, val, form=0):
    inst = ms.cls()
    for f in ms.fields:
        if f.kind == 'skip':
            continue
        if f.name in val:
            setattr(inst, f.name, to_lib_value(f, val[f.name], form))
        else:
            # clear constructor defaults (e.g. MetaInfo.content_type) so that "absent" means absent
            if f.kind not in ('repeated', 'map'):
                setattr(inst, f.name, None)
    return inst


def from_lib_value(f, x):
    k = f.kind
    if k == 'bool':
        return bool(x)
    if k == 'repeated':
        return [from_lib_value(f.elem, e) for e in (x or [])]
    if k == 'map':
        return {kk: from_lib_value(f.val, vv) for kk, vv in (x or {}).items()}
    if x is None:
        return None
    if k == 'uint':
        return int(x.value) if isinstance(x, enum.Enum) else x
    if k == 'bytes':
        return bytes(x)
    if k == 'text':
        return x
    if k == 'name':
        out = []
        if isinstance(x, str):                    # a declared default such as NameField("/")
            x = lib()['enc'].Name.from_str(x)
        for c in x:
            c = bytes(c)
            (t, _hs, vs, ve, _s), = list(walk(c, 0, len(c)))
            out.append((t, c[vs:ve]))
        return out
    if k == 'model':
        return extract(f.sub, x)
    raise AssertionError(k)


def extract(ms, inst):
    return {f.name: from_lib_value(f, getattr(inst, f.name)) for f in ms.fields if f.kind != 'skip'}


def norm_expected(ms, val):
    """what decoding must give for the reference value (absent bool == False, absent list/map == empty)"""
    out = {}
    for f in ms.fields:
        if f.kind == 'skip':
            continue
        out[f.name] = norm_field(f, val.get(f.name))
    return out


def norm_field(f, v):
    k = f.kind
    if k == 'bool':
        return bool(v)
    if k == 'repeated':
        return [norm_field(f.elem, e) for e in (v or [])]
    if k == 'map':
        return {kk: norm_field(f.val, vv) for kk, vv in (v or {}).items()}
    if v is None:
        if k == 'name' and f.default == '/':
            return []                             # documented: an absent field reads as its declared default
        return None
    if k == 'model':
        return norm_expected(f.sub, v)
    if k == 'name':
        return [(t, bytes(x)) for t, x in v]
    if k == 'bytes':
        return bytes(v)
    return v


# --------------------------------------------------------------------------------------------------------------------
# contracts
# --------------------------------------------------------------------------------------------------------------------
def has_custom_name_type(ms, seen=None):
    seen = seen or set()
    if id(ms) in seen:
        return False
    seen.add(id(ms))
    for f in ms.fields:
        for g in (f, f.elem, f.val):
            if g is None:
                continue
            if g.kind == 'name' and g.t != 7:
                return True
            if g.kind == 'model' and has_custom_name_type(g.sub, seen):
                return True
    return False


def kind_of_type(ms, t):
    for f in ms.fields:
        if f.kind != 'skip' and f.t == t:
            return f.kind if f.kind != 'repeated' else f'repeated-{f.elem.kind}'
        if f.kind == 'map' and f.val.t == t:
            return 'map-value'
    return 'unknown'


def diagnose(ms, got, ref):
    """name the clause that a differing encoding violates (top level walk of both wires)"""
    try:
        g = list(walk(got, 0, len(got)))
    except Malformed as e:
        return 'malformed', f'library wire is not a sequence of TLV elements ({e})'
    r = list(walk(ref, 0, len(ref)))
    for (t, hs, vs, ve, short) in g:
        if not short:
            return f'non-shortest-tl:{kind_of_type(ms, t)}', f'element type {t} at {hs} has a non-shortest Type/Length number'
    if [e[0] for e in g] != [e[0] for e in r]:
        return 'field-order', f'element types {[e[0] for e in g][:12]} but declared order gives {[e[0] for e in r][:12]}'
    for (t, hs, vs, ve, _s), (_t, _hs, rvs, rve, _rs) in zip(g, r):
        if got[vs:ve] != ref[rvs:rve]:
            kind = kind_of_type(ms, t)
            if kind == 'uint' and ve - vs != rve - rvs:
                return 'uint-width', f'integer element type {t} has width {ve - vs}, smallest legal / declared width is {rve - rvs}'
            return f'value:{kind}', f'element type {t}: value {got[vs:ve].hex()[:40]} expected {ref[rvs:rve].hex()[:40]}'
    return 'differs', 'wires differ'


def _exc(e):
    return f'{type(e).__name__}: {e}'[:160]


def check_model_value(ms, val, variant=0):
    """post_encode, post_length, post_roundtrip for one (model, value). -> (found, ref_wire or None, top nodes, tree)"""
    found = []
    DecodeError = lib()['enc'].DecodeError
    top, tree = ref_tree(ms, val)
    ref = ser(top)
    namebug = has_custom_name_type(ms)
    tag = 'C08:namefield-type-number-ignored' if namebug else None
    try:
        inst = instantiate(ms, val, form=variant % 3)
        announced = inst.encoded_length()
        wire = bytes(inst.encode())
    except Exception as e:
        return [(tag or 'C08:encode-raises', f'encoding a legal value raised {_exc(e)}')], None, top, tree
    if announced != len(wire):
        found.append((tag or 'C08:length-announced', f'encoded_length()={announced} but len(encode())={len(wire)}'))
    if wire != ref:
        why, txt = diagnose(ms, wire, ref)
        if namebug:
            found.append((tag, f'model contains NameField(type_number=T != 7), which is written with Type 7: {txt}'))
        else:
            found.append((f'C08:encode-{why}', txt))
        return found, None, top, tree
    # encode into the caller's buffer at an offset
    buf = bytearray(b'\xAA' * (len(ref) + 7))
    try:
        inst2 = instantiate(ms, val, form=(variant + 1) % 3)
        out = inst2.encode(buf, 3)
        if bytes(buf) != b'\xAA' * 3 + ref + b'\xAA' * 4 or out is not buf:
            found.append(('C08:encode-into-buffer', f'encode(buf, 3) wrote {bytes(buf).hex()[:60]}'))
    except Exception as e:
        found.append(('C08:encode-into-buffer', f'encode(buf, 3) raised {_exc(e)}'))
    # decode back
    src = (ref, bytearray(ref), memoryview(ref))[variant % 3]
    try:
        back = ms.cls.parse(src)
    except Exception as e:
        found.append(('C08:roundtrip-parse-raises', f'parse(encode(m)) raised {_exc(e)}'))
        return found, ref, top, tree
    try:
        got = extract(ms, back)
    except Exception as e:
        found.append(('C08:roundtrip-field-access', f'reading the decoded fields raised {_exc(e)}'))
        return found, ref, top, tree
    exp = norm_expected(ms, val)
    if got != exp:
        bad = [k for k in exp if got.get(k) != exp[k]]
        f0 = next(f for f in ms.fields if f.name == bad[0])
        found.append((f'C08:roundtrip-value:{f0.kind}', f'field {bad[0]} decoded as {got.get(bad[0])!r:.80}, encoded from {exp[bad[0]]!r:.80}'))
    elif variant % 3 == 0 and canonical_assignment(ms, val):
        try:
            if not (back == inst) or not (inst == back):
                found.append(('C08:roundtrip-eq', 'parse(encode(m)) == m is False although every field value is equal'))
        except Exception as e:
            found.append(('C08:roundtrip-eq', f'__eq__ raised {_exc(e)}'))
    return found, ref, top, tree


def _safe_walk(w):
    try:
        return list(walk(w, 0, len(w)))
    except Malformed:
        return []


def canonical_assignment(ms, val):
    """True when the assigned python values are already in the form that decoding returns (no False, no empty-vs-absent)"""
    for f in ms.fields:
        v = val.get(f.name)
        if f.kind == 'bool' and v is False:
            return False
        if v is None and f.default is not None:
            return False                          # absent field with a declared default reads back as the default
        if f.kind == 'model' and v is not None and not canonical_assignment(f.sub, v):
            return False
        if f.kind == 'repeated' and f.elem.kind == 'model' and any(not canonical_assignment(f.elem.sub, e) for e in v or []):
            return False
        if f.kind == 'map' and f.val.kind == 'model' and any(not canonical_assignment(f.val.sub, e) for e in (v or {}).values()):
            return False
    return True


def pick_unknown(types, odd):
    for t in ((0xF1, 0x7F, 0xFFF1, 0x10001, 0x9) if odd else (0xF0, 0x7E, 0xFFF0, 0x10000 + 2, 0x8)):
        if t not in types:
            return t
    raise AssertionError


def check_insertions(ms, val, top, tree, budget=10 ** 9, rng=None, col=None):
    """post_unknown / post_repeated / post_order on the reference wire of (ms, val). -> (found, n_cases)"""
    DecodeError = lib()['enc'].DecodeError
    found, ncases = [], 0
    exp = norm_expected(ms, val)

    desc = ms.describe()

    def outcome(wire):
        if col is not None:
            col.case(True, 'edit', desc, wire)
        try:
            back = ms.cls.parse(wire)
            return ('ok', extract(ms, back))
        except DecodeError:
            return ('DecodeError', None)
        except Exception as e:
            return ('exc', _exc(e))

    jobs = []
    for c in tree.containers:
        kids = c['kids']
        types = c['spec'].types()
        for j in range(len(kids) + 1):
            for odd in (False, True):
                jobs.append(('ins', c, j, odd, types))
        # duplicated critical single-valued element
        for f, ns in c['units']:
            if f.kind in ('uint', 'bool', 'bytes', 'text', 'name', 'model') and (f.t & 1):
                jobs.append(('dup', c, f, ns[0], None))
        # adjacent fields swapped
        for (fa, na), (fb, nb) in zip(c['units'], c['units'][1:]):
            jobs.append(('swap', c, (fa, na), (fb, nb), None))
    if len(jobs) > budget:
        jobs = rng.sample(jobs, budget)
    for job in jobs:
        kind, c = job[0], job[1]
        kids = c['kids']
        ncases += 1
        if kind == 'ins':
            _k, _c, j, odd, types = job
            t = pick_unknown(types, odd)
            between = j > 0 and id(kids[j - 1]) in tree.map_keys
            kids.insert(j, L(t, b'\x01\x02' if j % 2 else b''))
            w = ser(top)
            del kids[j]
            out = outcome(w)
            where = f'unknown type {t} at position {j} of {c["path"]}'
            if between:
                good = out == ('ok', exp) if not odd else (out[0] == 'DecodeError' and not c['ic'])
                if not good:
                    found.append(('C08:map-unknown-element-between-key-and-value',
                                  f'{where} (between a map key and its value) -> {out!r:.120}', w))
            elif not odd or c['ic']:
                if out != ('ok', exp):
                    key = 'C08:unknown-noncritical-not-ignored' if not odd else 'C08:ignore_critical-not-honoured'
                    found.append((key, f'{where} -> {out!r:.120}', w))
            else:
                if out[0] != 'DecodeError':
                    found.append(('C08:unknown-critical-not-rejected', f'{where} -> {out!r:.120}', w))
        elif kind == 'dup':
            _k, _c, f, node, _ = job
            i = next(i for i, x in enumerate(kids) if x is node)
            kids.insert(i + 1, node)
            w = ser(top)
            del kids[i + 1]
            out = outcome(w)
            if c['ic']:
                if out != ('ok', exp):
                    found.append(('C08:ignore_critical-not-honoured', f'repeated field {f.name} in {c["path"]} -> {out!r:.120}', w))
            elif out[0] != 'DecodeError':
                found.append(('C08:repeated-critical-not-rejected',
                              f'critical field {f.name} (type {f.t}, {f.kind}) twice in {c["path"]} -> {out!r:.120}', w))
        else:
            _k, _c, (fa, na), (fb, nb), _ = job
            ta = {n.t for n in na}
            if ta & {n.t for n in nb}:
                continue
            crit = any(n.t & 1 for n in na)
            if not crit or c['ic']:
                continue
            i = next(i for i, x in enumerate(kids) if x is na[0])
            seg = kids[i:i + len(na) + len(nb)]
            kids[i:i + len(na) + len(nb)] = nb + na
            w = ser(top)
            kids[i:i + len(na) + len(nb)] = seg
            out = outcome(w)
            if out[0] != 'DecodeError':
                found.append(('C08:out-of-order-critical-not-rejected',
                              f'field {fa.name} (type {fa.t}) moved after {fb.name} in {c["path"]} -> {out!r:.120}', w))
    return found, ncases


# --------------------------------------------------------------------------------------------------------------------
# value generators
# --------------------------------------------------------------------------------------------------------------------
TEXTS = ('', 'a', 'é', 'ascii text', 'Σπυρίδων', '名前', '\U0001F600\x00', 'é' * 126, 'é' * 126 + 'a', 'x' * 253)
BIG_LENGTHS = (65535, 65536)


def uint_values(f):
    if f.choices is not None:
        return list(f.choices)
    lim = 1 << (8 * f.fixed_len) if f.fixed_len else 1 << 64
    return [v for v in UINT_BOUNDS if v < lim] + ([lim - 1] if lim - 1 not in UINT_BOUNDS else [])


def name_values():
    return [[], [(8, b'a')], [(8, b'a'), (8, b''), (32, b'kw'), (50, b'\x00'), (65535, b'\xff' * 3), (1, bytes(32)), (8, b'b'),
                               (8, b'c')],
            [(8, b'x' * 250)], [(8, b'x' * 251)], [(8, b'y' * 253)], [(253, b'')]]


def boundary_values(f, big=True, depth=0):
    """list of legal boundary values for one field (None = absent is added by the callers)"""
    k = f.kind
    if k == 'uint':
        return uint_values(f)
    if k == 'bool':
        return [True]
    if k == 'bytes':
        return [b'', b'\x00', bytes(range(252)), bytes(253), b'\xff' * 254] + ([bytes(n) for n in BIG_LENGTHS] if big else [])
    if k == 'text':
        return list(TEXTS) + (['z' * n for n in BIG_LENGTHS] + ['é' * 32768] if big else [])
    if k == 'name':
        return name_values()
    if k == 'model':
        return [baseline(f.sub, depth + 1), {}]
    if k == 'repeated':
        ev = boundary_values(f.elem, False, depth + 1)
        return [[], [ev[0]], ev[:3] + ev[-1:]]
    if k == 'map':
        kv = ['', 'k', 'clé'] if f.key.kind == 'text' else uint_values(f.key)[:3]
        vv = boundary_values(f.val, False, depth + 1)
        return [{}, {kv[0]: vv[0]}, {kk: vv[i % len(vv)] for i, kk in enumerate(kv)}]
    return []


def baseline(ms, depth=0):
    val = {}
    for f in ms.fields:
        if f.kind == 'skip':
            continue
        bv = boundary_values(f, False, depth)
        if not bv:
            continue
        if f.kind in ('repeated', 'map'):
            val[f.name] = bv[-1]
        elif f.kind == 'model':
            val[f.name] = bv[0]
        elif f.kind == 'uint':
            val[f.name] = bv[min(1, len(bv) - 1)]
        else:
            val[f.name] = bv[1] if len(bv) > 1 else bv[0]
    return val


def shipped_cases(ms):
    """yield (label, value) : baseline, empty, and every field at every boundary value (others at baseline)"""
    base = baseline(ms)
    yield 'baseline', base
    yield 'empty', {}
    for f in ms.fields:
        if f.kind == 'skip':
            continue
        for i, v in enumerate(boundary_values(f, True)):
            val = dict(base)
            val[f.name] = v
            yield f'{f.name}#{i}', val
        val = dict(base)
        val.pop(f.name, None)
        yield f'{f.name}#absent', val
        yield f'{f.name}#only', ({f.name: base[f.name]} if f.name in base else {})


# ---- generated models -------------------------------------------------------------------------------------------
def gen_field(rng, t, depth, counter, how, free_types, in_container=None):
    kinds = ['uint', 'uint', 'bool', 'bytes', 'text', 'name', 'repeated', 'map']
    if depth < 3:
        kinds += ['model', 'model']
    if in_container == 'repeated':
        kinds = ['uint', 'bytes', 'text', 'name'] + (['model'] if depth < 3 else [])
    if in_container == 'map':
        kinds = ['uint', 'bytes', 'text'] + (['model'] if depth < 3 else [])
    k = rng.choice(kinds)
    if k == 'name' and t != 7 and rng.random() < 0.9:
        k = rng.choice(('uint', 'bytes', 'text'))       # NameField with a custom type number: rare (known to misbehave)
    if k == 'uint':
        return FS('uint', t, fixed_len=rng.choice((None, None, 1, 2, 4, 8)))
    if k in ('bool', 'bytes', 'text', 'name'):
        return FS(k, t)
    if k == 'model':
        return FS('model', t, sub=gen_model(rng, depth + 1, counter, how), ic=rng.random() < 0.15)
    if k == 'repeated':
        return FS('repeated', t, elem=gen_field(rng, t, depth, counter, how, free_types, 'repeated'))
    if not free_types:
        return FS('bytes', t)
    vt = free_types.pop(rng.randrange(len(free_types)))
    key = FS('text', t) if rng.random() < 0.5 else FS('uint', t, fixed_len=rng.choice((None, 2)))
    return FS('map', t, key=key, val=gen_field(rng, vt, depth, counter, how, [], 'map'))


def gen_model(rng, depth, counter, how):
    counter[0] += 1
    name = f'G{counter[0]}'
    nf = rng.randint(1, 5) if depth else rng.randint(2, 6)
    pool = list(TYPE_POOL)
    if rng.random() < 0.5:
        types = sorted(rng.sample(REQUIRED_TYPES, min(nf, len(REQUIRED_TYPES))))
    else:
        types = sorted(rng.sample(pool, nf))
    free = [t for t in pool if t not in types and t != 7]
    fields = []
    for i, t in enumerate(types):
        f = gen_field(rng, t, depth, counter, how, free)
        f.name = f'f{i}'
        fields.append(f)
    for f in fields:
        for g in (f.elem, f.key, f.val):
            if g is not None:
                g.name = f.name
    ms = MS(name, fields)
    style = rng.random()
    if style < 0.25 and len(fields) >= 3:
        # inheritance: a base with the middle fields, derived adds fields before / after through IncludeBase
        a = rng.randint(0, len(fields) - 2)
        b = rng.randint(a + 1, len(fields))
        base = MS(name + 'B', fields[a:b])
        build_class(base, how)
        override = None
        if rng.random() < 0.4:
            victim = rng.choice(base.fields)
            if victim.kind in ('uint', 'bytes', 'text', 'bool'):
                nk = rng.choice([x for x in ('uint', 'bytes', 'text') if x != victim.kind])
                override = FS(nk, victim.t, victim.name)
                ms.fields = [override if f is victim else f for f in fields]
        build_class(ms, how, base=base, own_before=fields[:a], own_after=fields[b:], override=override)
        ms.src = (base.src or '') + ' ;; ' + (ms.src or '')
    else:
        build_class(ms, how)
    return ms


def gen_value(rng, ms, depth=0, big=0.02):
    val = {}
    for f in ms.fields:
        if f.kind == 'skip' or rng.random() < 0.2:
            continue
        val[f.name] = gen_field_value(rng, f, depth, big)
    return val


def gen_field_value(rng, f, depth, big):
    k = f.kind
    if k == 'model':
        return gen_value(rng, f.sub, depth + 1, big)
    if k == 'repeated':
        return [gen_field_value(rng, f.elem, depth + 1, 0) for _ in range(rng.choice((0, 1, 2, 3)))]
    if k == 'map':
        n = rng.choice((0, 1, 2, 3))
        keys = rng.sample(['', 'k', 'clé', 'κ', 'key3'], n) if f.key.kind == 'text' else rng.sample(uint_values(f.key), min(n, 3))
        return {kk: gen_field_value(rng, f.val, depth + 1, 0) for kk in keys}
    if k == 'bool':
        return rng.choice((True, True, None, False))
    bv = boundary_values(f, rng.random() < big)
    if k == 'bytes' and rng.random() < 0.3:
        return rng.randbytes(rng.choice((1, 2, 5, 40)))
    if k == 'uint' and rng.random() < 0.3 and f.choices is None:
        lim = 1 << (8 * f.fixed_len) if f.fixed_len else 1 << 64
        return rng.randrange(lim)
    return rng.choice(bv)


# --------------------------------------------------------------------------------------------------------------------
# driver
# --------------------------------------------------------------------------------------------------------------------
RULE = ('cases = (model class, value assignment) and (model class, value, edited wire); generated classes: random field kinds '
        '(UintField incl. fixed_len, BoolField, BytesField bytes/text, NameField, ModelField nesting <= 3 incl. ignore_critical, '
        'RepeatedField, MapField, IncludeBase inheritance with in-place override), built alternately with type() and with '
        'exec of a class statement, type numbers distinct and increasing from {1,2,3,7,252,253,254,65535,65536,65537,2^32-2,2^32-1}; '
        'shipped classes: every TlvModel of nfd_mgmt, ndnlp_v2, light_versec.binary, svs.tlv, security_v2 and the '
        'format-0.3 sub-models, specs read off the declarations; non-trivial = the value encodes to at least one element; '
        'distinct by hash of (class description, reference wire [, edit])')


def run(tier='quick', seed=0, shard=(0, 1)):
    k, n = shard
    col = Collector(MODULE)
    rng = random.Random(seed * 1000 + k)
    cap = max(1, 5 // n)
    best = {}

    def report(found, ms, val_label, extra=None):
        for item in found:
            key, what = item[0], item[1]
            inp = {'model': ms.src, 'describe': ms.describe()[:300], 'value': val_label}
            if len(item) > 2:
                inp['wire_hex'] = item[2].hex() if len(item[2]) < 400 else item[2][:400].hex() + '...'
            if extra:
                inp.update(extra)
            lst = best.setdefault(key, [])
            size = len(repr(inp))
            if len(lst) < cap or size < lst[-1][0]:
                lst.append((size, {'key': key, 'what': f'{what} [model {ms.describe()[:160]}]', 'input': inp}))
                lst.sort(key=lambda r: r[0])
                del lst[cap:]

    idx = 0
    # (b) shipped classes, boundary values, insertion at every position for baseline and a few more
    specs = shipped_specs()
    for ms in specs:
        for label, val in shipped_cases(ms):
            if shard_of(idx, shard):
                found, ref, top, tree = check_model_value(ms, val, variant=idx // max(1, n))
                report(found, ms, label, {'shipped': ms.name, 'case': label})
                col.case(bool(top), 'val', ms.describe(), ser(top) if len(top) < 50 else repr(val)[:4000])
                if ref is not None and len(ref) < 3000 and (label == 'baseline' or label.endswith('#only')):
                    f2, nc = check_insertions(ms, val, top, tree, budget=(400 if tier == 'quick' else 10 ** 9), rng=rng, col=col)
                    report(f2, ms, label, {'shipped': ms.name, 'case': label})
            idx += 1
    # (a) generated classes
    n_models = 8000 if tier == 'quick' else 160000
    n_values = 6
    counter = [0]
    for j in range(k, n_models, n):
        mrng = random.Random(seed * 7919 + j)
        counter[0] = j * 1000
        how = 'exec' if j % 2 else 'type'
        try:
            ms = gen_model(mrng, 0, counter, how)
        except Exception as e:
            col.violate('C08:class-definition-raises', f'defining a generated model raised {_exc(e)}', {'gen_index': j, 'seed': seed})
            continue
        for i in range(n_values):
            val = gen_value(mrng, ms, big=0.03)
            found, ref, top, tree = check_model_value(ms, val, variant=i)
            extra = {'gen_index': j, 'value_index': i, 'seed': seed}
            report(found, ms, repr(val)[:300], extra)
            col.case(bool(top), 'gen', ms.describe(), ser(top) if len(ser(top)) < 5000 else repr(val)[:2000])
            if j < 3 * n and i == 0:
                col.sample({'model': ms.describe()[:200], 'wire_hex': ser(top).hex()[:100]})
            if ref is not None and len(ref) < 2000 and i < 2:
                f2, nc = check_insertions(ms, val, top, tree, budget=(150 if tier == 'quick' else 600),
                                            rng=random.Random(j * 31 + i), col=col)
                report(f2, ms, repr(val)[:300], extra)
    for key in sorted(best):
        for _s, rec in best[key]:
            col.violate(rec['key'], rec['what'], rec['input'])
    bound = (f'{len(specs)} shipped model classes x (baseline, empty, each field at each boundary value / absent / alone; integers '
             f'0,1,255,256,65535,65536,2^32-1,2^32,2^64-1 and enum members, strings of 0/1/252/253/254/65535/65536 bytes, non-ASCII text, '
             f'names up to 8 components) with unknown-element insertion at every position of every nested model for the baseline and '
             f'the single-field values of each class; {n_models} generated classes (nesting <= 3, <= 6 fields) x {n_values} random boundary-biased values, '
             f'insertion / duplication / swap edits on 2 values per class (sampled to a budget per value in quick)')
    return col.result(RULE, bound, exhaustive=False)


def replay(rec):
    inp = rec['input']
    if 'shipped' in inp:
        for ms in shipped_specs():
            if ms.name == inp['shipped']:
                for label, val in shipped_cases(ms):
                    if label == inp['case']:
                        found, ref, top, tree = check_model_value(ms, val, 0)
                        if ref is not None:
                            found += [x[:2] for x in check_insertions(ms, val, top, tree)[0]]
                        mine = [w for kk, w, *_ in found if kk == rec['key']]
                        return (False, mine[0]) if mine else (True, 'contract holds for this input')
        return True, 'case not found'
    if 'gen_index' in inp:
        j, seed = inp['gen_index'], inp.get('seed', 0)
        mrng = random.Random(seed * 7919 + j)
        ms = gen_model(mrng, 0, [j * 1000], 'exec' if j % 2 else 'type')
        allf = []
        for i in range(6):
            val = gen_value(mrng, ms, big=0.03)
            found, ref, top, tree = check_model_value(ms, val, variant=i)
            allf += [x[:2] for x in found]
            if ref is not None and len(ref) < 2000 and i < 2:
                allf += [x[:2] for x in check_insertions(ms, val, top, tree)[0]]
        mine = [w for kk, w in allf if kk == rec['key']]
        return (False, mine[0]) if mine else (True, 'contract holds for this input')
    return True, 'nothing to replay'
