"""C06 - receive path: exact stream framing, and no failure on any delivered bytes.

Contracts (from the property statement):

  post_framing   StreamFace.run fed through a real asyncio.StreamReader, the concatenation of packets P1..Pk cut into
                 arbitrary chunks: the callback received exactly [(type(Pi), Pi)] for the packets that are COMPLETE in the
                 stream, each once, in order - already before EOF is signalled; after EOF (clean or mid-packet) nothing
                 else is delivered (no partial packet), run() returns and the face is shut down (running == False).
  post_datagram  UdpFace's PacketHandler.datagram_received(bytes): returns normally for every byte string; a complete
                 packet is handed to the callback exactly once as (type, bytes).
  post_receive   `await app._receive(type-as-a-transport-computes-it, bytes)` for ANY bytes, both front-ends, in a state
                 without and with pending Interests / attached handlers:
                   (1) returns normally (no exception escapes),
                   (2) after draining, no task ended with an exception and the loop exception handler stayed silent,
                   (3) the face was not shut down,
                   (4) an unrelated pending Interest is still pending and completes with its Data afterwards,
                   (5) an unrelated attached handler still receives its next Interest exactly once.
"""
import asyncio
import random

from ndn import types as ndn_types
from ndn.transport.stream_face import StreamFace
from ndn.transport.udp_face import UdpFace

from . import _recv as R

MODULE = 'bounded.c06'
RULE = ('framing case = (sequence of 1-3 packets from a 10-packet menu with 1/3/5/9-byte Type and 1/3/5-byte Length '
        'numbers, cut positions, optional truncation point); receive case = (front-end v1/v2, state empty/busy, '
        'buffer kind, delivered bytes) with bytes = a corpus packet (20 kinds) or one mutation of it (single-byte '
        'substitution, truncation with/without consistent outer length, length-field edit at any nesting depth, '
        'element removal/duplication/reversal/insertion, concatenation) or a random string; datagram case = bytes. '
        'distinct = hash of the case parameters; non-trivial = every case except an unmodified corpus packet')
BOUND = ('framing: all 1- and 2-cut splits and sampled 3-cut splits (all in thorough) of every 1-3 packet sequence '
         'with total length <= 40 bytes, header-region cuts for the 253- and 65536-byte packets, every truncation '
         'point; receive: 20 corpus packets x (quick: 26 substitution values per position, thorough: all 255) + all '
         'truncations + 11 length edits per element + structural edits; 600 (quick) / 4000 (thorough) random strings '
         'of <= 64 bytes')


# =================================================================================================================
# (a) stream framing
class _EofSpin(R.HarnessHang):
    pass


class GuardedReader(asyncio.StreamReader):
    """a real StreamReader; only adds a guard against spinning forever on an exhausted stream"""
    spins = 0

    async def readexactly(self, n):
        if self.at_eof():
            self.spins += 1
            if self.spins > 200:
                raise _EofSpin('readexactly called %d times after end of stream' % self.spins)
        return await super().readexactly(n)


class TestStreamFace(StreamFace):
    async def open(self):
        self.running = True

    def isLocalFace(self):
        return True


def _blob(n, salt):
    # bytes that look like TLV headers, to catch resynchronisation errors
    pat = bytes([0xfd, 0x05, 0x00, 0x06, 0xfe, 0x64, 0xff, salt & 0xff])
    return (pat * (n // len(pat) + 1))[:n]


MENU = [
    R.num(5) + R.num(0),                                   # 0: empty value
    R.num(6) + R.num(3) + _blob(3, 1),                     # 1
    R.num(0x64) + R.num(1) + b'\xfd',                      # 2
    R.num(0x0320) + R.num(2) + _blob(2, 2),                # 3: 3-byte Type
    R.num(0x10000) + R.num(1) + b'\x05',                   # 4: 5-byte Type
    R.num(1 << 32) + R.num(0),                             # 5: 9-byte Type
    R.num(5) + R.num(253) + _blob(253, 3),                 # 6: 3-byte Length
    R.num(6) + R.num(65536) + _blob(65536, 4),             # 7: 5-byte Length
    R.num(0xfc) + R.num(0xfc) + _blob(0xfc, 5),            # 8: largest 1-byte numbers
    R.interest_wire([R.comp('p'), R.comp('q')]),           # 9: a real Interest
]
MENU_TYPES = [5, 6, 0x64, 0x0320, 0x10000, 1 << 32, 5, 6, 0xfc, 5]
SMALL = [0, 1, 2, 3, 4, 5, 9]


def run_framing(inp):
    """inp: {'seq': [menu ids], 'cuts': [sorted offsets], 'trunc': None | length of the stream kept}"""
    seq, cuts, trunc = inp['seq'], inp['cuts'], inp.get('trunc')
    pkts = [MENU[i] for i in seq]
    stream = b''.join(pkts)
    if trunc is not None:
        stream = stream[:trunc]
    expected, off = [], 0
    for i, p in zip(seq, pkts):
        off += len(p)
        if off <= len(stream):
            expected.append((MENU_TYPES[i], p))
    mid_packet = sum(len(p) for _, p in expected) != len(stream)
    bounds = [0] + [c for c in cuts if 0 < c < len(stream)] + [len(stream)]
    chunks = [stream[a:b] for a, b in zip(bounds, bounds[1:])]
    out = []

    def viol(key, what):
        out.append(('C06:stream:' + key, what))

    def show(lst):
        return [(t, (p[:12].hex() + ('..' if len(p) > 12 else ''), len(p))) for t, p in lst]

    async def main(case):
        got = []

        async def cb(typ, buf):
            got.append((typ, bytes(buf)))

        face = TestStreamFace()
        await face.open()
        face.reader = GuardedReader()
        face.callback = cb
        if inp.get('schedule') == 'burst':
            # every byte and the end of the stream are there before run() gets to run at all: the complete packets are
            # owed all the same (the statement is about the bytes, not about how they were paced)
            for c in chunks:
                face.reader.feed_data(c)
            face.reader.feed_eof()
            runner = case.spawn(face.run())
            try:
                await asyncio.wait_for(asyncio.shield(runner), 2.0)
            except asyncio.TimeoutError:
                viol('no-shutdown', 'run() still running 2 s after end of stream (burst, mid-packet=%s)' % mid_packet)
                runner.cancel()
                return
            await case.settle()
            if got != expected:
                viol('partial-delivered' if mid_packet and len(got) > len(expected) else 'delivery-burst',
                     'stream and its end delivered at once: the callback received %s, the stream contains the complete '
                     'packets %s' % (show(got), show(expected)))
            if face.running:
                viol('no-shutdown', 'face.running is still True after end of stream')
            return
        runner = case.spawn(face.run())
        for c in chunks:
            face.reader.feed_data(c)
            for _ in range(4):
                await asyncio.sleep(0)
        await case.settle()
        if got != expected:
            viol('delivery', 'before EOF: delivered %s, the stream contains the complete packets %s' % (
                show(got), show(expected)))
            runner.cancel()
            return
        if runner.done():
            viol('run-ended-early', 'run() returned before the stream ended')
            return
        face.reader.feed_eof()
        try:
            await asyncio.wait_for(asyncio.shield(runner), 2.0)
        except asyncio.TimeoutError:
            viol('no-shutdown', 'run() still running 2 s after end of stream (mid-packet=%s)' % mid_packet)
            runner.cancel()
            return
        await case.settle()
        if got != expected:
            viol('partial-delivered' if mid_packet else 'delivery-after-eof',
                 'after EOF the callback had received %s, expected %s' % (show(got), show(expected)))
        if face.running:
            viol('no-shutdown', 'face.running is still True after end of stream')

    case = R.CaseLoop()
    try:
        case.run(main)
    except _EofSpin as e:
        viol('no-shutdown', 'run() spins on the exhausted stream instead of shutting down: %s' % e)
    except Exception as e:
        viol('exception:%s' % R.exc_name(e), 'run() ended with %s (%s) at %s' % (R.exc_name(e), e, R.where(e)))
    for be in case.background_errors:
        viol('background:%s' % be[0], 'background error %s at %s: %s' % be)
    return out


def framing_cases(tier, rng):
    cases = []
    seqs = [[a] for a in SMALL] + [[a, b] for a in SMALL for b in SMALL]
    tri = [[a, b, c] for a in SMALL for b in SMALL for c in SMALL]
    seqs += tri if tier == 'thorough' else rng.sample(tri, 40)
    for seq in seqs:
        n = sum(len(MENU[i]) for i in seq)
        if n > 40:
            continue
        pos = list(range(1, n))
        cases.append({'seq': seq, 'cuts': [], 'trunc': None})
        for a in pos:
            cases.append({'seq': seq, 'cuts': [a], 'trunc': None})
        pairs = [(a, b) for a in pos for b in pos if a < b]
        if tier != 'thorough' and len(seq) > 1:
            pairs = rng.sample(pairs, min(len(pairs), 40))
        for a, b in pairs:
            cases.append({'seq': seq, 'cuts': [a, b], 'trunc': None})
        triples = [(a, b, c) for a in pos for b in pos for c in pos if a < b < c]
        if tier != 'thorough' or len(seq) == 3:
            triples = rng.sample(triples, min(len(triples), 12 if tier != 'thorough' else 200))
        for t in triples:
            cases.append({'seq': seq, 'cuts': list(t), 'trunc': None})
        # stream ends at every position (incl. packet boundaries), with 0-2 cuts before
        for t in range(0, n):
            cases.append({'seq': seq, 'cuts': [], 'trunc': t})
            if t > 1:
                cases.append({'seq': seq, 'cuts': [rng.randrange(1, t)], 'trunc': t})
            if t > 2 and tier == 'thorough':
                cases.append({'seq': seq, 'cuts': sorted(rng.sample(range(1, t), 2)), 'trunc': t})
    # the same streams delivered together with their end, before run() gets a turn
    burst = []
    for c in cases:
        if len(c['cuts']) <= 1 and (tier == 'thorough' or len(c['seq']) <= 2):
            burst.append(dict(c, schedule='burst'))
    cases += burst if tier == 'thorough' else burst[::3]
    # big packets: cuts in the header region and around the boundaries
    bigseqs = [[6], [7], [8], [6, 1], [1, 6, 3], [7, 0], [2, 7, 6], [8, 6], [4, 8, 5]]
    for seq in bigseqs:
        lens = [len(MENU[i]) for i in seq]
        n = sum(lens)
        starts = [sum(lens[:i]) for i in range(len(seq))]
        hot = sorted({p for s in starts for p in range(max(1, s - 2), min(n, s + 12))} |
                     {rng.randrange(1, n) for _ in range(3)})
        for a in hot:
            cases.append({'seq': seq, 'cuts': [a], 'trunc': None})
            cases.append({'seq': seq, 'cuts': [], 'trunc': a})
        for _ in range(10 if tier != 'thorough' else 80):
            k = rng.choice([2, 3])
            cs = sorted(rng.sample(hot, k))
            cases.append({'seq': seq, 'cuts': cs, 'trunc': None})
            cases.append({'seq': seq, 'cuts': cs[:-1], 'trunc': cs[-1]})
    return cases


# =================================================================================================================
# UDP datagram handler
class _FakeTransport:
    def __init__(self):
        self.closed = False

    def sendto(self, data):
        pass

    def close(self):
        self.closed = True


def run_datagram(inp):
    """inp: {'wire': hex, 'app': None|'v1'|'v2'}"""
    wire = bytes.fromhex(inp['wire'])
    out = []

    def viol(key, what):
        out.append(('C06:udp:' + key, what))

    async def main(case):
        got = []
        fe = R.FRONTENDS[inp['app']]() if inp.get('app') else None

        async def cb(typ, buf):
            got.append((typ, bytes(buf)))
            if fe is not None:
                try:
                    await fe.app._receive(typ, buf)
                except Exception as e:       # same defect, same key as in the direct `recv` family
                    out.append(('C06:%s:_receive:%s:%s' % (inp['app'], R.exc_name(e), R.receive_site(e)),
                                'task spawned by the UDP face for datagram %s ended with %s (%s; raised in %s)' % (
                                    wire.hex()[:80], R.exc_name(e), e, R.where(e))))

        face = UdpFace('127.0.0.1', 6363)
        face.callback = cb
        loop = asyncio.get_running_loop()

        async def fake_endpoint(factory, **kw):
            proto = factory()
            tr = _FakeTransport()
            proto.connection_made(tr)
            return tr, proto
        loop.create_datagram_endpoint = fake_endpoint        # no socket is created
        await face.open()
        try:
            face.handler.datagram_received(wire, ('127.0.0.1', 6363))
        except Exception as e:
            viol('datagram_received:%s' % R.exc_name(e),
                 'datagram_received(%s) raised %s (%s)' % (wire.hex() or "b''", R.exc_name(e), e))
            return
        await case.settle()
        w = R.walk(wire)
        if w is not None and len(w) == 1:
            if got != [(w[0][0], wire)]:
                viol('delivery', 'complete packet %s handed over as %s' % (wire.hex()[:60], [(t, b.hex()[:40]) for t, b in got]))
        elif len(got) > 1:
            viol('delivery', 'one datagram delivered %d times' % len(got))
        if not face.running:
            viol('shutdown', 'face shut down by a datagram')

    case = R.CaseLoop()
    try:
        case.run(main)
    except Exception as e:
        viol('exception:%s' % R.exc_name(e), '%s (%s) at %s' % (R.exc_name(e), e, R.where(e)))
    for be in case.background_errors:
        viol('background:%s:%s' % (be[0], be[1].rsplit('.', 1)[-1]), 'background error %s at %s: %s' % be)
    return out


# =================================================================================================================
# (b) robustness of _receive
P, Q = R.comp('p'), R.comp('q')
U_NAME = [R.comp('zz-unrelated'), R.comp('1')]
H_PREFIX = [R.comp('zz-handler')]


def _signed_interest():
    # SignatureInfo (DigestSha256) + SignatureValue over name(without digest)+params+siginfo, then the params digest
    import hashlib
    params = R.tlv(0x24, b'\x01\x02')
    siginfo = R.tlv(0x2c, R.tlv(0x1b, b'\x00'))
    covered = P + Q + params + siginfo
    sigval = R.tlv(0x2e, hashlib.sha256(covered).digest())
    tail = params + siginfo + sigval
    digest = R.tlv(2, hashlib.sha256(tail).digest())
    return R.tlv(5, R.name_wire([P, Q, digest]) + R.tlv(0x0a, b'\x00\x00\x00\x07') + R.tlv(0x0c, b'\x64') + tail)


def corpus():
    i_plain = R.interest_wire([P, Q], lifetime=100)
    i_flags = R.interest_wire([P, Q, R.comp('r')], can_be_prefix=True, must_be_fresh=True, lifetime=None)
    i_param = R.interest_wire([P, Q], app_param=b'param', lifetime=100)
    i_signed = _signed_interest()
    d_full = R.data_wire([P, Q], b'hello', freshness=1000)
    d_long = R.data_wire([P, Q, R.comp('r')], b'x' * 4, sig=None)
    unk_hdr = (0x0354, b'\x01')
    return [
        ('interest', i_plain), ('interest-flags', i_flags), ('interest-params', i_param),
        ('interest-signed', i_signed), ('data', d_full), ('data-unsigned', d_long),
        ('lp-nack', R.lp_wire(i_plain, [R.nack_header(50)])),
        ('lp-nack-noreason', R.lp_wire(i_plain, [R.nack_header(None)])),
        ('lp-token-interest', R.lp_wire(i_plain, [(R.LP_PIT_TOKEN, b'\x01\x02\x03\x04')])),
        ('lp-data', R.lp_wire(d_full)),
        ('lp-headers-data', R.lp_wire(d_full, [(0x032c, b'\x01'), (0x0340, b'\x02'), unk_hdr])),
        ('lp-empty', R.lp_wire(None)),
        ('lp-token-only', R.lp_wire(None, [(R.LP_PIT_TOKEN, b'\x01\x02')])),
        ('lp-nack-only', R.lp_wire(None, [R.nack_header(150)])),
        ('lp-fragmented', R.lp_wire(d_full[:20], [(R.LP_SEQUENCE, b'\x00' * 8), (R.LP_FRAG_INDEX, b'\x00'),
                                                 (R.LP_FRAG_COUNT, b'\x02')])),
        ('lp-in-lp', R.lp_wire(R.lp_wire(i_plain))),
        # well-framed envelopes whose fragment is too short to hold even its own Type / Length number
        ('lp-fragment-fd', R.lp_wire(b'\xfd')), ('lp-fragment-fd01', R.lp_wire(b'\xfd\x01')),
        ('lp-fragment-fe', R.lp_wire(b'\xfe\x00\x00')), ('lp-fragment-ff', R.lp_wire(b'\xff' + b'\x00' * 6)),
        ('lp-fragment-05', R.lp_wire(b'\x05')), ('lp-fragment-06fd', R.lp_wire(b'\x06\xfd')),
        ('lp-nack-fragment-fd', R.lp_wire(b'\xfd', [R.nack_header(50)])),
        ('lp-token-fragment-fe', R.lp_wire(b'\xfe\x01', [(R.LP_PIT_TOKEN, b'\x01\x02')])),
        ('unknown-type', R.tlv(0x20, b'abc')), ('unknown-empty', R.tlv(1)), ('unknown-bigtype', R.tlv(0x0320, b'\x01')),
        ('name-bare', R.name_wire([P, Q])),
    ]


SUBST_QUICK = [0x00, 0x01, 0x02, 0x05, 0x06, 0x07, 0x08, 0x0a, 0x15, 0x16, 0x20, 0x24, 0x2c, 0x50, 0x52, 0x62, 0x64, 0x7f,
               0x80, 0xfc, 0xfd, 0xfe, 0xff]
LEN_EDITS = [0, 1, 'L-1', 'L+1', 'L+2', 0x7f, 0xfc, 253, 65536, 1 << 32, (1 << 64) - 1]


def mutations(label, wire, tier, rng):
    yield label + ':orig', wire
    n = len(wire)
    for pos in range(n):
        vals = range(256) if tier == 'thorough' else SUBST_QUICK + [wire[pos] ^ 1, (wire[pos] + 1) & 0xff,
                                                                  rng.randrange(256)]
        for v in vals:
            if v != wire[pos]:
                yield '%s:sub@%d=%02x' % (label, pos, v), wire[:pos] + bytes([v]) + wire[pos + 1:]
    for k in range(1, n):
        yield '%s:trunc%d' % (label, k), wire[:k]
        yield '%s:trunc%d+reframe' % (label, k), R.reframe(wire[:k])
    yield label + ':+00', wire + b'\x00'
    yield label + ':twice', wire + wire
    yield label + ':+00+reframe', R.reframe(wire + b'\x00')
    for (start, ts, ls, L, depth) in R.element_offsets(wire):
        for e in LEN_EDITS:
            newl = {'L-1': L - 1, 'L+1': L + 1, 'L+2': L + 2}.get(e, e)
            if newl < 0 or newl == L:
                continue
            w = wire[:start + ts] + R.num(newl) + wire[start + ts + ls:]
            yield '%s:len@%d=%d' % (label, start, newl), w
            if depth > 0:
                yield '%s:len@%d=%d+reframe' % (label, start, newl), R.reframe(w)
        # non-minimal encoding of the same length
        w = wire[:start + ts] + b'\xfd' + L.to_bytes(2, 'big') + wire[start + ts + ls:] if L <= 0xffff else None
        if w is not None and ls == 1:
            yield '%s:len@%d=nonminimal' % (label, start), w
            yield '%s:len@%d=nonminimal+reframe' % (label, start), R.reframe(w)
    tree = R.parse_tree(wire)
    for path in R.tree_paths(tree):
        if len(path) == 1:
            continue
        yield '%s:rm%s' % (label, list(path)), R.enc_tree(R.tree_edit(tree, path, lambda nd: []))
        yield '%s:dup%s' % (label, list(path)), R.enc_tree(R.tree_edit(tree, path, lambda nd: [nd, nd]))
        yield '%s:empty%s' % (label, list(path)), R.enc_tree(R.tree_edit(tree, path, lambda nd: [(nd[0], b'')]))
        yield '%s:ins-before%s' % (label, list(path)), R.enc_tree(
            R.tree_edit(tree, path, lambda nd: [(0x7e, b'\x00'), nd]))
        yield '%s:ins-critical-after%s' % (label, list(path)), R.enc_tree(
            R.tree_edit(tree, path, lambda nd: [nd, (0x7d, b'')]))
    for path in R.tree_paths(tree):
        yield '%s:rev%s' % (label, list(path)), R.enc_tree(
            R.tree_edit(tree, path, lambda nd: [(nd[0], list(reversed(nd[1])) if isinstance(nd[1], list) else nd[1])]))


def random_strings(count, rng):
    for i in range(count):
        n = rng.randrange(1, 65)
        b = bytes(rng.randrange(256) for _ in range(n))
        m = i % 4
        if m == 1:
            b = bytes([rng.choice([5, 6, 0x64])]) + b[1:]
        elif m == 2:
            b = R.reframe(bytes([rng.choice([5, 6, 0x64]), 0]) + b)
        elif m == 3:
            inner = R.reframe(bytes([rng.choice([5, 6, 7, 0x50, 0x62]), 0]) + b[:n // 2])
            b = R.reframe(bytes([rng.choice([5, 6, 0x64]), 0]) + inner + b[n // 2:])
        yield 'random%d' % i, b


def as_buf(wire, kind):
    if kind == 1:
        return memoryview(wire)
    if kind == 2:
        return bytearray(wire)
    return wire


U_DATA = R.data_wire(U_NAME, b'unrelated-content')
H_INTEREST = R.interest_wire(H_PREFIX + [R.comp('x')], lifetime=1000)


def run_receive(inp):
    """inp: {'fe': 'v1'|'v2', 'state': 'empty'|'busy', 'wire': hex, 'buf': 0|1|2, 'debug': bool}"""
    fe_tag, state, wire = inp['fe'], inp['state'], bytes.fromhex(inp['wire'])
    typ = R.outer_type(wire)
    out = []

    def viol(key, what):
        out.append(('C06:%s:%s' % (fe_tag, key), what))

    async def main(case):
        fe = R.FRONTENDS[fe_tag]()
        pend = {}
        if state == 'busy':
            fe.attach(R.name_wire(H_PREFIX), 'H')
            fe.attach(R.name_wire([P]), 'rel')
            pend['U'] = case.spawn(fe.express(R.name_wire(U_NAME), lifetime=4000))
            pend['rel-exact'] = case.spawn(fe.express(R.name_wire([P, Q]), lifetime=4000))
            pend['rel-prefix'] = case.spawn(fe.express(R.name_wire([P]), lifetime=4000, can_be_prefix=True))
            await asyncio.sleep(0)
            fe.face.sent.clear()
        # ---- the delivery under test
        try:
            await fe.app._receive(typ, as_buf(wire, inp.get('buf', 0)))
        except Exception as e:
            viol('_receive:%s:%s' % (R.exc_name(e), R.receive_site(e)),
                 '_receive(%d, %s) let %s escape (%s; raised in %s)' % (typ, wire.hex()[:80], R.exc_name(e), e, R.where(e)))
        await case.settle()
        for be in case.collect():
            viol('background:%s:%s' % (be[0], be[1].rsplit('.', 1)[-1] or 'loop'),
                 'after _receive(%d, %s): background error %s at %s: %s' % ((typ, wire.hex()[:80]) + be))
        case.background_errors.clear()
        if not fe.face.running:
            viol('face-shut-down', 'the face was shut down by packet %s' % wire.hex()[:80])
            return
        # ---- unrelated pending Interest and handler must be unaffected
        if state == 'busy':
            if pend['U'].done():
                viol('unrelated-pending-completed', 'pending Interest /zz-unrelated/1 was completed (%s) by packet %s' % (
                    'cancelled' if pend['U'].cancelled() else repr(pend['U'].exception() or pend['U'].result())[:80],
                    wire.hex()[:80]))
                return
        else:
            fe.attach(R.name_wire(H_PREFIX), 'H')
            pend['U'] = case.spawn(fe.express(R.name_wire(U_NAME), lifetime=4000))
            await asyncio.sleep(0)
        n0 = len([c for c in fe.log if c.hid == 'H'])
        try:
            await fe.app._receive(6, U_DATA)
            await fe.app._receive(5, H_INTEREST)
        except Exception as e:
            viol('afterwards:%s' % R.exc_name(e), 'valid packet after %s raised %s' % (wire.hex()[:80], R.exc_name(e)))
            return
        await case.settle()
        try:
            if not pend['U'].done():
                for _ in range(20):
                    await asyncio.sleep(0)
            if not pend['U'].done():
                pend['U'].cancel()
                raise LookupError('still pending after its Data was delivered')
            res = await pend['U']
            if fe.result_view(res)[1] != b'unrelated-content':
                viol('unrelated-pending-damaged', 'unrelated Interest got %r' % (fe.result_view(res),))
        except Exception as e:
            viol('unrelated-pending-damaged', 'after packet %s the unrelated pending Interest ended with %s (%s) instead of '
                 'its Data' % (wire.hex()[:80], R.exc_name(e), e))
        hcalls = [c for c in fe.log if c.hid == 'H'][n0:]
        if len(hcalls) != 1 or hcalls[0].name_bytes() != tuple(H_PREFIX + [R.comp('x')]):
            viol('unrelated-handler-damaged', 'after packet %s the unrelated handler was invoked %d times for its Interest'
                 % (wire.hex()[:80], len(hcalls)))
        for k, t in pend.items():
            if not t.done():
                t.cancel()
        await asyncio.gather(*pend.values(), return_exceptions=True)
        for be in case.collect():
            viol('background:%s:%s' % (be[0], be[1].rsplit('.', 1)[-1] or 'loop'),
                 'after %s and the follow-up packets: background error %s at %s: %s' % ((wire.hex()[:80],) + be))
        case.background_errors.clear()

    R.set_debug_logging(bool(inp.get('debug')))
    case = R.CaseLoop()
    try:
        case.run(main)
    except Exception as e:
        viol('harness:%s' % R.exc_name(e), '%s (%s) at %s' % (R.exc_name(e), e, R.where(e)))
    finally:
        R.set_debug_logging(False)
    for be in case.background_errors:
        viol('background:%s:%s' % (be[0], be[1].rsplit('.', 1)[-1] or 'loop'), 'background error %s at %s: %s' % be)
    return out


# =================================================================================================================
def wires(tier, seed):
    rng = random.Random(seed * 104729 + 6)
    seen, out = set(), []
    for label, w in corpus():
        for ml, mw in mutations(label, w, tier, rng):
            hh = R.h(mw)
            if hh in seen or not mw:
                continue
            seen.add(hh)
            out.append((ml, mw))
    for ml, mw in random_strings(600 if tier != 'thorough' else 4000, rng):
        hh = R.h(mw)
        if hh not in seen:
            seen.add(hh)
            out.append((ml, mw))
    return out


def gen_cases(tier, seed):
    rng = random.Random(seed * 15485863 + 6)
    cases = [('frame', c, True) for c in framing_cases(tier, rng)]
    ws = wires(tier, seed)
    i = 0
    for ml, mw in ws:
        nontrivial = not ml.endswith(':orig')
        if R.outer_type(mw) is not None:
            for fe in ('v2', 'v1'):
                for state in ('empty', 'busy'):
                    cases.append(('recv', {'fe': fe, 'state': state, 'wire': mw.hex(), 'buf': i % 3,
                                           'debug': (i // 3) % 2 == 1, 'label': ml}, nontrivial))
                    i += 1
    # datagrams: the corpus, all truncations (incl. the empty datagram and cut var-numbers), a few with an app behind
    dg = {b'', b'\xfd', b'\xfd\x00', b'\xfe\x00\x00', b'\xff' * 8, b'\xff' * 9, b'\x05', b'\x05\xfd', b'\x05\xfd\x00'}
    for label, w in corpus():
        dg.update(w[:k] for k in range(len(w) + 1))
    for w in [MENU[i] for i in (3, 4, 5, 6)]:
        dg.update(w[:k] for k in range(min(len(w), 14) + 1))
        dg.add(w)
    for j, w in enumerate(sorted(dg)):
        cases.append(('udp', {'wire': w.hex(), 'app': [None, 'v2', 'v1'][j % 3]}, True))
    for fe in ('v2', 'v1'):
        for end in ('timeout', 'cancel'):
            cases.append(('late', {'fe': fe, 'end': end}, True))
    return cases


def run_late(inp):
    """inp: {'fe', 'end': 'timeout'|'cancel'}: a Data arrives for a pending Interest whose validator is still working when the
    Interest times out (or is cancelled by its caller); when the validator finally answers nothing may blow up in the
    background, and reception keeps working."""
    fe_tag, end = inp['fe'], inp['end']
    out = []

    def viol(key, what):
        out.append(('C06:%s:%s' % (fe_tag, key), what))

    async def main(case):
        fe = R.FRONTENDS[fe_tag]()
        fe.attach(R.name_wire(H_PREFIX), 'H')
        late = case.spawn(fe.express(R.name_wire([P, R.comp('late')]), lifetime=40, slow_validator=0.15))
        other = case.spawn(fe.express(R.name_wire(U_NAME), lifetime=4000))
        await asyncio.sleep(0)
        try:
            await fe.app._receive(6, R.data_wire([P, R.comp('late')], b'late-content'))
        except Exception as e:
            viol('_receive:%s' % R.exc_name(e), 'Data for a pending Interest let %s escape' % R.exc_name(e))
        if end == 'cancel':
            await asyncio.sleep(0.02)
            late.cancel()
        await asyncio.sleep(0.3)              # the deadline passes, then the validator answers
        await case.settle()
        for be in case.collect():
            viol('background:%s:%s' % (be[0], be[1].rsplit('.', 1)[-1] or 'loop'),
                 'validator answers after the Interest %s: background error %s at %s: %s' % (
                     (('timed out' if end == 'timeout' else 'was cancelled'),) + tuple(be)))
        case.background_errors.clear()
        try:
            await fe.app._receive(6, U_DATA)
            await case.settle()
            if not other.done() or fe.result_view(other.result())[1] != b'unrelated-content':
                viol('unrelated-pending-damaged', 'afterwards the unrelated pending Interest did not complete with its Data')
        except Exception as e:
            viol('afterwards:%s' % R.exc_name(e), 'valid packet afterwards raised %s' % R.exc_name(e))
        for t in (late, other):
            if not t.done():
                t.cancel()
        await asyncio.gather(late, other, return_exceptions=True)

    case = R.CaseLoop()
    try:
        case.run(main)
    except Exception as e:
        viol('harness:%s' % R.exc_name(e), '%s (%s) at %s' % (R.exc_name(e), e, R.where(e)))
    for be in case.background_errors:
        viol('background:%s:%s' % (be[0], be[1].rsplit('.', 1)[-1] or 'loop'), 'background error %s at %s: %s' % be)
    return out


RUNNERS = {'frame': run_framing, 'recv': run_receive, 'udp': run_datagram, 'late': run_late}


def run(tier: str, seed: int, shard):
    k, n = shard
    cases = gen_cases(tier, seed)
    V = R.Violations(MODULE)
    seen = set()
    ev = 0
    samples = []
    for i, (fam, inp, nontrivial) in enumerate(cases):
        if i % n != k:
            continue
        res = RUNNERS[fam](inp)
        ev += 1
        if nontrivial:
            seen.add(R.h(fam, sorted((kk, vv) for kk, vv in inp.items() if kk != 'label')))
        if len(samples) < 6 and i % 997 < n:
            samples.append({'family': fam, **inp})
        for key, what in res:
            V.add(key, what, {'family': fam, **inp}, size=len(inp.get('wire', '')) or len(str(inp)))
    return {'evaluations': ev, 'distinct_nontrivial': len(seen), 'rule': RULE, 'bound': BOUND,
            'exhaustive': False, 'samples': samples, 'violations': V.out()}


def replay(rec):
    inp = dict(rec['input'])
    fam = inp.pop('family')
    res = RUNNERS[fam](inp)
    hit = [w for key, w in res if key == rec['key']]
    if hit:
        return False, hit[0]
    return True, 'holds' + ('' if not res else ' (other keys: %s)' % sorted({kk for kk, _ in res}))
