"""C19 bounded stand-in: ndn.app_support.segment_fetcher.segment_fetcher against a simulated producer.

The real async generator is driven with a stub application whose express_interest() plays a producer holding an
object of 0..5 segments (or an unsegmented object).  Every reply is a real Data packet built with make_data and
decoded with parse_data, so the fetcher sees the value types the real front-end hands out.

Contracts (from the property statement, evaluated on the producer's log and on the yielded sequence):
  post_yield_sequence     success => yields == contents of segments 0..F (F = the segment designated final), each once, in
                          order; unsegmented => the single content; failure => yields == contents 0..j-1 where j failed
  post_requests           first Interest is the discovery Interest (prefix, CanBePrefix); every Interest carries the
                          configured lifetime / MustBeFresh / validator; only segments 0..F of the object are requested;
                          a lost segment is re-requested immediately; no name is requested more than retry_times times
                          in a row; nothing is requested after the fetch failed
  post_timeout_iff        fetch ends with InterestTimeout <=> some requested name lost retry_times responses in a row
  post_fault_propagates   a Nack / ValidationFailure delivered by the producer ends the fetch with exactly that exception
"""
import random

from ndn.app_support.segment_fetcher import segment_fetcher
from ndn.encoding import Name, Component, MetaInfo, make_data, parse_data
from ndn.types import InterestTimeout, InterestNack, ValidationFailure

from ._misc import drive, replay_with, LoopRun, where

MODULE = 'bounded.c19'
PREFIX = '/obj/file'
MARKERS = ('all', 'last-only', 'early-final')   # 'not-on-final' removed: the statement does not say what happens when the final segment does not carry the marker (false alarm, DESIGN.md 7b)


def _content(i):
    return b'seg-%d-payload' % i


class Producer:
    def __init__(self, case, loop):
        self.c = case
        self.loop = loop
        self.prefix = Name.normalize(PREFIX)
        self.base = self.prefix + ([Component.from_version(7)] if case['versioned'] else [])
        self.log = []            # (key, name-uri, can_be_prefix, must_be_fresh, lifetime, validator_ok, outcome)
        self.attempts = {}
        self.validator = object()

    def key_of(self, name, can_be_prefix):
        name = [bytes(c) for c in name]
        if name == [bytes(c) for c in self.prefix] and can_be_prefix:
            return 'disc'
        base = [bytes(c) for c in self.base]
        if len(name) == len(base) + 1 and name[:-1] == base and Component.get_type(name[-1]) == Component.TYPE_SEGMENT:
            return Component.to_number(name[-1])
        return 'other:' + Name.to_str(name)

    def data_for(self, seg):
        c = self.c
        if seg is None:
            wire = make_data(self.base, MetaInfo(), b'whole-object')
        else:
            fin = None
            f = c['final']
            if c['marker'] in ('all', 'early-final'):
                fin = f
            elif c['marker'] == 'last-only':
                fin = f if seg == f else None
            elif c['marker'] == 'not-on-final':
                fin = f if seg != f else None
            meta = MetaInfo(final_block_id=Component.from_segment(fin)) if fin is not None else MetaInfo()
            wire = make_data(self.base + [Component.from_segment(seg)], meta, _content(seg))
        name, meta, content, _ = parse_data(wire)
        return name, meta, content

    def express_interest(self, name, app_param=None, validator=None, need_raw_packet=False, **kw):
        c = self.c
        name = Name.normalize(name)
        cbp = bool(kw.get('can_be_prefix', False))
        key = self.key_of(name, cbp)
        n_before = self.attempts.get(key, 0)
        self.attempts[key] = n_before + 1
        fut = self.loop.create_future()
        fault = c.get('fault')
        outcome = None
        if fault and str(fault['at']) == str(key) and n_before == fault['after']:
            outcome = fault['kind']
        else:
            if key == 'disc':
                have = c['unseg'] or c['n'] > 0
                lost = c['loss'][0]
            elif isinstance(key, int) and not c['unseg'] and key < c['n']:
                have = True
                lost = c['loss'][1 + key]
            else:
                have, lost = False, 0
            if not have or n_before < lost:
                outcome = 'timeout'
            else:
                outcome = 'data'
        self.log.append({'key': key, 'name': Name.to_str(name), 'cbp': cbp, 'fresh': kw.get('must_be_fresh'),
                         'lifetime': kw.get('lifetime'), 'validator_ok': validator is self.validator,
                         'outcome': outcome})
        if outcome == 'timeout':
            self.loop.call_soon(fut.set_exception, InterestTimeout())
        elif outcome == 'nack':
            # the reason code of the Nack is the case's (NO_ROUTE unless stated): none of them is a reason to ask again
            self.loop.call_soon(fut.set_exception, InterestNack((c.get('fault') or {}).get('reason', 150)))
        elif outcome == 'validation':
            seg = (None if c['unseg'] else c['disc']) if key == 'disc' else key
            nm, meta, content = self.data_for(seg)
            self.loop.call_soon(fut.set_exception, ValidationFailure(nm, meta, content, None))
        else:
            seg = (None if c['unseg'] else c['disc']) if key == 'disc' else key
            self.loop.call_soon(fut.set_result, self.data_for(seg))
        return fut


def execute(case):
    """runs the real generator; returns (yields, outcome, log, unhandled)"""
    lr = LoopRun()
    box = {}

    async def main():
        import asyncio
        prod = Producer(case, asyncio.get_running_loop())
        box['prod'] = prod
        ys = []
        outcome = 'ok'
        gen = segment_fetcher(prod, PREFIX, timeout=case['timeout'], retry_times=case['retry'],
                              validator=prod.validator, must_be_fresh=case['fresh'])
        try:
            async for chunk in gen:
                ys.append(bytes(chunk) if chunk is not None else None)
                if len(ys) > 20:
                    outcome = 'runaway'
                    break
        except InterestTimeout:
            outcome = 'timeout'
        except InterestNack:
            outcome = 'nack'
        except ValidationFailure:
            outcome = 'validation'
        except Exception as e:
            outcome = f'other:{type(e).__name__}:{e} @ {where(e)}'
        finally:
            await gen.aclose()
        return ys, outcome

    ys, outcome = lr.run(main)
    return ys, outcome, box['prod'].log, lr.unhandled


# ---------------------------------------------------------------- contracts
def expected_contents(case):
    if case['unseg']:
        return [b'whole-object']
    return [_content(i) for i in range(case['final'] + 1)]


def post_requests(case, ys, outcome, log):
    out = []
    r = case['retry']
    if not log:
        return [('C19:no-discovery-interest', 'no Interest was expressed at all')]
    if log[0]['key'] != 'disc':
        out.append(('C19:no-discovery-interest', f"first Interest is {log[0]['name']} cbp={log[0]['cbp']}, not a CanBePrefix Interest for the prefix"))
    for e in log:
        if e['lifetime'] != case['timeout'] or e['fresh'] != case['fresh'] or not e['validator_ok']:
            out.append(('C19:interest-parameters', f"Interest {e['name']} does not carry the configured lifetime/MustBeFresh/validator: {e}"))
            break
    final = -1 if case['unseg'] else case['final']
    for e in log:
        k = e['key']
        if k == 'disc':
            continue
        if not isinstance(k, int) or k > final:
            key = 'C19:final-marker-not-on-final-segment' if case['marker'] == 'not-on-final' else 'C19:requests-beyond-final'
            out.append((key, f"requested {e['name']} although the object ends with segment {final} (designated final)"))
            break
    # retry discipline
    run_key, run_len = None, 0
    for i, e in enumerate(log):
        if e['key'] == run_key:
            run_len += 1
        else:
            run_key, run_len = e['key'], 1
        if e['outcome'] == 'timeout':
            lost_in_row = 0
            j = i
            while j >= 0 and log[j]['key'] == e['key'] and log[j]['outcome'] == 'timeout':
                lost_in_row += 1
                j -= 1
            if lost_in_row > r:
                out.append(('C19:retry-count', f"{e['name']} was requested again after {r} lost responses in a row (retry_times={r})"))
                break
            if lost_in_row < r:
                if i + 1 >= len(log) or log[i + 1]['key'] != e['key']:
                    out.append(('C19:retry-count', f"{e['name']} lost response {lost_in_row} of {r} allowed but was not re-requested next"))
                    break
            elif i + 1 < len(log):
                out.append(('C19:request-after-failure', f"Interest {log[i + 1]['name']} sent after {e['name']} exhausted its attempts"))
                break
        if e['outcome'] in ('nack', 'validation') and i + 1 < len(log):
            out.append(('C19:request-after-failure', f"Interest {log[i + 1]['name']} sent after a {e['outcome']} on {e['name']}"))
            break
    return out


def _exhausted(case, log):
    r = case['retry']
    cnt = 0
    prev = None
    for e in log:
        if e['outcome'] == 'timeout':
            cnt = cnt + 1 if prev == e['key'] else 1
            if cnt >= r:
                return e
        else:
            cnt = 0
        prev = e['key'] if e['outcome'] == 'timeout' else None
    return None


def post_outcome(case, ys, outcome, log):
    out = []
    if outcome.startswith('other:') or outcome == 'runaway':
        return [('C19:unexpected-exception', f'fetch ended with {outcome}')]
    delivered = [e for e in log if e['outcome'] in ('nack', 'validation')]
    ex = _exhausted(case, log)
    if delivered:
        want = delivered[0]['outcome']
        if outcome != want:
            out.append(('C19:fault-propagates', f"producer answered {delivered[0]['name']} with {want} but the fetch ended with {outcome}"))
        fail_key = delivered[0]['key']
    elif ex is not None:
        if outcome != 'timeout':
            out.append(('C19:timeout-iff-exhausted', f"{ex['name']} lost {case['retry']} responses in a row but the fetch ended with {outcome}"))
        fail_key = ex['key']
    else:
        if outcome != 'ok':
            out.append(('C19:timeout-iff-exhausted', f'no requested name exhausted its {case["retry"]} attempts and no fault was delivered, but the fetch ended with {outcome}'))
        fail_key = None
    exp = expected_contents(case)
    if fail_key is None:
        want_ys = exp
    elif fail_key == 'disc':
        want_ys = []
    elif isinstance(fail_key, int):
        want_ys = exp[:fail_key]
    else:
        want_ys = None
    if want_ys is not None and ys != want_ys:
        key = 'C19:yield-sequence'
        out.append((key, f'yielded {[y.decode() if y else y for y in ys]} but the statement requires '
                         f'{[y.decode() for y in want_ys]} (outcome {outcome}, failing request {fail_key})'))
    return out


def run_case(case):
    ys, outcome, log, unhandled = execute(case)
    out = post_requests(case, ys, outcome, log)
    if any(k == 'C19:final-marker-not-on-final-segment' for k, _ in out):
        return [x for x in out if x[0] == 'C19:final-marker-not-on-final-segment']   # consequences are derived
    out += post_outcome(case, ys, outcome, log)
    if unhandled:
        out.append(('C19:unhandled-background-error', unhandled[0]))
    return out


# ---------------------------------------------------------------- cases
def _loss_vectors(length, r):
    """canonical loss vectors: entries 0..r; everything after the first exhausting entry (== r) is irrelevant -> 0"""
    def rec(i):
        if i == length:
            yield []
            return
        for v in range(r + 1):
            if v == r:
                yield [v] + [0] * (length - i - 1)
            else:
                for rest in rec(i + 1):
                    yield [v] + rest
    return rec(0)


def cases(tier, rng):
    max_n = 5
    retries = (1, 2, 3) if tier == 'quick' else (1, 2, 3, 4)
    # 1. nothing published, and unsegmented objects
    for r in retries:
        for versioned in (False, True):
            yield dict(n=0, unseg=False, versioned=versioned, disc=0, retry=r, loss=[0], marker='all', final=-1,
                       fault=None, fresh=True, timeout=50)
            for L in range(r + 1):
                for fresh in (True, False):
                    yield dict(n=-1, unseg=True, versioned=versioned, disc=0, retry=r, loss=[L], marker='all', final=-1,
                               fault=None, fresh=fresh, timeout=4000 if fresh else 30)
            for kind in ('nack', 'validation'):
                for after in sorted({0, r - 1}):
                    yield dict(n=-1, unseg=True, versioned=versioned, disc=0, retry=r, loss=[r - 1], marker='all', final=-1,
                               fault={'at': 'disc', 'kind': kind, 'after': after}, fresh=True, timeout=50)
    # 2. segmented objects: sizes x discovery answer x final markers x loss patterns
    for n in range(1, max_n + 1):
        for r in retries:
            for marker in MARKERS:
                finals = [n - 1] if marker != 'early-final' else list(range(0, n - 1))
                if marker == 'not-on-final' and n < 2:
                    continue      # nothing would designate a final segment at all
                for final in finals:
                    for disc in range(n):
                        for versioned in (False, True):
                            vecs = list(_loss_vectors(n + 1, r))
                            if len(vecs) > 100 and tier == 'quick':
                                vecs = vecs[:30] + rng.sample(vecs[30:], 70)
                            for loss in vecs:
                                yield dict(n=n, unseg=False, versioned=versioned, disc=disc, retry=r, loss=loss, marker=marker,
                                           final=final, fault=None, fresh=True, timeout=4000)
    # 3. Nack / validation failure at every position, after 0 or r-1 lost responses
    for n in range(1, max_n + 1):
        for r in retries:
            for disc in sorted({0, n - 1}):
                for at in ['disc'] + list(range(n)):
                    for kind in ('nack', 'validation'):
                        for after in sorted({0, r - 1}):
                            for marker in ('all', 'last-only'):
                                loss = [0] * (n + 1)
                                idx = 0 if at == 'disc' else at + 1
                                loss[idx] = after
                                yield dict(n=n, unseg=False, versioned=False, disc=disc, retry=r, loss=loss, marker=marker,
                                           final=n - 1, fault={'at': at, 'kind': kind, 'after': after}, fresh=True, timeout=100)
                                if kind == 'nack' and marker == 'all':
                                    for reason in (0, 50, 100):        # NONE, CONGESTION, DUPLICATE
                                        yield dict(n=n, unseg=False, versioned=False, disc=disc, retry=r, loss=loss, marker=marker,
                                                   final=n - 1, fault={'at': at, 'kind': kind, 'after': after, 'reason': reason},
                                                   fresh=True, timeout=100)


def run(tier='quick', seed=0, shard=(0, 1)):
    rng = random.Random(seed * 1000)      # same draw in every shard: the case list must be identical across shards
    return drive(MODULE, cases(tier, rng), run_case, shard,
                 rule='simulated producer: object size x discovery answer (segment k / unsegmented) x final-block marker placement '
                      'x versioned name x per-request loss counts 0..retry_times (canonical) x Nack/ValidationFailure position; '
                      'non-trivial = at least one response is delivered or lost (all cases); distinct by the full case tuple',
                 bound=f"objects of 0..5 segments, retry_times in {'1..3' if tier == 'quick' else '1..4'}, "
                       'one fault per history, stub application (no forwarder, no real timers)',
                 exhaustive=False)


def replay(rec):
    return replay_with(run_case, rec)
