"""C18 bounded stand-in: the real ndn.app_support.svs.sync.SvsInst on a virtual clock against a reference model.

The instance is started on a stub application front-end (records attach_handler / express) inside an event loop
whose clock is virtual (bounded/_misc.VirtualLoop); `time.time` and `secrets.randbits` as seen by the sync module are
replaced so that timer durations are deterministic (suppression 0.22 s, periodic 2.04 s) and never coincide with the
harness' own 0.05 s observation steps.

Reference model (the statement):
  recv(V)    ignored when undecodable / empty / wrong name length / claims more for this node than it produced;
             otherwise local' = entry-wise max(local, V) and the callback fires once iff some entry was raised.
             An entry without sequence number (or without node id) must lead either to the whole vector being
             ignored or to that entry being skipped - never to an exception or a partial merge.
  publish    own sequence number + 1, own entry updated, one sync Interest with the full vector before any virtual
             time passes.
  timers     `heard` = merge of the vectors accepted while the instance is in its suppression period (including the
             one that started it).  When the period ends by timer: exactly one sync Interest iff some local entry is
             newer than `heard`, none otherwise.  The period ends within 1.5 x suppression interval.  Every sync
             Interest carries the full local vector.
"""
import asyncio
import itertools
import logging
import random

import ndn.app_support.svs.sync as svs_sync
from ndn.app_support.svs import SvsInst, SvsState, StateVecWrapper, StateVec, StateVecEntry
from ndn.encoding import Name, Component

from ._misc import drive, replay_with, VirtualLoopRun, where

MODULE = 'bounded.c18'
logging.getLogger(svs_sync.__name__).setLevel(logging.CRITICAL + 1)     # the instance logs every rejected vector
BASE = Name.normalize('/sync/group')
IDS = {'s': '/node/self', 'a': '/node/a', 'b': '/node/b', 'x': '/node/x'}
IDB = {k: Name.to_bytes(v) for k, v in IDS.items()}
SUP, SYNC, STEP = 0.2, 2.0, 0.05
RANDBITS = 39321          # -> suppression timer 0.2*(0.5+0.6)=0.22 s, periodic timer 2.0*(0.9+0.12)=2.04 s
TICKS = {'tick-short': 2, 'tick-sup': 6, 'tick-long': 44}
VECTORS = ('newer-a', 'newer-ab', 'equal', 'older-a', 'older-all', 'incomparable', 'unknown-new', 'unknown-zero', 'only-unknown',
           'self-ahead', 'self-behind', 'self-ahead-then-behind', 'self-behind-then-ahead', 'noseq-first', 'noseq-last', 'noseq-self', 'noid', 'malformed-overrun', 'malformed-uint-width', 'malformed-critical',
           'malformed-type', 'empty-vector', 'long-name')
MALFORMED = ('malformed-overrun', 'malformed-uint-width', 'malformed-critical', 'malformed-type')
EVENTS = VECTORS + ('pub', 'pub2') + tuple(TICKS)
PRELUDE = ('newer-ab', 'pub', 'pub', 'newer-ab', 'tick-long')


class _FakeTime:
    def __init__(self, loop):
        self.loop = loop

    def time(self):
        return self.loop.time()


class _FakeSecrets:
    @staticmethod
    def randbits(n):
        return RANDBITS


class StubApp:
    def __init__(self, loop):
        self.loop = loop
        self.handlers = {}
        self.sent = []

    def attach_handler(self, name, handler, validator=None):
        self.handlers[Name.to_bytes(name)] = (handler, validator)

    def detach_handler(self, name):
        return self.handlers.pop(Name.to_bytes(name), None) is not None

    def express(self, name, validator, app_param=None, signer=None, **kwargs):
        self.sent.append({'t': self.loop.time(), 'name': [bytes(c) for c in Name.normalize(name)], 'signer': signer, 'kw': kwargs})
        return None


# ---------------------------------------------------------------- vectors
def vector_entries(kind, L, self_seq):
    """list of (id key or None, seq or None) for a vector kind, relative to the model's current local vector L"""
    g = lambda k: L.get(k, 0)
    dn = lambda k: max(g(k) - 1, 0)
    if kind == 'newer-a':
        return [('s', g('s')), ('a', g('a') + 1), ('b', g('b'))]
    if kind == 'newer-ab':
        return [('a', g('a') + 2), ('b', g('b') + 1)]
    if kind == 'equal':
        return [('s', g('s')), ('a', g('a')), ('b', g('b'))]
    if kind == 'older-a':
        return [('s', g('s')), ('a', dn('a')), ('b', g('b'))]
    if kind == 'older-all':
        return [('s', dn('s')), ('a', dn('a')), ('b', dn('b'))]
    if kind == 'incomparable':
        return [('s', g('s')), ('a', g('a') + 1), ('b', dn('b'))]
    if kind == 'unknown-new':
        return [('s', g('s')), ('a', g('a')), ('b', g('b')), ('x', g('x') + 3)]
    if kind == 'unknown-zero':
        return [('s', g('s')), ('a', g('a')), ('b', g('b')), ('x', 0)]
    if kind == 'only-unknown':
        return [('x', g('x') + 1)]
    if kind == 'self-ahead':
        return [('a', g('a') + 1), ('s', self_seq + 1), ('b', g('b') + 1)]
    if kind == 'self-behind':
        return [('s', dn('s')), ('a', g('a'))]
    # the own node id listed twice, one of the two entries claiming more than was produced: every entry counts
    if kind == 'self-ahead-then-behind':
        return [('s', self_seq + 1), ('a', g('a') + 1), ('s', dn('s'))]
    if kind == 'self-behind-then-ahead':
        return [('s', dn('s')), ('b', g('b') + 2), ('s', self_seq + 3)]
    if kind == 'noseq-first':
        return [('b', None), ('a', g('a') + 1)]
    if kind == 'noseq-last':
        return [('a', g('a') + 1), ('b', None)]
    if kind == 'noseq-self':
        return [('a', g('a') + 1), ('s', None)]
    if kind == 'noid':
        return [(None, 5), ('a', g('a') + 1)]
    if kind in MALFORMED or kind == 'long-name':
        return [('s', g('s')), ('a', g('a') + 1), ('b', g('b') + 1)]
    if kind == 'empty-vector':
        return []
    raise ValueError(kind)


def encode_vector(entries):
    w = StateVecWrapper()
    w.val = StateVec()
    w.val.entries = []
    for k, seq in entries:
        e = StateVecEntry()
        if k is not None:
            e.node_id = Name.normalize(IDS[k])
        e.seq_no = seq
        w.val.entries.append(e)
    return bytes(w.encode())


def sync_name(kind, entries):
    comp = encode_vector(entries)
    if kind in ('malformed-overrun', 'malformed-uint-width', 'malformed-critical'):
        # a well-formed name component (outer type/length consistent, as the wire decoder would deliver it) whose inside is broken
        body = b''
        for i, (k, seq) in enumerate(entries):
            seq_tlv = b'\xcc\x01' + bytes([seq])
            if i == len(entries) - 1 and kind == 'malformed-uint-width':
                seq_tlv = b'\xcc\x03\x00\x00' + bytes([seq])          # 3 is not a legal integer width
            e = Name.to_bytes(IDS[k]) + seq_tlv
            body += b'\xca' + bytes([len(e)]) + e
        if kind == 'malformed-overrun':
            body = body[:-1]                                          # the last entry now overruns the vector
        elif kind == 'malformed-critical':
            body += b'\xcb\x01\x00'                                   # unrecognised critical element
        comp = b'\xc9' + bytes([len(body)]) + body
    elif kind == 'malformed-type':
        comp = Component.from_bytes(b'\xff\x00\x01 not a state vector')
    digest = Component.from_bytes(bytes(range(32)), Component.TYPE_PARAMETERS_SHA256)
    name = BASE + [comp, digest]
    if kind == 'long-name':
        name = BASE + [Component.from_str('extra'), comp, digest]
    return name


def decode_sent(rec):
    """decoded vector {id bytes: seq} of an emitted sync Interest, or a string describing why it is not one"""
    name = rec['name']
    if len(name) != len(BASE) + 1 or name[:len(BASE)] != [bytes(c) for c in BASE]:
        return f'name {Name.to_str(name)} is not <sync prefix>/<vector>'
    try:
        pkt = StateVecWrapper.parse(name[-1]).val
    except Exception as e:
        return f'vector component does not decode: {type(e).__name__}'
    out = {}
    for e in (pkt.entries if pkt is not None else []):
        out[Name.to_bytes(e.node_id)] = e.seq_no
    return out


def nz(d):
    return {k: v for k, v in d.items() if v}


# ---------------------------------------------------------------- the run-time contracts around the real instance
class Checked:
    def __init__(self, loop):
        self.loop = loop
        self.app = StubApp(loop)
        self.cb = 0
        self.signer = object()
        self.validator = object()
        self.inst = SvsInst(BASE, IDS['s'], self._on_missing, self.signer, self.validator,
                            sync_interval=SYNC, suppression_interval=SUP)
        # reference model
        self.m_local = {}
        self.m_seq = 0
        self.heard = None
        self.sup_elapsed = 0.0
        self.agg_bug = False
        self.agg_diverged = False
        self.v = []

    def _on_missing(self, inst):
        self.cb += 1

    def viol(self, key, what):
        self.v.append((key, what))

    def L(self):
        return {k: self.m_local.get(IDB[k], 0) for k in IDS}

    async def settle(self):
        for _ in range(8):
            await asyncio.sleep(0)

    # -- start
    async def start(self):
        self.inst.start(self.app)
        if Name.to_bytes(BASE) not in self.app.handlers:
            self.viol('C18:handler-not-attached', 'start() did not attach the sync handler at the sync prefix')
        self.m_local = nz(dict(self.inst.local_sv))
        await self.settle()

    # -- emitted Interests
    def check_emissions(self, new, ctx):
        for rec in new:
            vec = decode_sent(rec)
            if isinstance(vec, str):
                self.viol('C18:sync-interest-malformed', f'{ctx}: {vec}')
            elif nz(vec) != nz(self.m_local) or not set(vec) >= set(nz(self.m_local)):
                self.viol('C18:sync-interest-not-full-vector',
                          f'{ctx}: emitted vector {_show(vec)} but the local vector is {_show(self.m_local)}')
            if rec['signer'] is not self.signer:
                self.viol('C18:sync-interest-signer', f'{ctx}: sync Interest not signed with the configured signer')

    # -- receive
    def recv(self, kind):
        inst = self.inst
        entries = vector_entries(kind, self.L(), self.m_seq)
        name = sync_name(kind, entries)
        before_local = dict(inst.local_sv)
        before_state, before_agg, cb0, sent0 = inst.state, dict(inst.agg_sv), self.cb, len(self.app.sent)
        handler = self.app.handlers[Name.to_bytes(BASE)][0]
        raised = None
        try:
            handler(name, None, lambda *a, **k: True, {})
        except Exception as e:
            raised = e
        after_local = dict(inst.local_sv)
        ctx = f'recv {kind} {[(k, s) for k, s in entries]} with local {_show(before_local)}'
        # acceptable outcomes by the statement
        ignorable = kind in MALFORMED or kind in ('empty-vector', 'long-name')
        R_full = {IDB[k]: s for k, s in entries if k is not None and s is not None}
        defective_entry = any(k is None or s is None for k, s in entries)
        outcomes = []           # (effective vector or None when ignored)
        if ignorable or any(k == 's' and s is not None and s > self.m_seq for k, s in entries):
            outcomes = [None]
        elif defective_entry:
            outcomes = [None, R_full]
        else:
            outcomes = [R_full]
        if raised is not None:
            if any(s is None for _, s in entries):
                key = 'C18:entry-without-seqno'
            elif kind in MALFORMED:
                key = f'C18:malformed-vector-raises:{type(raised).__module__}.{type(raised).__name__}'.replace('builtins.', '')
            else:
                key = f'C18:sync-handler-raises:{type(raised).__name__}'
            partial = '' if nz(after_local) == nz(before_local) else f' after a partial merge (local now {_show(after_local)})'
            self.viol(key, f'{ctx}: sync handler raised {type(raised).__name__}: {raised}{partial} @ {where(raised)}')
        for bid, seq in before_local.items():
            if after_local.get(bid, 0) < seq:
                self.viol('C18:local-vector-decreased', f'{ctx}: entry {Name.to_str(bid)} went from {seq} to {after_local.get(bid, 0)}')
        matched = None
        for R in outcomes:
            if R is None:
                exp_local, exp_cb = nz(self.m_local), 0
            else:
                exp_local = nz({k: max(self.m_local.get(k, 0), R.get(k, 0)) for k in set(self.m_local) | set(R)})
                exp_cb = 1 if any(s > self.m_local.get(k, 0) for k, s in R.items()) else 0
            if nz(after_local) == exp_local and self.cb - cb0 == exp_cb:
                matched = (R, exp_local)
                break
        if matched is None:
            R = outcomes[-1]
            if R is None:
                exp_local, exp_cb, why = nz(self.m_local), 0, 'the vector must be ignored entirely'
            else:
                exp_local = nz({k: max(self.m_local.get(k, 0), R.get(k, 0)) for k in set(self.m_local) | set(R)})
                exp_cb = 1 if any(s > self.m_local.get(k, 0) for k, s in R.items()) else 0
                why = 'entry-wise maximum'
            if raised is None or not any(s is None for _, s in entries):
                if nz(after_local) != exp_local:
                    key = 'C18:ignored-vector-merged' if R is None else 'C18:merge-not-entrywise-max'
                    self.viol(key, f'{ctx}: local became {_show(after_local)}, expected {_show(exp_local)} ({why})')
                if self.cb - cb0 != exp_cb:
                    self.viol('C18:missing-data-callback-iff-raised',
                              f'{ctx}: callback fired {self.cb - cb0} time(s), expected {exp_cb}')
            # resynchronise the model with the instance so that later steps are judged on their own
            self.m_local = nz(after_local)
            R_eff = R
        else:
            R_eff, self.m_local = matched
        # suppression bookkeeping
        if R_eff is None:
            if raised is None and (inst.state != before_state or nz(inst.agg_sv) != nz(before_agg)):
                self.viol('C18:ignored-vector-changed-state', f'{ctx}: an ignored vector changed the suppression state')
        if inst.state == SvsState.SyncSuppression and raised is None:
            if before_state == SvsState.SyncSteady:
                self.heard = dict(R_eff or {})
                self.sup_elapsed = 0.0
                self.agg_diverged = False
            elif R_eff is not None:
                self.heard = {k: max(self.heard.get(k, 0), R_eff.get(k, 0)) for k in set(self.heard) | set(R_eff)}
            if nz(inst.agg_sv) != nz(self.heard) and not self.agg_diverged:
                self.agg_diverged = True       # report the first divergence of a period only; the rest follows from it
                bad = [k for k in set(inst.agg_sv) | set(self.heard) if inst.agg_sv.get(k, 0) != self.heard.get(k, 0)]
                if before_state == SvsState.SyncSteady:
                    self.viol('C18:suppression-start-aggregate-not-heard-vector',
                              f'{ctx}: this vector started a suppression period, so what was heard is {_show(self.heard)}, '
                              f'but the aggregate is {_show(inst.agg_sv)}')
                elif all(inst.agg_sv.get(k, 0) == inst.local_sv.get(k, 0) for k in bad):
                    self.agg_bug = True
                    self.viol('C18:aggregate-reads-local-vector',
                              f'{ctx}: vectors heard in this suppression period merge to {_show(self.heard)} but the aggregate is '
                              f'{_show(inst.agg_sv)} (the differing entries equal the local vector {_show(inst.local_sv)})')
                else:
                    self.viol('C18:aggregate-not-merge-of-heard',
                              f'{ctx}: heard {_show(self.heard)} but the aggregate is {_show(inst.agg_sv)}')
        elif inst.state == SvsState.SyncSteady and before_state == SvsState.SyncSuppression and raised is None:
            self.viol('C18:suppression-ended-by-receive', f'{ctx}: a received vector ended the suppression period')
        if len(self.app.sent) != sent0:
            self.check_emissions(self.app.sent[sent0:], ctx)

    # -- publish
    async def publish(self, times, then_hear=None):
        inst = self.inst
        sent0 = len(self.app.sent)
        for _ in range(times):
            old = inst.self_seq
            try:
                ret = inst.new_data()
            except Exception as e:
                self.viol(f'C18:publish-raises:{type(e).__name__}', f'new_data raised {e} @ {where(e)}')
                return
            self.m_seq += 1
            self.m_local[IDB['s']] = self.m_seq
            if ret != old + 1 or inst.self_seq != old + 1 or inst.self_seq != self.m_seq:
                self.viol('C18:publish-increments-by-one', f'publish: sequence number went {old} -> {inst.self_seq}, returned {ret}')
            if nz(inst.local_sv) != nz(self.m_local):
                self.viol('C18:publish-updates-own-entry', f'publish: local is {_show(inst.local_sv)}, expected {_show(self.m_local)}')
        if then_hear is not None:
            # a sync Interest is handled in the very loop turn of the publication, before the timer task has run
            self.recv(then_hear)
            if inst.state != SvsState.SyncSteady:
                # the vector showed the sender to be behind: the announcement waits for the suppression period (checked there)
                await self.settle()
                return
        t0 = self.loop.time()
        await self.settle()
        new = self.app.sent[sent0:]
        if self.loop.time() != t0 or not new:
            self.viol('C18:publish-emits-promptly', f'publish x{times}: {len(new)} sync Interest(s) emitted before any time passed')
        elif len(new) > times:
            self.viol('C18:publish-emits-promptly', f'publish x{times}: {len(new)} sync Interests emitted')
        if new:
            self.check_emissions(new[-1:], f'publish x{times}')
        self.heard = None       # a publication ends any suppression period (state is observed below)
        if inst.state != SvsState.SyncSteady:
            self.viol('C18:publish-leaves-suppression', 'publish: instance still in suppression after publishing')

    # -- virtual time
    async def tick(self, steps):
        inst = self.inst
        for _ in range(steps):
            s0, n0 = inst.state, len(self.app.sent)
            await asyncio.sleep(STEP)
            s1, new = inst.state, self.app.sent[n0:]
            ctx = f'timer step at t={self.loop.time() - 1000.0:.2f}'
            self.check_emissions(new, ctx)
            if len(new) > 1:
                self.viol('C18:timer-emits-more-than-once', f'{ctx}: {len(new)} sync Interests within {STEP} s')
            if nz(inst.local_sv) != nz(self.m_local):
                self.viol('C18:timer-changed-local-vector', f'{ctx}: local is {_show(inst.local_sv)}, expected {_show(self.m_local)}')
                self.m_local = nz(dict(inst.local_sv))
            if s0 == SvsState.SyncSuppression and s1 == SvsState.SyncSteady:
                heard = self.heard or {}
                need = any(seq > heard.get(k, 0) for k, seq in self.m_local.items())
                if need != (len(new) >= 1):
                    key = 'C18:aggregate-reads-local-vector' if self.agg_bug else 'C18:suppression-emit-iff-local-newer'
                    self.viol(key, f'{ctx}: suppression period over, local {_show(self.m_local)}, heard {_show(heard)}: '
                                   f'{"a" if need else "no"} sync Interest is required, {len(new)} emitted')
                self.heard = None
                self.agg_bug = False
            elif s0 == SvsState.SyncSuppression:
                self.sup_elapsed += STEP
                if new:
                    self.viol('C18:emission-during-suppression', f'{ctx}: sync Interest emitted while the suppression period is running')
                if self.sup_elapsed > 1.5 * SUP + STEP:
                    self.viol('C18:suppression-never-ends', f'{ctx}: still in suppression {self.sup_elapsed:.2f} s after it began')
                    self.sup_elapsed = -1e9
            elif s1 == SvsState.SyncSuppression:
                self.viol('C18:spurious-suppression', f'{ctx}: suppression entered without any received vector')

    async def stop(self):
        self.inst.stop()
        await self.settle()
        n0 = len(self.app.sent)
        await asyncio.sleep(3 * SYNC)
        if len(self.app.sent) != n0:
            self.viol('C18:emits-after-stop', 'sync Interest emitted after stop()')
        if self.inst.timer_task is not None and not self.inst.timer_task.done():
            self.viol('C18:timer-task-survives-stop', 'timer task still running after stop()')


def _show(d):
    names = {v: k for k, v in IDB.items()}
    return '{' + ', '.join(f'{names.get(k, k)}:{v}' for k, v in sorted(d.items(), key=lambda kv: names.get(kv[0], '~'))) + '}'


def run_case(case):
    lr = VirtualLoopRun()
    box = {}
    saved = (svs_sync.time, svs_sync.secrets)

    async def main():
        loop = asyncio.get_running_loop()
        svs_sync.time = _FakeTime(loop)
        svs_sync.secrets = _FakeSecrets
        c = Checked(loop)
        box['c'] = c
        await c.start()
        events = (list(PRELUDE) if case['start'] == 'populated' else []) + list(case['events'])
        for ev in events:
            if ev in TICKS:
                await c.tick(TICKS[ev])
            elif ev == 'pub':
                await c.publish(1)
            elif ev == 'pub2':
                await c.publish(2)
            elif ev.startswith('pub+'):
                await c.publish(1, then_hear=ev[4:])
            else:
                c.recv(ev)
                await c.settle()
        timer_task = c.inst.timer_task
        await c.stop()
        if timer_task is not None and not timer_task.done():
            c.viol('C18:timer-task-survives-stop', 'timer task still running after stop()')

    try:
        lr.run(main)
    finally:
        svs_sync.time, svs_sync.secrets = saved
    out = list(box['c'].v) if 'c' in box else []
    for u in lr.unhandled:
        out.append(('C18:unhandled-background-error', u))
    return out


# ---------------------------------------------------------------- cases
def cases(tier, rng):
    full_len = {'fresh': 3, 'populated': 3} if tier == 'quick' else {'fresh': 3, 'populated': 4}
    for start in ('fresh', 'populated'):
        for n in range(1, full_len[start] + 1):
            for evs in itertools.product(EVENTS, repeat=n):
                yield {'start': start, 'events': list(evs)}
    # directed: the suppression scenarios of the statement (outdated vector, then what is heard, then expiry)
    openers = ('older-a', 'older-all', 'self-behind', 'only-unknown', 'incomparable')
    for op in openers:
        for mid in itertools.product(VECTORS + ('pub',), repeat=2):
            yield {'start': 'populated', 'events': [op, mid[0], 'tick-short', mid[1], 'tick-sup']}
    # a publication and a received vector in the same loop turn (the announcement is owed promptly all the same)
    for start in ('fresh', 'populated'):
        for v in VECTORS:
            yield {'start': start, 'events': ['pub+' + v]}
            yield {'start': start, 'events': ['tick-short', 'pub+' + v, 'tick-short']}
            yield {'start': start, 'events': ['older-a', 'pub+' + v, 'tick-sup']}
    n_random = 6000 if tier == 'quick' else 120000
    max_len = 5 if tier == 'quick' else 6
    for _ in range(n_random):
        n = rng.randint(4, max_len)
        yield {'start': rng.choice(('fresh', 'populated')), 'events': [rng.choice(EVENTS) for _ in range(n)]}


def nontrivial(case):
    return any(e not in TICKS for e in case['events'])


def run(tier='quick', seed=0, shard=(0, 1)):
    rng = random.Random(seed * 1000)
    return drive(MODULE, cases(tier, rng), run_case, shard,
                 rule='event histories over {19 received-vector kinds (newer/older/equal/incomparable/unknown node/self ahead/self behind/'
                      'entry without seq_no or node id/undecodable/empty/wrong name length), publish, double publish, timer advance short/'
                      'past suppression/past periodic} from a fresh or populated instance: exhaustive up to a length, directed suppression '
                      'scenarios, random longer ones; non-trivial = contains a received vector or a publication; distinct by (start, events)',
                 bound=('exhaustive length <= 3 (fresh and populated)' if tier == 'quick' else 'exhaustive length <= 3 (fresh) / <= 4 (populated)')
                       + '; random histories up to length ' + ('5' if tier == 'quick' else '6') + '; 3 remote nodes; virtual clock, fixed timer jitter',
                 exhaustive=False, nontrivial=nontrivial)


def replay(rec):
    return replay_with(run_case, rec)
