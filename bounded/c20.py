"""C20 bounded stand-in: ndn.client_conf (read_client_conf, default_face, default_keychain) on real temp directories.

Every case builds a private directory tree under /var/tmp, points HOME into it (the Linux platform derives every
per-user path from HOME), re-roots the system-wide candidate paths of Platform().client_conf_paths() into the same
tree (the real method is still called; only the prefix of non-HOME paths is rewritten), sets/clears the three
NDN_CLIENT_* variables, writes 0..3 candidate configuration files and then calls the real functions.

Contracts (from the statement):
  post_value(key)     value used == environment override if present, else value in the FIRST existing configuration
                      file (if it has the key), else the platform default
  post_location(key)  store location: existing -> used as given; existing relative to the configuration file -> that
                      file's directory joined with it; otherwise -> the platform default location
  post_face           URI -> face type / address / port it denotes, default port 6363; unknown scheme -> ValueError
  post_keychain       default_keychain(pib, tpm) opens <pib location>/pib.db with a file TPM at <tpm location>;
                      unknown schemes -> ValueError
"""
import os
import random
import shutil

from ndn import client_conf
from ndn.platform import Platform
from ndn.security import KeychainSqlite3, TpmFile
from ndn.transport.stream_face import UnixFace, TcpFace
from ndn.transport.udp_face import UdpFace

from ._misc import drive, replay_with, tmpdir, where

MODULE = 'bounded.c20'
KEYS = ('transport', 'pib', 'tpm')
SCHEME = {'pib': 'pib-sqlite3', 'tpm': 'tpm-file'}
ENV_KINDS = (None, 'abs', 'abs-missing', 'rel-missing', 'none', 'empty')
FILE_KINDS = (None, 'abs', 'abs-missing', 'rel', 'rel-missing', 'none', 'empty')
FILE_SETS = ([], ['home'], ['etc'], ['home', 'etc'], ['usrlocal', 'etc'], ['home', 'usrlocal', 'optlocal', 'etc'], ['optlocal'])
SYS_CANDIDATE = {'usrlocal': '/usr/local/etc/ndn/client.conf', 'optlocal': '/opt/local/etc/ndn/client.conf',
                 'etc': '/etc/ndn/client.conf'}
CANDIDATE_ORDER = ('home', 'usrlocal', 'optlocal', 'etc')


# ---------------------------------------------------------------- world construction
class World:
    def __init__(self, root, case):
        self.root = root
        self.case = case
        self.home = os.path.join(root, 'home')
        self.sysroot = os.path.join(root, 'sys')
        self.cwd = os.path.join(root, 'cwd')
        self.stores = os.path.join(root, 'stores')
        for d in (self.home, self.sysroot, self.cwd, self.stores):
            os.makedirs(d)

    def candidate(self, which):
        if which == 'home':
            return os.path.join(self.home, '.ndn', 'client.conf')
        return self.sysroot + SYS_CANDIDATE[which]

    def loc_value(self, key, kind, source, conf_dir):
        """returns (text after the scheme, as written) and creates the directory when the kind says it exists"""
        if kind == 'abs':
            p = os.path.join(self.stores, f'{key}-{source}')
            os.makedirs(p, exist_ok=True)
            return ':' + p
        if kind == 'abs-missing':
            return ':' + os.path.join(self.stores, f'{key}-{source}-missing')
        if kind == 'rel':
            os.makedirs(os.path.join(conf_dir, f'rel-{key}', 'store'), exist_ok=True)
            return ':' + os.path.join(f'rel-{key}', 'store')
        if kind == 'rel-missing':
            return ':' + os.path.join(f'nosuch-{key}', 'store')
        if kind == 'colon':
            p = os.path.join(self.stores, f'{key}:{source}')
            os.makedirs(p, exist_ok=True)
            return ':' + p
        if kind == 'empty':
            return ':'
        if kind == 'none':
            return ''
        raise ValueError(kind)


def _file_text(style, items):
    lines = []
    if style >= 1:
        lines += ['; client configuration', '# another comment style', '']
    for k, v in items:
        if style == 2:
            lines.append(f'{k} = {v}')
            lines.append('; tpm=tpm-file:/commented/out')
            lines.append('')
        else:
            lines.append(f'{k}={v}')
    if style == 1:
        lines.append('; transport=tcp://commented-out:1')
        lines.append('unrelated_key=1')
    return '\n'.join(lines) + '\n'


def build(world, case):
    """creates the tree; returns (env dict, expected dict, description of which source wins)"""
    w = world
    files = [f for f in CANDIDATE_ORDER if f in case['files']]
    if case['pib_default'] or 'home' in files or case['tpm_default']:
        os.makedirs(os.path.join(w.home, '.ndn'), exist_ok=True)
    if case['tpm_default']:
        os.makedirs(os.path.join(w.home, '.ndn', 'ndnsec-key-file'), exist_ok=True)
    first = files[0] if files else None
    conf_path = w.candidate(first) if first else None
    conf_dir = os.path.dirname(conf_path) if conf_path else None
    raw = {}
    # files
    for i, f in enumerate(files):
        p = w.candidate(f)
        os.makedirs(os.path.dirname(p), exist_ok=True)
        items = []
        if i == 0:
            fk = case['first']
            if fk['transport']:
                raw['transport'] = 'udp://file-host:7002'
                items.append(('transport', raw['transport']))
            for key in ('pib', 'tpm'):
                if fk[key] is not None:
                    raw[key] = SCHEME[key] + w.loc_value(key, fk[key], 'file', conf_dir)
                    items.append((key, raw[key]))
        else:
            # later candidates define everything with other (existing) values: they must never be consulted
            items.append(('transport', f'tcp4://later-{f}:7003'))
            for key in ('pib', 'tpm'):
                d = os.path.join(w.stores, f'{key}-later-{f}')
                os.makedirs(d, exist_ok=True)
                items.append((key, f'{SCHEME[key]}:{d}'))
        with open(p, 'w') as fh:
            fh.write(_file_text(case['style'], items))
    world.raw_file = dict(raw)          # what the file alone says (for the second read of run_case)
    # environment
    env = {}
    ek = case['env']
    # 'blank': the variable is present with an empty value (export NDN_CLIENT_X=): present, so it is the override
    if ek['transport']:
        env['NDN_CLIENT_TRANSPORT'] = raw['transport'] = '' if ek['transport'] == 'blank' else 'tcp://env-host:7001'
    for key in ('pib', 'tpm'):
        if ek[key] == 'blank':
            env[f'NDN_CLIENT_{key.upper()}'] = raw[key] = ''
        elif ek[key] is not None:
            env[f'NDN_CLIENT_{key.upper()}'] = raw[key] = SCHEME[key] + w.loc_value(key, ek[key], 'env', conf_dir)
    if case.get('cwd_rel'):
        for key in ('pib', 'tpm'):
            os.makedirs(os.path.join(w.cwd, f'nosuch-{key}', 'store'), exist_ok=True)
    return env, raw, conf_path


class Redirect:
    """HOME / NDN_CLIENT_* / cwd / system candidate paths redirected into the world; restored on exit"""

    def __init__(self, world, env):
        self.w = world
        self.env = env

    def __enter__(self):
        self.saved_env = dict(os.environ)
        self.saved_cwd = os.getcwd()
        for k in list(os.environ):
            if k.startswith('NDN_CLIENT_'):
                del os.environ[k]
        os.environ['HOME'] = self.w.home
        os.environ.update(self.env)
        os.chdir(self.w.cwd)
        inst = Platform()
        real = type(inst).client_conf_paths
        home, sysroot = self.w.home, self.w.sysroot

        def rerooted():
            return [p if p.startswith(home + os.sep) else sysroot + p for p in real(inst)]
        inst.client_conf_paths = rerooted
        self.inst = inst
        return self

    def __exit__(self, *a):
        del self.inst.client_conf_paths
        os.chdir(self.saved_cwd)
        os.environ.clear()
        os.environ.update(self.saved_env)


# ---------------------------------------------------------------- contracts
def expected_conf(world, case, raw, conf_path):
    """the statement, evaluated inside the redirected world"""
    plat = Platform()
    exp = {'transport': raw.get('transport', plat.default_transport())}
    notes = {}
    for key in ('pib', 'tpm'):
        value = raw.get(key, plat.default_pib_scheme() if key == 'pib' else plat.default_tpm_scheme())
        scheme, _, loc = value.partition(':')
        defaults = plat.default_pib_paths() if key == 'pib' else plat.default_tpm_paths()
        if loc and os.path.exists(loc):
            exp[key] = f'{scheme}:{loc}'
            notes[key] = 'given'
        elif loc and conf_path and os.path.exists(os.path.join(os.path.dirname(conf_path), loc)):
            exp[key] = f'{scheme}:{os.path.join(os.path.dirname(conf_path), loc)}'
            notes[key] = 'relative'
        else:
            exp[key] = f'{scheme}:{os.path.expandvars(defaults[0])}'
            notes[key] = 'fallback-missing-given' if loc else 'fallback-none-given'
            if not os.path.exists(os.path.expandvars(defaults[0])):
                notes[key] += '+default-dir-absent'
    return exp, notes


def post_conf(case, got, exp, notes):
    out = []
    if isinstance(got, Exception):
        kinds = [case['env'].get(k) for k in ('pib', 'tpm')] + [case['first'].get(k) for k in ('pib', 'tpm')]
        key = 'C20:location-with-colon' if 'colon' in kinds else f'C20:read-client-conf-raises:{type(got).__name__}'
        return [(key, f'read_client_conf raised {type(got).__name__}: {got} @ {where(got)}; expected {exp}')]
    if set(got) != set(KEYS):
        out.append(('C20:result-keys', f'read_client_conf returned keys {sorted(got)}'))
    if got.get('transport') != exp['transport']:
        out.append(('C20:transport-precedence', f"transport is {got.get('transport')!r}, the statement gives {exp['transport']!r}"))
    for key in ('pib', 'tpm'):
        if got.get(key) == exp[key]:
            continue
        note = notes[key]
        if note.endswith('+default-dir-absent'):
            if note.startswith('fallback-none-given'):
                k = f'C20:missing-{key}-dir-empty-location'
            else:
                k = 'C20:missing-default-dir-keeps-missing-location'
            what = (f"{key}: nothing usable was given and the platform default directory does not exist yet; the statement says the "
                    f"platform default location {exp[key]!r} is used, got {got.get(key)!r}")
        else:
            k = f'C20:{key}-{note}'
            what = f'{key} is {got.get(key)!r}, the statement gives {exp[key]!r} ({note})'
        out.append((k, what))
    return out


def face_desc(face):
    if isinstance(face, UnixFace):
        return ['unix', face.path]
    if isinstance(face, TcpFace):
        return ['tcp', str(face.host).lower(), face.port]
    if isinstance(face, UdpFace):
        return ['udp', str(face.host).lower(), face.port]
    return ['other', type(face).__name__]


def post_face(uri, expect):
    try:
        face = client_conf.default_face(uri)
        got = face_desc(face)
    except ValueError:
        got = 'error'
    except Exception as e:
        return [('C20:face-unexpected-exception', f'default_face({uri!r}) raised {type(e).__name__}: {e} @ {where(e)}')]
    if got != expect:
        k = 'C20:face-unknown-scheme-not-refused' if expect == 'error' else 'C20:face-uri-mismatch'
        return [(k, f'default_face({uri!r}) gave {got}, the URI denotes {expect}')]
    return []


_TEMPLATE = {}


def _template_pib(root):
    if root not in _TEMPLATE:
        p = os.path.join(root, 'template-pib.db')
        if not os.path.exists(p):
            KeychainSqlite3.initialize(p, 'tpm-file', os.path.join(root, 'template-tpm'))
        _TEMPLATE[root] = p
    return _TEMPLATE[root]


def post_keychain(pib, tpm, base):
    """default_keychain on resolved values whose directories exist"""
    out = []
    pib_loc = pib.partition(':')[2]
    tpm_loc = tpm.partition(':')[2]
    if not (pib_loc and os.path.isdir(pib_loc) and tpm_loc and os.path.isdir(tpm_loc)):
        return out
    if pib.partition(':')[0] != 'pib-sqlite3' or tpm.partition(':')[0] != 'tpm-file':
        # an override without a (known) scheme, e.g. a variable that is present but empty: refused, not silently replaced
        try:
            kc = client_conf.default_keychain(pib, tpm)
            kc.shutdown()
            out.append(('C20:default-keychain-unknown-scheme', f'default_keychain({pib!r}, {tpm!r}) did not fail'))
        except ValueError:
            pass
        except Exception as e:
            out.append(('C20:default-keychain-unknown-scheme', f'default_keychain({pib!r}, {tpm!r}) raised {type(e).__name__}: {e}'))
        return out
    shutil.copy(_template_pib(base), os.path.join(pib_loc, 'pib.db'))
    try:
        kc = client_conf.default_keychain(pib, tpm)
    except Exception as e:
        return [('C20:default-keychain-raises', f'default_keychain({pib!r}, {tpm!r}) raised {type(e).__name__}: {e} @ {where(e)}')]
    try:
        if not isinstance(kc, KeychainSqlite3) or os.path.abspath(kc.path) != os.path.join(os.path.abspath(pib_loc), 'pib.db'):
            out.append(('C20:default-keychain-pib-path', f'keychain for {pib!r} is {type(kc).__name__} at {getattr(kc, "path", None)!r}'))
        if not isinstance(kc.tpm, TpmFile) or os.path.abspath(kc.tpm.path) != os.path.abspath(tpm_loc):
            out.append(('C20:default-keychain-tpm-path', f'private-key store for {tpm!r} is {type(kc.tpm).__name__} at {getattr(kc.tpm, "path", None)!r}'))
        # a second keychain for the SAME public store with ANOTHER private-key store, while the first is still open
        other_tpm_loc = os.path.join(os.path.dirname(os.path.abspath(tpm_loc)), 'other-tpm-' + os.path.basename(tpm_loc.rstrip('/')))
        os.makedirs(other_tpm_loc, exist_ok=True)
        try:
            kc2 = client_conf.default_keychain(pib, 'tpm-file:' + other_tpm_loc)
            try:
                if not isinstance(kc2.tpm, TpmFile) or os.path.abspath(kc2.tpm.path) != os.path.abspath(other_tpm_loc):
                    out.append(('C20:default-keychain-tpm-path', f'second keychain on {pib!r} asked for the private-key store '
                                                                  f'{other_tpm_loc!r} uses {getattr(kc2.tpm, "path", None)!r}'))
            finally:
                if kc2 is not kc:
                    kc2.shutdown()
        except Exception as e:
            out.append(('C20:default-keychain-raises', f'second default_keychain on {pib!r} raised {type(e).__name__}: {e}'))
        # ... and with an unknown private-key store scheme: refused although the same public store is already open
        try:
            kc3 = client_conf.default_keychain(pib, 'tpm-unknown:' + other_tpm_loc)
            if kc3 is not kc:
                kc3.shutdown()
            out.append(('C20:default-keychain-unknown-scheme', f'default_keychain({pib!r}, tpm-unknown:...) did not fail while another keychain on that store is open'))
        except ValueError:
            pass
        except Exception as e:
            out.append(('C20:default-keychain-unknown-scheme', f'default_keychain with an unknown tpm scheme raised {type(e).__name__}: {e}'))
    finally:
        kc.shutdown()
    for bad_pib, bad_tpm in ((pib.replace('pib-sqlite3', 'pib-memory'), tpm), (pib, tpm.replace('tpm-file', 'tpm-unknown'))):
        try:
            kc = client_conf.default_keychain(bad_pib, bad_tpm)
            kc.shutdown()
            out.append(('C20:default-keychain-unknown-scheme', f'default_keychain({bad_pib!r}, {bad_tpm!r}) did not fail'))
        except ValueError:
            pass
        except Exception as e:
            out.append(('C20:default-keychain-unknown-scheme', f'default_keychain({bad_pib!r}, {bad_tpm!r}) raised {type(e).__name__}: {e}'))
    return out


# ---------------------------------------------------------------- case execution
_BASE = {}


def _base_dir():
    pid = os.getpid()
    if pid not in _BASE:
        _BASE[pid] = tmpdir('c20-')
    return _BASE[pid].name


def run_case(case):
    if case['family'] == 'face':
        return post_face(case['uri'], case['expect'])
    base = _base_dir()
    root = os.path.join(base, 'case')
    if os.path.exists(root):
        shutil.rmtree(root)
    os.makedirs(root)
    world = World(root, case)
    try:
        env, raw, conf_path = build(world, case)
        with Redirect(world, env):
            exp, notes = expected_conf(world, case, raw, conf_path)
            try:
                got = client_conf.read_client_conf()
            except Exception as e:
                got = e
            out = post_conf(case, got, exp, notes)
            if not isinstance(got, Exception):
                if got.get('transport') == exp['transport']:
                    out += post_face(got['transport'], _uri_expect(got['transport']))
                if got.get('pib') == exp['pib'] and got.get('tpm') == exp['tpm']:
                    out += post_keychain(got['pib'], got['tpm'], base)
            # never a first use only: the SAME process reads again after the environment changed (overrides withdrawn, or a
            # transport override added when there was none); nothing of the first read may survive in the second
            if not isinstance(got, Exception):
                had_env = any(k.startswith('NDN_CLIENT_') for k in os.environ)
                raw2 = dict(world.raw_file)
                for k in list(os.environ):
                    if k.startswith('NDN_CLIENT_'):
                        del os.environ[k]
                if not had_env:
                    os.environ['NDN_CLIENT_TRANSPORT'] = raw2['transport'] = 'tcp://env-host-2:7009'
                exp2, notes2 = expected_conf(world, case, raw2, conf_path)
                try:
                    got2 = client_conf.read_client_conf()
                except Exception as e:
                    got2 = e
                what2 = 'after the overrides were withdrawn' if had_env else 'after a transport override was added'
                out += [(k + ':second-read', f'second read in the same process {what2}: {w}') for k, w in post_conf(case, got2, exp2, notes2)]
        return out
    finally:
        shutil.rmtree(root, ignore_errors=True)


# ---------------------------------------------------------------- URI cases
def _uri_expect(uri):
    """independent reading of the URI (no urlparse): scheme://host[:port] / unix://path"""
    if '://' not in uri:
        return 'error'
    scheme, rest = uri.split('://', 1)
    scheme = scheme.lower()
    if scheme == 'unix':
        return ['unix', rest]
    if scheme not in ('tcp', 'tcp4', 'tcp6', 'udp', 'udp4', 'udp6'):
        return 'error'
    rest = rest.split('/', 1)[0]
    if rest.startswith('['):
        host, _, tail = rest[1:].partition(']')
        port = tail[1:] if tail.startswith(':') else ''
    else:
        host, _, port = rest.partition(':')
    return [scheme[:3], host.lower(), int(port) if port else 6363]


def face_cases():
    hosts = ('localhost', '192.0.2.7', 'Router.Example.NET', '[2001:db8::1]', '[::1]')
    ports = ('', ':1', ':6363', ':6364', ':65535')
    for scheme in ('tcp', 'tcp4', 'tcp6', 'udp', 'udp4', 'udp6', 'TCP', 'Udp4'):
        for h in hosts:
            for p in ports:
                uri = f'{scheme}://{h}{p}'
                yield dict(family='face', uri=uri, expect=_uri_expect(uri))
    for path in ('/run/nfd/nfd.sock', '/run/nfd.sock', '/var/run/nfd.sock', '/tmp/my face.sock', '/a/b/c/d.sock'):
        yield dict(family='face', uri='unix://' + path, expect=['unix', path])
    for uri in ('ws://localhost:9696', 'wss://example.net/ws', 'http://localhost:6363', 'https://h', 'ether://eth0', 'dev://eth0',
                'fd://3', 'tcp7://localhost:6363', 'udp5://localhost', 'unixx:///run/nfd.sock', 'ftp://h:21', 'quic://h:6367',
                'memif:///run/ndn/x.sock', 'tcp', 'localhost:6363', '', 'nfd', '://localhost', 'tcp-tls://h:1', 'sctp://h'):
        yield dict(family='face', uri=uri, expect='error')
    # near misses of the seven supported schemes: extra / doubled / reordered family digits, prefixes, suffixes
    known = ('unix', 'tcp', 'tcp4', 'tcp6', 'udp', 'udp4', 'udp6')
    near = set()
    for base in known:
        for suf in ('4', '6', '46', '64', '44', '66', '444', '0', '5', 's', 'x', '4x', '.4', '+4'):
            near.add(base + suf)
        for pre in ('x', '4', 's', 't'):
            near.add(pre + base)
        near.add(base[:-1])
        near.add(base[1:])
    for scheme in sorted(near - set(known)):
        for rest in ('localhost:6363', '192.0.2.7', '/run/nfd/nfd.sock'):
            uri = f'{scheme}://{rest}'
            yield dict(family='face', uri=uri, expect=_uri_expect(uri))


def _conf_case(env, files, first, style, pib_default, tpm_default, cwd_rel=False):
    if 'home' in files:
        pib_default = True
    return dict(family='conf', env=env, files=list(files), first=first, style=style, pib_default=pib_default,
                tpm_default=tpm_default, cwd_rel=cwd_rel)


def conf_cases(tier, rng):
    def rnd_env():
        return {'transport': rng.random() < 0.5, 'pib': rng.choice(ENV_KINDS), 'tpm': rng.choice(ENV_KINDS)}

    def rnd_first():
        return {'transport': rng.random() < 0.5, 'pib': rng.choice(FILE_KINDS), 'tpm': rng.choice(FILE_KINDS)}
    # A. all 2^3 presence combinations of the environment variables x candidate-file sets x 2^3 key subsets of the first file
    for em in range(8):
        for files in FILE_SETS:
            for fm in range(8):
                env = {'transport': bool(em & 1), 'pib': 'abs' if em & 2 else None, 'tpm': 'abs' if em & 4 else None}
                first = {'transport': bool(fm & 1), 'pib': 'abs' if fm & 2 else None, 'tpm': 'abs' if fm & 4 else None}
                yield _conf_case(env, files, first, (em + fm) % 3, True, True)
    # B. per store setting: every (environment kind x file kind x file set x default-directory existence), other dimensions drawn
    for key in ('pib', 'tpm'):
        for ek in ENV_KINDS:
            for fk in FILE_KINDS:
                for files in FILE_SETS:
                    for pd in (True, False):
                        for td in (True, False):
                            env, first = rnd_env(), rnd_first()
                            env[key], first[key] = ek, fk
                            yield _conf_case(env, files, first, rng.randrange(3), pd, td, cwd_rel=rng.random() < 0.15)
    # B2. variables that are present but empty, over every file set and first-file key subset
    for bm in range(1, 8):
        for files in FILE_SETS:
            for fm in (0, 7, bm):
                env = {'transport': 'blank' if bm & 1 else False, 'pib': 'blank' if bm & 2 else None, 'tpm': 'blank' if bm & 4 else None}
                first = {'transport': bool(fm & 1), 'pib': 'abs' if fm & 2 else None, 'tpm': 'abs' if fm & 4 else None}
                yield _conf_case(env, files, first, bm % 3, True, True)
    # C. a location that exists but contains a colon
    for key in ('pib', 'tpm'):
        for src in ('env', 'file'):
            env = {'transport': False, 'pib': None, 'tpm': None}
            first = {'transport': True, 'pib': None, 'tpm': None}
            (env if src == 'env' else first)[key] = 'colon'
            yield _conf_case(env, ['home'], first, 0, True, True)
    # D. random fill
    for _ in range(1500 if tier == 'quick' else 40000):
        yield _conf_case(rnd_env(), rng.choice(FILE_SETS), rnd_first(), rng.randrange(3), rng.random() < 0.7, rng.random() < 0.7,
                         cwd_rel=rng.random() < 0.15)


def cases(tier, rng):
    yield from face_cases()
    yield from conf_cases(tier, rng)


def nontrivial(case):
    if case['family'] == 'face':
        return True
    return bool(case['files']) or any(v for v in case['env'].values())


def run(tier='quick', seed=0, shard=(0, 1)):
    rng = random.Random(seed * 1000)     # identical case list in every shard; shards take index % n
    try:
        return drive(MODULE, cases(tier, rng), run_case, shard,
                     rule='real directory trees: 2^3 environment presence x candidate-file sets (first existing wins, later ones carry decoy values) '
                          'x 2^3 key subsets x location kinds {existing absolute, missing absolute, relative to the file (existing/missing), none, empty} '
                          'per source x default-directory existence x comment styles; plus transport URIs (8 scheme spellings x 5 hosts x 5 ports, '
                          '5 unix paths, 20 unsupported); non-trivial = some file or environment variable present, or a URI case; distinct by case tuple',
                     bound='Linux platform paths under a redirected HOME; one configuration layout per case; URIs without user-info/query parts',
                     exhaustive=False, nontrivial=nontrivial)
    finally:
        t = _BASE.pop(os.getpid(), None)
        if t is not None:
            _TEMPLATE.pop(t.name, None)
            t.cleanup()


def replay(rec):
    try:
        return replay_with(run_case, rec)
    finally:
        t = _BASE.pop(os.getpid(), None)
        if t is not None:
            _TEMPLATE.pop(t.name, None)
            t.cleanup()
