"""Shared helpers for the bounded stand-ins c01 / c02 / c16.

Contents
* an INDEPENDENT strict TLV walker / encoder written from the NDN packet format 0.3 (never calls the library's
  decoder): var-numbers in shortest form, every element inside its parent, children tile the parent exactly,
  recognised elements once and in order;  walk_data / walk_interest return the fields, the NDN-specified signed
  portion and the parameters-digest range as byte offsets into the wire;
* fixed test keys (generated once, embedded, imported once per process) and a signer / verifier factory for all
  shipped signers + synthetic signers (ShrinkSigner, RecordingSigner);
* small utilities shared by the drivers (violation collector, async runner).
"""
import asyncio
import base64
import hashlib
import json
import struct

from Cryptodome.Hash import SHA256, HMAC
from Cryptodome.PublicKey import RSA, ECC
from Cryptodome.Signature import DSS, pkcs1_15, eddsa

from ndn.encoding import Signer, KeyLocator, DecodeError

# --------------------------------------------------------------------------------------------------------------
# independent TLV layer
# --------------------------------------------------------------------------------------------------------------

T_INTEREST, T_DATA, T_NAME = 0x05, 0x06, 0x07
T_IMPLICIT, T_PARAMS = 0x01, 0x02
T_CBP, T_MBF, T_FH, T_NONCE, T_LIFETIME, T_HOP, T_APP, T_ISIGINFO, T_ISIGVAL = 0x21, 0x12, 0x1e, 0x0a, 0x0c, 0x22, 0x24, 0x2c, 0x2e
T_META, T_CONTENT, T_SIGINFO, T_SIGVAL = 0x14, 0x15, 0x16, 0x17
T_CTYPE, T_FRESH, T_FBI = 0x18, 0x19, 0x1a
T_SIGTYPE, T_KL, T_KDIGEST, T_SIGNONCE, T_SIGTIME, T_SIGSEQ = 0x1b, 0x1c, 0x1d, 0x26, 0x28, 0x2a
T_VALIDITY, T_NOTBEFORE, T_NOTAFTER, T_ADDDESC = 0xFD, 0xFE, 0xFF, 0x0102
T_UNKNOWN_NONCRIT = 0xF0     # even, > 31, not used by any model here


class Malformed(Exception):
    """the byte string is not a well-formed packet under the strict reading of the NDN packet format"""
    overrun = False


class Overrun(Malformed):
    """an element's declared length runs past the end of its parent"""
    overrun = True


def enc_var(n: int) -> bytes:
    if n < 0:
        raise ValueError(n)
    if n <= 0xFC:
        return bytes([n])
    if n <= 0xFFFF:
        return b'\xfd' + n.to_bytes(2, 'big')
    if n <= 0xFFFFFFFF:
        return b'\xfe' + n.to_bytes(4, 'big')
    return b'\xff' + n.to_bytes(8, 'big')


def var_size(n: int) -> int:
    return 1 if n <= 0xFC else 3 if n <= 0xFFFF else 5 if n <= 0xFFFFFFFF else 9


def enc_tlv(t: int, v: bytes) -> bytes:
    return enc_var(t) + enc_var(len(v)) + bytes(v)


def enc_nni(n: int) -> bytes:
    if n <= 0xFF:
        return bytes([n])
    if n <= 0xFFFF:
        return n.to_bytes(2, 'big')
    if n <= 0xFFFFFFFF:
        return n.to_bytes(4, 'big')
    return n.to_bytes(8, 'big')


def rd_var(buf, off: int, end: int):
    """strict var-number: inside [off,end), shortest form"""
    if off >= end:
        raise Malformed(f'var-number at {off} starts beyond its parent (end {end})')
    b = buf[off]
    if b <= 0xFC:
        return b, 1
    n = {0xFD: 2, 0xFE: 4, 0xFF: 8}[b]
    if off + 1 + n > end:
        raise Overrun(f'var-number at {off} runs past its parent')
    v = int.from_bytes(bytes(buf[off + 1:off + 1 + n]), 'big')
    if var_size(v) != 1 + n:
        raise Malformed(f'var-number {v} at {off} is not in shortest form ({1 + n} bytes)')
    return v, 1 + n


def rd_elem(buf, off: int, end: int):
    """-> (typ, value_start, value_end); the element lies entirely inside [off,end)"""
    t, ts = rd_var(buf, off, end)
    ln, ls = rd_var(buf, off + ts, end)
    vo = off + ts + ls
    if vo + ln > end:
        raise Overrun(f'element type {t} at {off}: declared length {ln} overruns its parent (end {end})')
    if t == 0:
        raise Malformed(f'element at {off} has type 0')
    return t, vo, vo + ln


def kids(buf, off: int, end: int):
    """children of a container value [off,end): list of (typ, elem_start, value_start, value_end); they tile exactly"""
    out = []
    while off < end:
        t, vo, ve = rd_elem(buf, off, end)
        out.append((t, off, vo, ve))
        off = ve
    if off != end:
        raise Malformed('children do not tile the parent')
    return out


def rd_nni(buf, vo: int, ve: int) -> int:
    if ve - vo not in (1, 2, 4, 8):
        raise Malformed(f'non-negative integer of width {ve - vo}')
    return int.from_bytes(bytes(buf[vo:ve]), 'big')


def is_critical(t: int) -> bool:
    return t <= 31 or (t & 1) == 1


def walk_name(buf, vo: int, ve: int):
    """-> list of (typ, comp_start, value_start, comp_end)"""
    comps = []
    for t, st, cvo, cve in kids(buf, vo, ve):
        if not (1 <= t <= 65535):
            raise Malformed(f'name component type {t} out of range')
        if t in (T_IMPLICIT, T_PARAMS) and cve - cvo != 32:
            raise Malformed(f'digest component type {t} has length {cve - cvo}')
        comps.append((t, st, cvo, cve))
    return comps


def _ordered(children, order, strict, what):
    """match children against the ordered list of recognised types (each at most once, in order).
    strict: nothing unrecognised at all; lenient: unrecognised non-critical elements are skipped.
    -> dict typ -> (elem_start, value_start, value_end)"""
    found = {}
    pos = 0
    for t, st, vo, ve in children:
        if t in order[pos:]:
            pos = order.index(t, pos) + 1
            found[t] = (st, vo, ve)
        elif t in order:
            raise Malformed(f'{what}: element type {t:#x} duplicated or out of order')
        elif strict:
            raise Malformed(f'{what}: unexpected element type {t:#x}')
        elif is_critical(t):
            raise Malformed(f'{what}: unrecognised critical element type {t:#x}')
    return found


def walk_siginfo(buf, vo, ve, interest: bool, strict: bool, cert: bool = False):
    order = [T_SIGTYPE, T_KL]
    if interest:
        order += [T_SIGNONCE, T_SIGTIME, T_SIGSEQ]
    if cert or not strict:
        order += [T_VALIDITY, T_ADDDESC] if not interest else []
    f = _ordered(kids(buf, vo, ve), order, strict, 'SignatureInfo')
    if T_SIGTYPE not in f:
        raise Malformed('SignatureInfo without SignatureType')
    info = {'sig_type': rd_nni(buf, *f[T_SIGTYPE][1:]), 'kl_name': None, 'kl_digest': None,
            'nonce': None, 'time': None, 'seq': None, 'not_before': None, 'not_after': None}
    if T_KL in f:
        kl = kids(buf, *f[T_KL][1:])
        if len(kl) != 1 or kl[0][0] not in (T_NAME, T_KDIGEST):
            if strict or not kl:
                raise Malformed('KeyLocator must hold exactly one Name or KeyDigest')
        if kl[0][0] == T_NAME:
            info['kl_name'] = [bytes(buf[c[1]:c[3]]) for c in walk_name(buf, kl[0][2], kl[0][3])]
        elif kl[0][0] == T_KDIGEST:
            info['kl_digest'] = bytes(buf[kl[0][2]:kl[0][3]])
    for t, k in ((T_SIGNONCE, 'nonce'), (T_SIGTIME, 'time'), (T_SIGSEQ, 'seq')):
        if t in f:
            info[k] = bytes(buf[f[t][1]:f[t][2]]) if t == T_SIGNONCE else rd_nni(buf, *f[t][1:])
    if T_VALIDITY in f:
        vf = _ordered(kids(buf, *f[T_VALIDITY][1:]), [T_NOTBEFORE, T_NOTAFTER], strict, 'ValidityPeriod')
        if T_NOTBEFORE not in vf or T_NOTAFTER not in vf:
            raise Malformed('ValidityPeriod needs NotBefore and NotAfter')
        info['not_before'] = bytes(buf[vf[T_NOTBEFORE][1]:vf[T_NOTBEFORE][2]])
        info['not_after'] = bytes(buf[vf[T_NOTAFTER][1]:vf[T_NOTAFTER][2]])
    return info


def _outer(wire, typ):
    n = len(wire)
    t, vo, ve = rd_elem(wire, 0, n)
    if t != typ:
        raise Malformed(f'outer type {t} != {typ}')
    if ve != n:
        raise Malformed(f'outer element ends at {ve}, wire has {n} bytes (not exactly one element)')
    return vo, ve


def walk_data(wire, strict: bool = True, cert: bool = False) -> dict:
    """Strict reading of a Data packet.  strict=True is for packets EMITTED by the library (nothing unrecognised,
    SignatureInfo/SignatureValue both or neither); strict=False tolerates unrecognised non-critical elements."""
    wire = bytes(wire)
    vo, ve = _outer(wire, T_DATA)
    f = _ordered(kids(wire, vo, ve), [T_NAME, T_META, T_CONTENT, T_SIGINFO, T_SIGVAL], strict, 'Data')
    if T_NAME not in f:
        raise Malformed('Data without Name')
    r = {'kind': 'data', 'wire': wire, 'value': (vo, ve), 'elems': f}
    comps = walk_name(wire, *f[T_NAME][1:])
    r['name'] = [wire[c[1]:c[3]] for c in comps]
    r['meta'] = None
    if T_META in f:
        mf = _ordered(kids(wire, *f[T_META][1:]), [T_CTYPE, T_FRESH, T_FBI], strict, 'MetaInfo')
        r['meta'] = {'content_type': rd_nni(wire, *mf[T_CTYPE][1:]) if T_CTYPE in mf else None,
                     'freshness_period': rd_nni(wire, *mf[T_FRESH][1:]) if T_FRESH in mf else None,
                     'final_block_id': wire[mf[T_FBI][1]:mf[T_FBI][2]] if T_FBI in mf else None}
    r['content'] = wire[f[T_CONTENT][1]:f[T_CONTENT][2]] if T_CONTENT in f else None
    r['siginfo'] = walk_siginfo(wire, *f[T_SIGINFO][1:], interest=False, strict=strict, cert=cert) if T_SIGINFO in f else None
    r['sigvalue_range'] = f[T_SIGVAL][1:] if T_SIGVAL in f else None
    r['sigvalue'] = wire[f[T_SIGVAL][1]:f[T_SIGVAL][2]] if T_SIGVAL in f else None
    if strict and (T_SIGINFO in f) != (T_SIGVAL in f):
        raise Malformed('SignatureInfo and SignatureValue must come together')
    # NDN: the signature covers Name through SignatureInfo == everything from the start of the Name element up to
    # the start of the SignatureValue element
    r['signed_ranges'] = [(f[T_NAME][0], f[T_SIGVAL][0])] if T_SIGVAL in f else []
    return r


def walk_interest(wire, strict: bool = True) -> dict:
    wire = bytes(wire)
    vo, ve = _outer(wire, T_INTEREST)
    f = _ordered(kids(wire, vo, ve),
                 [T_NAME, T_CBP, T_MBF, T_FH, T_NONCE, T_LIFETIME, T_HOP, T_APP, T_ISIGINFO, T_ISIGVAL], strict, 'Interest')
    if T_NAME not in f:
        raise Malformed('Interest without Name')
    r = {'kind': 'interest', 'wire': wire, 'value': (vo, ve), 'elems': f}
    comps = walk_name(wire, *f[T_NAME][1:])
    r['name'] = [wire[c[1]:c[3]] for c in comps]
    for t, k in ((T_CBP, 'can_be_prefix'), (T_MBF, 'must_be_fresh')):
        r[k] = t in f
        if t in f and f[t][2] != f[t][1]:
            raise Malformed(f'{k} must have length 0')
    r['forwarding_hint'] = []
    if T_FH in f:
        for t, st, nvo, nve in kids(wire, *f[T_FH][1:]):
            if t != T_NAME:
                raise Malformed('ForwardingHint holds Names')
            r['forwarding_hint'].append([wire[c[1]:c[3]] for c in walk_name(wire, nvo, nve)])
        if not r['forwarding_hint']:
            raise Malformed('empty ForwardingHint')
    r['nonce'] = None
    if T_NONCE in f:
        if f[T_NONCE][2] - f[T_NONCE][1] != 4:
            raise Malformed('Nonce must be 4 bytes')
        r['nonce'] = int.from_bytes(wire[f[T_NONCE][1]:f[T_NONCE][2]], 'big')
    r['lifetime'] = rd_nni(wire, *f[T_LIFETIME][1:]) if T_LIFETIME in f else None
    r['hop_limit'] = None
    if T_HOP in f:
        if f[T_HOP][2] - f[T_HOP][1] != 1:
            raise Malformed('HopLimit must be 1 byte')
        r['hop_limit'] = wire[f[T_HOP][1]]
    r['app_param'] = wire[f[T_APP][1]:f[T_APP][2]] if T_APP in f else None
    r['siginfo'] = walk_siginfo(wire, *f[T_ISIGINFO][1:], interest=True, strict=strict) if T_ISIGINFO in f else None
    r['sigvalue_range'] = f[T_ISIGVAL][1:] if T_ISIGVAL in f else None
    r['sigvalue'] = wire[f[T_ISIGVAL][1]:f[T_ISIGVAL][2]] if T_ISIGVAL in f else None
    digests = [c for c in comps if c[0] == T_PARAMS]
    r['digest_comps'] = [(c[2], c[3]) for c in digests]
    if strict:
        if (T_ISIGINFO in f) != (T_ISIGVAL in f):
            raise Malformed('InterestSignatureInfo and InterestSignatureValue must come together')
        if T_ISIGINFO in f and T_APP not in f:
            raise Malformed('signed Interest without ApplicationParameters')
        if (T_APP in f) != (len(digests) == 1) or len(digests) > 1:
            raise Malformed(f'ApplicationParameters present={T_APP in f} but {len(digests)} ParametersSha256DigestComponent(s)')
    # NDN: signed portion = every name component except ParametersSha256Digest, then from the start of
    # ApplicationParameters up to (excluding) the InterestSignatureValue element
    r['signed_ranges'] = []
    if T_ISIGVAL in f and T_APP in f:
        r['signed_ranges'] = [(c[1], c[3]) for c in comps if c[0] != T_PARAMS] + [(f[T_APP][0], f[T_ISIGVAL][0])]
    # parameters digest covers ApplicationParameters .. end of the Interest
    r['digest_range'] = (f[T_APP][0], ve) if T_APP in f else None
    return r


def cat(wire, ranges) -> bytes:
    return b''.join(bytes(wire[a:b]) for a, b in ranges)


def expected_params_ok(w: dict) -> bool:
    """the statement's right-hand side: digest component == SHA-256(ApplicationParameters .. end of Interest)"""
    if w['digest_range'] is None or len(w['digest_comps']) != 1:
        return False
    a, b = w['digest_range']
    c, d = w['digest_comps'][0]
    return hashlib.sha256(w['wire'][a:b]).digest() == w['wire'][c:d]


# generic tree (for TLV-level edits): node = [typ, bytes | list of nodes]
_CONTAINERS = {T_INTEREST, T_DATA, T_NAME, T_META, T_SIGINFO, T_ISIGINFO, T_KL, T_VALIDITY}


def to_tree(buf, off, end, parent=None):
    out = []
    for t, st, vo, ve in kids(buf, off, end):
        cont = (t in _CONTAINERS and parent != T_NAME and parent != T_META) or (t == T_FH and parent == T_INTEREST)
        out.append([t, to_tree(buf, vo, ve, t) if cont else bytes(buf[vo:ve])])
    return out


def ser(nodes) -> bytes:
    return b''.join(enc_tlv(t, ser(v) if isinstance(v, list) else v) for t, v in nodes)


def child(node, typ):
    for c in node[1]:
        if c[0] == typ:
            return c
    return None


def child_index(node, typ):
    for i, c in enumerate(node[1]):
        if c[0] == typ:
            return i
    return None


# --------------------------------------------------------------------------------------------------------------
# keys and signers
# --------------------------------------------------------------------------------------------------------------

_KEYS_B64 = {
    'rsa1024': (
        'MIICWwIBAAKBgQCcXcAJF3drRAzfqngttgT64sh/HW40OHSBJog/eatRLObifR7Tzj7aRGN9IPkjrsu08p/HhzwR/blTiJzSGtNe'
        'jGvgOHwENXCoqw1Qjk4JztQADrPpFyIm1QUitog4X62/DTmkUOB97DtZqFAWVs+rHOA8qa9y4csT+u+CdJcVVwIDAQABAoGAJou3'
        'yKX3wsICOGrB+Ga74IriKO+82HOoSKQShy87i6W5ftCgNk9L0Ct2qQRlViYDQmZi++E67iZxNoXhPqvtOakPzeTcs6GBhwoDRrtC'
        'O3/xAsKwhnRf+TQ4/NQM50c/5/PdRGHvmAFnDUWssGJsLGXiF2jEHiKMA7JIuOEiRc0CQQC5cl2OtCzRdtFZRCDeyxLUT2wRsRxC'
        'l13SCwxPHVxkHU70GlmUZfi2ec/Sstw9f4U3FK7JUkIB2mbXpIuah9TFAkEA19sUMLEiWMMr88pUy95aOivMNO1LeRiU9FUI6Rbm'
        '6frrdn3FEGpLg8fhyLdVESbG6Gz9E/VKUBqJn0wF+qT7awJBALRRxTEWdyHx49xlx4R7d8Kju5R0X+NMZbjwbzaaeRUL/pKS8JnA'
        'kZd1WKQqsMbHsVP+s3oklvRQVoHGiMxo2XUCPxbEBF0eUYELFJehv0/BI8L+24q5fDxJW2xpi4cJ41DKJgtZOG+CxnQfoLCKpW4p'
        'qNDardZtCGlqYxlp6zeELwJAc/qYHuVsyhg4KEw8LwaCxzCGPhYTR/vtwJt98/w9Cr/3wl21pd3255VpkDRbzIz10PfDyTE26Szo'
        'nrIiS+AejQ=='),
    'rsa2048': (
        'MIIEpAIBAAKCAQEAxuXTLwUZ9Erql8INoLUAj3bZoT8xDcx07AzAFf3GbfpirbOrcNjt5xhUYHskg3V4mXg6kssyP+ryz/3WCK2F'
        '4mqZdSVZjoQFhlN9MVgmNEXEfe6P+1CovrGvj6MCGS/nLn0D8MNwFddCl1PuXpfEZCMydVaR7E7/dyuPMtIn7KLeEMXxEcsnCNhS'
        'dW/mvcji6cmE1/Do+fNWzU39Pov654OodmIPb/LirEX5Ab6BcT0IiMgFl2ik0ciDaVdBW87/wYWfCz0x5Ni0x67HwpIrhmg/vG26'
        '+ITi8JF+GoT8ZyS6Q0mp8QaoLcsMouEWggTEG9iXRgFtwRJU0ISyZPxjIwIDAQABAoIBAEHLHpusNVSxP37p6zYhCclrSDxlueVV'
        'n8vBv/zGUNBqhh/tkiWnLLNIQgkUUxTFVBp4Qe/zFXE9WArjbdy7AdHO72pn64MQOv+fOIeNID4kYgZCVxCMMvW5s1hxVK1eQjwH'
        'kLkg/T/MUDPcyLozu/xgBD36YBTqYOlb2Ge4Swqkk7wqR0Wm5qiruhAuGJkbEfyd9ue5lEQsxR8dafXq6nCYb2O12fFhEkBW+vxl'
        'md4cU0xcBzUJfn3A/41ITn3+ZZgq+7FGKIzV7DAFo5rCpg9VaUBpa0/38mdMjt56K+PDKYgIowu2Wp3Thk2O2ihY6TWyAZxDeME9'
        'MaxZ80jK/6kCgYEAz1eIsrckwVYmdj5sfedcXC15nuk9FPh8QSytKwBmQCHfYoTelO81X/3YJuJgR4TwykvdLlPDxk5b9LoQ7odi'
        '58CTGB1wzDyFU1dCcL4Mz+KWsok/AFr43p4RxSTEa7s52s2jtPJr9M9Nq/yU4QLAng2jkL6SEJPdEhvGSUsuCmcCgYEA9ZL9phUM'
        'NTd6hyh/o6d2/Nl65i8f8sgxVsn81V4+qk4CdZPtVeGqZYhg9RJcHADXtd0J+T+xD7GK/BOpbKzmY56lLpXTXcT3ytgL2AvT1yij'
        'B8OeQNP+XhnCPRw8dRBNY5ulhOcQnjq+RsOX2MjzklJsWHFK9ShR4sQZeLD3I+UCgYEAwlOJA+7QXP+QVrxU1H+1uZLJbR2uqOvn'
        'EPJ9blMWgj787YoYTsAPZ2MzZeY/VGiNgRwvNY8+aqrgVnLZEaYEFa8QbcaSBGkokB61X5NP0LrOgJBPYtbgb0z43KuECHBWXfLj'
        '3uBiO/TbGDlHk8gPnVKtHSjvHuhmhuVPJzx17zsCgYBkXM6NMczrcuEAm+yOVcKrU7aGnHvSHT8M2UAbc4jo0TjwFKTKlI+vLy1w'
        '+y/pwe5mxQ9ubjlO0KCcpOx5HbCKxit7/n+DsxwSKnmssijBpjn60le65ujuTFi14PRUY3U9YD8lMcn44Mki4o0MbBQfmM/u1V5t'
        'Ey1kIADI8ooOgQKBgQCufK0yl1vTMu/4t4h/0hHGF50uDTxCvAj8Xw5mN18y6YLLYAoERQmWTYfLbnVjmH6yWjtuW6H6HiJPtp65'
        'CzqOqES6oMLNDfjLJJrN0zVM9B5KHxCZCIsgIZi4muRglgSQ78m7U6ZLW0pjQgLmpRa8t6atpBB1pSk7pr1vZTHcRA=='),
    'rsa2048b': (
        'MIIEpQIBAAKCAQEA0CdU/t+KV6AyWb8Pa610baFmZbo7oaQcfsdZbsRArQfUF9JKnXbf0r77swqE4NaR9KJcf29RQCai3SIQkcSD'
        'MV0tN59gsCTEu0WMnT/zmjgOq8Ihok21DLiXtsWKLuOWCZbIqKzFSV2e70HVRUJNhmVhBQ/S0FLWSQfuTgIETuQ9nfE0FZh13VdF'
        'lJM2ErGc6A6scETFWN4ftLRpn1zcu+P9JEjPhufzxozmvWdmhxZt4Vv8UhOrJIXeLD/j5ZjNmPH5muoUeo6lxU3KUZyDTWU1OUUj'
        'VJdu7tP4UaaPS/kcbvGgL7b2VkcJUvp07RAyr/f1IFlCKEaLY9+pw8nGKQIDAQABAoIBAGU34xRnJlIS47kRd9GwEJAo7m6kP1AM'
        'ShD6Jkp/I0YgqumEiGUGw7MqzKFVCaV9oY7Yjusm+dcckpC+elkvum38Nbs5BJ7S2lmIaeajjPUesj+iUJGogNQ1RQ0LBPVlFPYH'
        'vP6MuQjCfkEw/aDGq4UhciqwdZ540ZvEwARt5aNoZ+2s4JEGJ/0Ew7/uwFb/9U2BeGb8zSHyMWB0CB7tqV8GyULDffOwmMkQk1Ir'
        'QUaBx/xzuwAcRMqdiGUaCvHvSbP2AdzTWcs/wXjcXhoo2sGoxMVa8zXCqNWaGpWKxjbicJbVxTjmScmnurwwG1PhyAqqneeDSuVI'
        'i+b6w/b1JXMCgYEA5TmBSsCgo+yiuyNM41hfp7RaXO5LmxeJ26oXU/FnxDjiwC2UemxVBwMngsq9YtgCiCQLT3I0dgU3vNiMfZPo'
        '29htZVsCyRJqaIqqD2/N5xZA9jGV2hHkfto97ubOWTDi7JJhJcmwtuqAyCGN3nuYH0zdB/f2FoSd546TIvocIYsCgYEA6He99laQ'
        'mIXdOdBF6EKiSRZD4qQC9NJWpR197px9yoSJslRgFaIuzC8gvLoODMd4MZG69Nfw7+kqA4DZzyRb8SninGV8/R7Ltq/vUzAOlfYq'
        'l8UKhDy6PCvHIxb2BAnuUcAqL2/nqRmHP6W6NN3JCHRiBqhS0/p76BsFJUgFRZsCgYEAu8nCjDUG5YRlRJ6EzPOHWeK87MkkE2jT'
        'Paw49EIe2ngn+3zb2PeLKPWClvn08Vc5q8KrqWhMZiucIA/f+LkF2aWS6agHviZiGkcPTxovOxPWIFs7Aq4J3Yp5lpBrmFIedeTt'
        'xYFYTmILIumqSgxC8dGMeoy/hG8c1ajODaeNCEUCgYEAgVTlBaDhb0nCa4C489/mg7z0ZaoTzvsao2AGCPNddIdKSEFy93Y0jPqH'
        'PxhP6sIq14EZP1DIReE1s59DDmBPGpvP7Gz2Hai9c1TsVB6/bqT2y1sfX7SddA5zCs2ib1rLEQZVMfETNFv0h+9+6hyd1KtTQhrx'
        'geewedBWi4hHDpMCgYEAlRF/WCsmuQ2bPB1H9ytbZFM6mZD2LfxMBrRj6F2Gs+Ez3bQKHl4gASOPxLVagavqG34LCaXyRbqzY4JF'
        'uS7Xf47y5Hi9kOi7Qiwz/pw7PESFQwvO+LbQmaNzkwHbG1aTxCGmpaIuSIWapl0HsfJGqBNyjVyHEzRD9p46ruwVJOQ='),
    'p256': (
        'MIGHAgEAMBMGByqGSM49AgEGCCqGSM49AwEHBG0wawIBAQQg0LafUQ7gWt50y1z99rri4GE5qJmSvn9kp16ZOp8wPxahRANCAASc'
        'ouwpl5p46T5RQz5r7j0TWNGqe1DhogA3UUbU4OjI6cDZeo2Hav9wcyt2fGZaQ1EWoasujPkAUQMLJRj1Obgc'),
    'p256b': (
        'MIGHAgEAMBMGByqGSM49AgEGCCqGSM49AwEHBG0wawIBAQQg0XIg2+3VazPtVq6rLek99B//ALbx4Gx7E4Q8GoG81pShRANCAARn'
        'Qlii5PMvHhe3H+2aYiprDQ2oxM4NbO4DADJsuoHZv/sxWzLlLfi0g99+cryB/wJlfcMiA7UHen+Q8JW8RtyN'),
    'p384': (
        'MIG2AgEAMBAGByqGSM49AgEGBSuBBAAiBIGeMIGbAgEBBDCoRmaVZoPZP+20AtuW28Qma4PThjVAX/RsN0o4I42cfMle9YlCKSuT'
        'SjX/yJRxwpKhZANiAATA3yCVqr//19y0zdbZjTKF9PwSCfRAkXVqdK0p1aBggWANaupPeKWCeH/l4OFaxpw5uz/ehWZ1T3iibX/Q'
        '9/69sjX7ucHlkQ6tH3hBcAX0bayFhvMMGzvIxP51Wej27so='),
    'p521': (
        'MIHuAgEAMBAGByqGSM49AgEGBSuBBAAjBIHWMIHTAgEBBEIAwkxs4iarTAunklsA+1ATrXjnAMouvPjq9IEO9pog9HJjE07YK25c'
        'Qmzb7jKNkQ1KNW/7XJSMYdtWrIaz4SoOERmhgYkDgYYABAFMeqUqBSv1Xd5cc4gLoD1YdVMyPmO6iVYdlUMdZ6PUphY+sIo5TCKN'
        'DKT/bLF98bPdkg7kYf8xjPL/SvEUa2yDYgGjaDEV1DyEvyHn6uYpki8jH62C53Vg29/00r787hw3SDCoIbOSojf+SViRUnBXF6t7'
        'xP5lfN3XmUgUTPoJRF94MQ=='),
    'ed25519': (
        'MC4CAQAwBQYDK2VwBCIEIJliVbzQ3+AgA9PVuPHbBUBZeNrmaPvNjqMBi6BC3Rlg'),
    'ed25519b': (
        'MC4CAQAwBQYDK2VwBCIEIIDcx85bLy3UQWocZ6iOhMiwxHkmbqQqfQm+/eCqbtBR'),
}

HMAC_KEY = bytes(range(1, 41))
_key_cache = {}


def key(name: str):
    """-> dict(priv_der, pub_der, obj, pub)   for rsa1024 rsa2048 rsa2048b p256 p256b p384 p521 ed25519 ed25519b"""
    if name not in _key_cache:
        der = base64.b64decode(''.join(_KEYS_B64[name]))
        if name.startswith('rsa'):
            obj = RSA.import_key(der)
            pub = obj.public_key()
            pub_der = pub.export_key('DER')
        else:
            obj = ECC.import_key(der)
            pub = obj.public_key()
            pub_der = pub.export_key(format='DER')
        _key_cache[name] = {'priv_der': der, 'pub_der': pub_der, 'obj': obj, 'pub': pub}
    return _key_cache[name]


SIG_TYPE = {'digest': 0, 'digest_i': 0, 'rsa': 1, 'ecdsa': 3, 'hmac': 4, 'ed25519': 5, 'null': 200}


def family(kind: str) -> str:
    if kind.startswith('rsa'):
        return 'rsa'
    if kind.startswith('p') and kind[1:4].isdigit():
        return 'ecdsa'
    if kind.startswith('ed25519'):
        return 'ed25519'
    return kind


class ShrinkSigner(Signer):
    """synthetic signer: reserves S bytes, writes r <= S bytes (pattern derived from the covered bytes) and returns r"""
    SIG_TYPE = 0xC9

    def __init__(self, S: int, r: int, kl=None):
        self.S, self.r, self.kl = S, r, kl

    def write_signature_info(self, signature_info):
        signature_info.signature_type = self.SIG_TYPE
        if self.kl is not None:
            signature_info.key_locator = KeyLocator()
            signature_info.key_locator.name = self.kl
        else:
            signature_info.key_locator = None

    def get_signature_value_size(self):
        return self.S

    @staticmethod
    def pattern(covered: bytes, r: int) -> bytes:
        h = hashlib.sha256(covered).digest()
        return (h * (r // 32 + 1))[:r]

    def write_signature_value(self, wire, contents) -> int:
        sig = self.pattern(b''.join(bytes(c) for c in contents), self.r)
        wire[:self.r] = sig
        return self.r


class RecordingSigner(Signer):
    """wraps a signer; records what the library hands to it and what it wrote"""

    def __init__(self, inner: Signer):
        self.inner = inner
        self.calls = []       # dicts: covered (bytes), parts (list of bytes), buf_len, ret, written (bytes)
        self.reserved = None

    def write_signature_info(self, signature_info):
        return self.inner.write_signature_info(signature_info)

    def get_signature_value_size(self):
        self.reserved = self.inner.get_signature_value_size()
        return self.reserved

    def write_signature_value(self, wire, contents) -> int:
        parts = [bytes(c) for c in contents]
        buf_len = len(wire)
        ret = self.inner.write_signature_value(wire, contents)
        self.calls.append({'parts': parts, 'covered': b''.join(parts), 'buf_len': buf_len, 'ret': ret,
                           'written': bytes(wire[:ret]) if isinstance(ret, int) and ret >= 0 else None})
        return ret


_SIGNER_POOL = {}


def make_signer(spec, reuse=True):
    """spec: None | dict(kind=..., kl=<uri>, S=, r=).  A signer object is REUSED for every packet with the same spec in this
    process (applications keep one signer per key): a signer that carries state from one packet into the next shows there."""
    if reuse and spec is not None and spec.get('kind') not in ('none', 'shrink'):
        k_ = json.dumps(spec, sort_keys=True)
        if k_ not in _SIGNER_POOL:
            _SIGNER_POOL[k_] = make_signer(spec, reuse=False)
        return _SIGNER_POOL[k_]
    from ndn.security import (DigestSha256Signer, HmacSha256Signer, Sha256WithRsaSigner, Sha256WithEcdsaSigner,
                              Ed25519Signer, NullSigner)
    if spec is None or spec['kind'] == 'none':
        return None
    k = spec['kind']
    kl = spec.get('kl', '/K')
    if k == 'digest':
        return DigestSha256Signer()
    if k == 'digest_i':
        return DigestSha256Signer(for_interest=True)
    if k == 'null':
        return NullSigner()
    if k == 'hmac':
        return HmacSha256Signer(kl, HMAC_KEY)
    if k == 'shrink':
        return ShrinkSigner(spec['S'], spec['r'], spec.get('kl'))
    fam = family(k)
    if fam == 'rsa':
        return Sha256WithRsaSigner(kl, key(k)['priv_der'])
    if fam == 'ecdsa':
        return Sha256WithEcdsaSigner(kl, key(k)['priv_der'])
    if fam == 'ed25519':
        return Ed25519Signer(kl, key(k)['priv_der'])
    raise ValueError(k)


def expected_sig_type(spec):
    if spec['kind'] == 'shrink':
        return ShrinkSigner.SIG_TYPE
    return SIG_TYPE[family(spec['kind'])]


def expected_kl(spec):
    """key locator name (URI) the signer is configured with, or None when the signer writes none"""
    k = spec['kind']
    if k in ('digest', 'digest_i', 'null'):
        return None
    if k == 'shrink':
        return spec.get('kl')
    return spec.get('kl', '/K')


def lib_verify(kind: str, sig_ptrs, wrong_key: bool = False):
    """the library verifier matching the signer kind -> bool;  None when there is no matching verifier"""
    from ndn.security import verify_rsa, verify_ecdsa, verify_hmac, verify_ed25519
    fam = family(kind)
    if fam == 'rsa':
        return verify_rsa(key('rsa2048b' if wrong_key else kind)['pub'], sig_ptrs)
    if fam == 'ecdsa':
        return verify_ecdsa(key('p256b' if wrong_key else kind)['pub'], sig_ptrs)
    if fam == 'ed25519':
        return verify_ed25519(key('ed25519b' if wrong_key else kind)['pub'], sig_ptrs)
    if fam == 'hmac':
        return verify_hmac(HMAC_KEY[::-1] if wrong_key else HMAC_KEY, sig_ptrs)
    return None


def lib_checker(kind: str, key_name):
    """KnownChecker validator (async callable) for that signer kind, or None"""
    from ndn.security import EccChecker, RsaChecker, HmacChecker, Ed25519Checker
    fam = family(kind)
    if fam == 'rsa':
        return RsaChecker.from_key(key_name, key(kind)['pub_der'])
    if fam == 'ecdsa':
        return EccChecker.from_key(key_name, key(kind)['pub_der'])
    if fam == 'ed25519':
        return Ed25519Checker.from_key(key_name, key(kind)['pub_der'])
    if fam == 'hmac':
        return HmacChecker.from_key(key_name, HMAC_KEY)
    return None


def own_verify(kind: str, covered: bytes, sig: bytes) -> bool:
    """verification done directly with the primitives (not through ndn.security.validator)"""
    fam = family(kind)
    try:
        if fam == 'rsa':
            pkcs1_15.new(key(kind)['pub']).verify(SHA256.new(covered), sig)
        elif fam == 'ecdsa':
            DSS.new(key(kind)['pub'], 'fips-186-3', 'der').verify(SHA256.new(covered), sig)
        elif fam == 'ed25519':
            eddsa.new(key(kind)['pub'], 'rfc8032').verify(covered, sig)
        elif fam == 'hmac':
            HMAC.new(HMAC_KEY, covered, digestmod=SHA256).verify(sig)
        elif fam in ('digest', 'digest_i'):
            return hashlib.sha256(covered).digest() == sig
        elif fam == 'null':
            return sig == b''
        else:
            return ShrinkSigner.pattern(covered, len(sig)) == sig
        return True
    except ValueError:
        return False


# --------------------------------------------------------------------------------------------------------------
# driver utilities
# --------------------------------------------------------------------------------------------------------------

PARSER_REJECT = (DecodeError, ValueError, IndexError, struct.error)   # the documented decoding errors


class Loop:
    """a fresh event loop per case; unhandled errors in the loop are recorded"""

    def __init__(self):
        self.loop = asyncio.new_event_loop()
        self.errors = []
        self.loop.set_exception_handler(lambda l, ctx: self.errors.append(str(ctx.get('exception') or ctx.get('message'))))

    def run(self, coro):
        return self.loop.run_until_complete(coro)

    def close(self):
        try:
            pend = [t for t in asyncio.all_tasks(self.loop) if not t.done()]
            for t in pend:
                t.cancel()
            if pend:
                self.loop.run_until_complete(asyncio.gather(*pend, return_exceptions=True))
        finally:
            self.loop.close()

    def __enter__(self):
        return self

    def __exit__(self, *a):
        self.close()


class Collector:
    def __init__(self, module: str, per_key: int = 5):
        self.module, self.per_key = module, per_key
        self.by_key = {}
        self.evaluations = 0
        self.distinct = set()
        self.samples = []

    def seen(self, *case):
        self.distinct.add(hashlib.blake2b(json.dumps(case, sort_keys=True, default=str).encode(), digest_size=8).digest())

    def add(self, key: str, what: str, inp: dict):
        lst = self.by_key.setdefault(key, [])
        if len(lst) < self.per_key:
            lst.append({'key': key, 'what': what[:400], 'module': self.module, 'input': inp})

    def result(self, rule, bound, exhaustive=False):
        return {'evaluations': self.evaluations, 'distinct_nontrivial': len(self.distinct), 'rule': rule, 'bound': bound,
                'exhaustive': exhaustive, 'samples': self.samples[:6],
                'violations': [v for lst in self.by_key.values() for v in lst]}


def hexs(b, limit=4096):
    if b is None:
        return None
    b = bytes(b)
    return b.hex() if len(b) <= limit else None
