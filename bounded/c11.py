"""C11 - a compiled trust schema matches exactly the names its source text describes (bounded stand-in).

Contract (from the statement): for a well-formed schema S and a name N, the set of (rule, bindings) reported by
`Checker(compile_lvs(text(S)), fns).match(N)` - and by `Checker.load(checker.save(), fns).match(N)` - equals
`ref_match(S, N)`, the reference semantics of bounded/_lvs.py evaluated on the generator's abstract schema (no library
code in the oracle).
"""
from __future__ import annotations

import random

from . import _lvs as L

MODULE = 'bounded.c11'
RULE = ('grammar-based schemas (<=6 definitions, reference depth <=3, same rule referenced twice, redefinitions, '
        'temporary rules/patterns, multi-option and multi-set constraints, $eq/$eq_type/$isin/$neq) x ALL names of '
        'length 0..4 over the schema literals + fresh component(s); a case = (schema, name); non-trivial = the '
        'reference or the library reports at least one match; distinct = hash(schema text, name)')
BOUND = 'quick 1600 schemas, thorough 120000 schemas; names <= 4 components over <= 6 distinct components'

N_SCHEMAS = {'quick': 1600, 'thorough': 120000}


def build(schema):
    L.cache_lark()
    """compile with the REAL library; returns (checker, loaded checker)."""
    from ndn.app_support.light_versec import compile_lvs, Checker
    text = L.render(schema)
    model = L.compile_reused(text)
    fns = L.lib_fns()
    checker = Checker(model, fns)
    loaded = Checker.load(checker.save(), fns)
    L.build_decoy(checker)
    return checker, loaded


# ------------------------------------------------------------------------------------------------- contracts

def post_match(schema, name, expected, got, pseudo, expected_if_repeat_defect=None):
    """contract of Checker.match against the reference -> list of (key, what)"""
    out = []
    if got != expected and expected_if_repeat_defect is not None and got == expected_if_repeat_defect:
        out.append(('C11:temp-constraint-lost-on-repeated-reference',
                    'model reports %s although the name does not satisfy that rule as written: a rule with a '
                    'constrained temporary pattern is referenced twice in one name pattern and only the first copy '
                    'keeps the constraint' % (L.show_set(got - expected)[:2] or L.show_set(expected - got)[:2])))
    elif got != expected:
        missing = expected - got
        spurious = got - expected
        if missing:
            out.append(('C11:match-missing',
                        'name satisfies %s as written but the model does not report it' % (L.show_set(missing)[:2],)))
        if spurious:
            out.append(('C11:match-spurious',
                        'model reports %s although the name does not satisfy that rule as written'
                        % (L.show_set(spurious)[:2],)))
    if pseudo:
        out.append(('C11:inner-node-reported-as-match',
                    'model reports a match for pseudo rule(s) %s (an inner tree node: the name is only a proper '
                    'prefix of some rule) although no rule of the schema is satisfied by that name' % (pseudo[:3],)))
    return out


def post_loaded(direct, loaded):
    """the model saved to bytes and loaded again answers like the model used directly"""
    if direct != loaded:
        return [('C11:loaded-model-differs', 'after load(save()) match gives %r, directly %r' % (loaded, direct))]
    return []


def observe(ck, name, written):
    try:
        # the checker is not handed a first, complete lookup only: an early-exit lookup and two interleaved ones come first
        it1 = iter(ck.match(name))
        next(it1, None)
        it2 = iter(ck.match(name))
        next(it2, None)
        next(it1, None)
        del it1, it2
    except Exception:   # noqa - the full lookup below reports it
        pass
    try:
        got, pseudo = L.lib_match_set(ck, name, written)
        return ('ok', got, sorted(pseudo))
    except Exception as e:   # noqa - classified by the caller, never ignored
        return ('exc', type(e).__name__, repr(e))


def run_case(schema, name, checkers=None, ref=None):
    """evaluate the contracts for one (schema, name); -> (list of (key, what), nontrivial)"""
    if checkers is None:
        checkers = build(schema)
    if ref is None:
        ref = L.RefModel(schema)
    written = {r['id'] for r in schema['rules']}
    expected = ref.match(tuple(name))
    res = []
    direct = observe(checkers[0], name, written)
    loaded = observe(checkers[1], name, written)
    nontrivial = bool(expected)
    if direct[0] == 'exc':
        if len(name) == 0 and direct[1] == 'IndexError':
            res.append(('C11:empty-name-indexerror',
                        'match() of the empty name raises IndexError instead of reporting no match'))
        elif direct[1] == 'TypeError' and L.has_eq_type_pattern_arg(schema):
            res.append(('C11:eq_type-unbound-argument-typeerror',
                        'match raises %s: the built-in $eq_type is called with a pattern argument that has no value '
                        'yet (forward reference, documented to "match nothing") and fails on None' % direct[2]))
        else:
            res.append(('C11:match-raises', 'match raised %s' % direct[2]))
    else:
        _, got, pseudo = direct
        nontrivial = nontrivial or bool(got)
        alt = ref.match(tuple(name), lost_repeat=True) if got != expected else None
        res.extend(post_match(schema, name, expected, got, pseudo, alt))
    res.extend(post_loaded(direct, loaded))
    return res, nontrivial


# ------------------------------------------------------------------------------------------------- driver

def wide_schemas():
    """directed schemas with MANY pattern occurrences (pattern numbers run over the whole file, so the tenth and later named
    patterns / temporary occurrences get two-digit numbers); names stay short"""
    def rule(rid, items, cons=None):
        return {'id': rid, 'items': items, 'cons': cons or [], 'signers': []}
    t3 = [['pat', '_'], ['pat', '_'], ['pat', '_']]
    out = []
    # >= 10 temporary occurrences before a constrained temporary pattern (the fillers start with distinct literals so that
    # their pattern edges do not merge with the rules under test)
    out.append({'lits': ['a', 'b', 'c'], 'rules': [
        rule('#z', [['pat', '_p'], ['lit', 'a']]),
        rule('#y1', [['lit', 'b']] + list(t3)), rule('#y2', [['lit', 'c']] + list(t3)),
        rule('#y3', [['lit', 'c'], ['lit', 'c'], ['pat', '_'], ['pat', '_']]),
        rule('#q', [['ref', '#z'], ['pat', '_t']], [[['_t', [['lit', 'b']]]]])]})
    out.append({'lits': ['a', 'b', 'c'], 'rules': [
        rule('#y1', [['lit', 'b']] + list(t3)), rule('#y2', [['lit', 'c']] + list(t3)),
        rule('#y3', [['lit', 'c'], ['lit', 'c'], ['pat', '_'], ['pat', '_']]),
        rule('#z', [['pat', '_p'], ['lit', 'a'], ['pat', '_t'], ['pat', '_u']], [[['_u', [['lit', 'b']]]]]),
        rule('#q', [['lit', 'a'], ['pat', '_t'], ['pat', '_p']], [[['_t', [['lit', 'a'], ['lit', 'c']]]]])]})
    # >= 10 named patterns, a constraint on the tenth (its number has the first one's number as decimal prefix)
    out.append({'lits': ['a', 'b'], 'rules': [
        rule('#n1', [['pat', 'pa'], ['pat', 'pb'], ['pat', 'pc']]),
        rule('#n2', [['lit', 'a'], ['pat', 'pd'], ['pat', 'pe'], ['pat', 'pf']]),
        rule('#n3', [['lit', 'b'], ['pat', 'pg'], ['pat', 'ph'], ['pat', 'pi']]),
        rule('#w1', [['pat', 'pa'], ['pat', 'pj']], [[['pj', [['lit', 'b']]]]]),
        rule('#w2', [['pat', 'pb'], ['lit', 'a'], ['pat', 'pk']], [[['pk', [['lit', 'a']]]]]),
        rule('#w3', [['lit', 'a'], ['lit', 'a'], ['pat', 'pa'], ['pat', 'pl']], [[['pl', [['pat', 'pa']]]]])]})
    return out


def schema_for(seed, idx):
    rng = random.Random(seed * 1000003 + idx * 7919 + 11)
    return L.gen_schema(rng, max_rules=6, signing=(idx % 4 == 3), eq_type_pat_args=(idx % 5 == 0))


def run(tier: str, seed: int, shard: tuple[int, int]) -> dict:
    k, n = shard
    viol = L.Violations(MODULE)
    seen = set()
    evaluations = 0
    samples = []
    total = N_SCHEMAS.get(tier, N_SCHEMAS['quick'])
    wide = wide_schemas()
    for idx in range(-len(wide), total):
        if idx % n != k:
            continue
        schema = wide[idx + len(wide)] if idx < 0 else schema_for(seed, idx)
        text = L.render(schema)
        try:
            checkers = build(schema)
        except Exception as e:   # noqa
            viol.add('C11:compile-raises', 'well-formed schema rejected: %r' % (e,),
                     {'schema': L.schema_json(schema), 'text': text, 'name': None})
            evaluations += 1
            continue
        ref = L.RefModel(schema)
        alpha = L.alphabet(schema)
        for name in L.all_names(alpha, 4):
            evaluations += 1
            res, nontrivial = run_case(schema, name, checkers, ref)
            if nontrivial:
                seen.add(L.case_hash(text, name))
            for key, what in res:
                viol.add(key, what, {'schema': L.schema_json(schema), 'text': text, 'name': L.name_hex(name)})
        if len(samples) < 4:
            samples.append({'schema': text, 'names': sum(len(alpha) ** i for i in range(5))})
    return {'evaluations': evaluations, 'distinct_nontrivial': len(seen), 'rule': RULE, 'bound': BOUND,
            'exhaustive': False, 'samples': samples, 'violations': viol.list()}


def replay(rec: dict) -> tuple[bool, str]:
    inp = rec['input']
    schema = inp['schema']
    try:
        checkers = build(schema)
    except Exception as e:   # noqa
        return False, 'compile raises %r for\n%s' % (e, L.render(schema))
    if inp.get('name') is None:
        return True, 'schema compiles'
    name = L.name_unhex(inp['name'])
    res, _ = run_case(schema, name, checkers)
    want = rec.get('key')
    hit = [r for r in res if want is None or r[0] == want]
    if hit:
        return False, '; '.join('%s: %s' % r for r in hit)
    return True, 'contract holds for this case'
