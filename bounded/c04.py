"""C04 - incoming Interests reach exactly the handler of their longest attached prefix; duplicate attach refused;
detach; reply callback only before the deadline and truthful about it.

Contracts (from the property statement) evaluated on the real `ndn.appv2.NDNApp`, `ndn.app.NDNApp` and
`ndn.app_support.dispatcher.Dispatcher`:

  post_dispatch     after `_receive(5, interest)` (+ draining tasks): the set of handler invocations is exactly
                    [handler attached at the longest attached prefix of the Interest name] (once, with that name), or
                    [] when no attached prefix matches - independent of the representation used to attach.
  post_attach_free  attaching on an unoccupied prefix succeeds.
  post_attach_dup   attaching on an occupied prefix raises, and the table is unchanged (old handler keeps receiving).
  post_detach       after detach(p) the handler of p receives nothing; every other prefix behaves as in the table
                    without p (shorter and longer prefixes unaffected).
  post_reply        (appv2) reply(data) at time t with deadline = arrival + lifetime (4000 ms if absent):
                    t < deadline -> exactly `data` (bare, or in the PIT-token envelope) is handed to the face and the
                    call returns True; t > deadline -> nothing is handed to the face and the call returns a falsy value.
"""
import asyncio
import itertools
import random
import time

from ndn.app_support.dispatcher import Dispatcher
from ndn.encoding import InterestParam
from ndn.transport.dummy_face import DummyFace
from ndn.security import KeychainDigest
from ndn import app as appv1
from ndn.types import NetworkError
from ndn.appv2 import ValidResult

from . import _recv as R

MODULE = 'bounded.c04'
RULE = ('a case = (front-end, set S of attached prefixes from the 15-name tree over components {a,ab} depth<=3, '
        'attach order, per-prefix representation, history attach-all / duplicate-attach / detach-each / re-attach / '
        'detach-all, with ~32 Interest names delivered after every step) or (appv2 reply: lifetime x PIT token x '
        'reply time relative to the deadline x reply count); distinct = hash of the case parameters; non-trivial = '
        'at least one attached prefix or a reply call')
BOUND = ('prefix sets of size <= 3 exhaustively + sampled sizes 4-5 in quick (all sizes <= 5 in thorough) over a '
         '15-name tree; Interest names: the tree, its depth-4 extensions and 9 off-tree names; 9 name '
         'representations; reply offsets in {-L, -1, +1, +1000, +10^6} ms around the deadline')

# ---------------------------------------------------------------------------------------------------------------
ALPHA = ['a', 'ab']        # 'a' is a byte-prefix of 'ab': catches byte-wise instead of component-wise matching
TREE = [()] + [p for d in (1, 2, 3) for p in itertools.product(ALPHA, repeat=d)]          # 15 names
assert len(TREE) == 15


def comps_of(p):
    return [R.comp(c) if isinstance(c, str) else c for c in p]


OFF_TREE = [
    ('b',), ('a', 'b'), ('a', 'a', 'b'), ('A',), ('aa',), ('', ), ('a', ''),
    (R.comp('a', 32),),                   # same value, other component type
    ('a', R.comp('ab', 32), 'a'),
]
QUERIES = ([p for p in TREE if p] + [p + (x,) for p in TREE if len(p) == 3 for x in ('a',)]
           + [('a', 'a', 'a', 'ab', 'a'), ('ab', 'ab', 'ab', 'zz')] + OFF_TREE)
QUERY_COMPS = [tuple(comps_of(q)) for q in QUERIES]
QUERY_WIRES = [R.interest_wire(qc, nonce=i + 1, lifetime=4000, can_be_prefix=bool(i & 1), must_be_fresh=bool(i & 2))
               for i, qc in enumerate(QUERY_COMPS)]
TREE_COMPS = {p: tuple(comps_of(p)) for p in TREE}


def expected_handler(table, qcomps):
    """oracle: longest attached prefix (table: {tuple(encoded comps): hid})"""
    for ln in range(len(qcomps), -1, -1):
        hid = table.get(tuple(qcomps[:ln]))
        if hid is not None:
            return hid
    return None


REPRS = ['uri', 'strlist', 'byteslist', 'bytearraylist', 'mvlist', 'tuple', 'wire', 'wire_bytearray', 'wire_mv']


def represent(p, kind):
    comps = list(TREE_COMPS[p])
    if kind == 'uri':
        return R.name_uri(comps)
    if kind == 'strlist':
        return list(p)
    if kind == 'byteslist':
        return comps
    if kind == 'bytearraylist':
        return [bytearray(c) for c in comps]
    if kind == 'mvlist':
        return [memoryview(c) for c in comps]
    if kind == 'tuple':
        return tuple(comps)
    w = R.name_wire(comps)
    if kind == 'wire':
        return w
    if kind == 'wire_bytearray':
        return bytearray(w)
    if kind == 'wire_mv':
        return memoryview(w)
    raise ValueError(kind)


# ---------------------------------------------------------------------------------------------------------------
# implementations under test behind one interface: attach/detach/deliver-all-queries
class DispImpl:
    tag = 'dispatcher'

    def __init__(self):
        self.d = Dispatcher()
        self.log = []
        self.ret = {}

    def attach(self, name, hid, api='attach'):
        def hnd(name, param, app_param):
            self.log.append(R.Call(hid, name, app_param, None, None, param))
        self.d.register(name, hnd)

    def detach(self, name):
        self.d.unregister(name)


async def deliver_all(impl, case, wire_kind):
    """deliver every query Interest, drain tasks; returns {query index: [hid, ...]} and a list of problems"""
    problems = []
    impl.log.clear()
    if impl.tag == 'dispatcher':
        got = {}
        for i, qc in enumerate(QUERY_COMPS):
            n0 = len(impl.log)
            ret = impl.d.dispatch(list(qc), InterestParam(), None)
            calls = impl.log[n0:]
            got[i] = [c.hid for c in calls]
            for c in calls:
                if c.name_bytes() != qc:
                    problems.append(('name', i))
            if bool(ret) != bool(calls) or not isinstance(ret, bool):
                problems.append(('dispatch-return', i))
        return got, problems
    for i, w in enumerate(QUERY_WIRES):
        if wire_kind == 1:
            w = memoryview(w)
        elif wire_kind == 2:
            w = bytearray(w)
        await impl.app._receive(5, w)
    await case.settle()
    by_name = {}
    for c in impl.log:
        by_name.setdefault(c.name_bytes(), []).append(c.hid)
    got = {}
    for i, qc in enumerate(QUERY_COMPS):
        got[i] = by_name.pop(qc, [])
    for nb in by_name:
        problems.append(('name', repr(nb)))
    return got, problems


def post_dispatch(table, got):
    """None or (query index, expected, observed)"""
    for i, qc in enumerate(QUERY_COMPS):
        e = expected_handler(table, qc)
        exp = [] if e is None else [e]
        if got[i] != exp:
            return i, exp, got[i]
    return None


def make_impl(tag):
    if tag == 'dispatcher':
        return DispImpl()
    return R.FRONTENDS[tag]()


def run_history(inp):
    """inp: {'impl', 'S': [[comp-strs]...], 'order': [...], 'reprs': [...], 'api': [...], 'wire_kind'}.
    returns list of (key, what)"""
    tag = inp['impl']
    S = [tuple(p) for p in inp['S']]
    order = inp['order']
    reprs = inp['reprs']
    apis = inp.get('api') or ['attach'] * len(S)
    wire_kind = inp.get('wire_kind', 0)
    out = []

    async def main(case):
        impl = make_impl(tag)
        table = {}
        next_hid = [100]

        def viol(key, what):
            out.append(('C04:%s:%s' % (tag, key), what))

        async def check(step):
            got, problems = await deliver_all(impl, case, wire_kind)
            bad = post_dispatch(table, got)
            if bad is not None:
                i, exp, obs = bad
                viol(step, 'after %s: Interest %s delivered to handlers %s, expected %s (attached: %s)' % (
                    step, R.name_uri(QUERY_COMPS[i]), obs, exp,
                    sorted(R.name_uri(k) + '->%d' % v for k, v in table.items())))
            for p in problems:
                viol('handler-name' if p[0] == 'name' else p[0],
                     'after %s: %s' % (step, 'handler invoked with a name different from the Interest name'
                                       if p[0] == 'name' else 'dispatch() return value does not tell whether a handler ran'))
            return bad is None and not problems

        # 1. attach all of S
        for j in order:
            p = S[j]
            try:
                impl.attach(represent(p, reprs[j % len(reprs)]), j, apis[j % len(apis)])
            except Exception as e:
                viol('attach-free-refused', 'attach on unoccupied prefix %s (%s) raised %s' % (
                    R.name_uri(TREE_COMPS[p]), reprs[j % len(reprs)], type(e).__name__))
                return
            table[TREE_COMPS[p]] = j
        if not await check('dispatch'):
            return
        # 2. second attach on every occupied prefix, through another representation
        for j, p in enumerate(S):
            rp = REPRS[(REPRS.index(reprs[j % len(reprs)]) + 1 + j) % len(REPRS)]
            try:
                impl.attach(represent(p, rp), 50 + j)
            except Exception:
                pass
            else:
                viol('duplicate-attach-accepted', 'second attach on occupied prefix %s (first as %s, second as %s) '
                     'was not refused' % (R.name_uri(TREE_COMPS[p]), reprs[j % len(reprs)], rp))
        if S and not await check('duplicate-attach-changed-table'):
            return
        # 3. detach each in turn, check, re-attach a new handler, check
        for j, p in enumerate(S):
            rp = REPRS[(REPRS.index(reprs[j % len(reprs)]) + 2 + j) % len(REPRS)]
            try:
                impl.detach(represent(p, rp))
            except Exception as e:
                viol('detach-raised', 'detach of attached prefix %s given as %s raised %s' % (
                    R.name_uri(TREE_COMPS[p]), rp, type(e).__name__))
                return
            del table[TREE_COMPS[p]]
            if not await check('detach'):
                return
            hid = next_hid[0]
            next_hid[0] += 1
            try:
                impl.attach(represent(p, rp), hid)
            except Exception as e:
                viol('reattach-refused', 'attach on prefix %s after its detach raised %s' % (
                    R.name_uri(TREE_COMPS[p]), type(e).__name__))
                return
            table[TREE_COMPS[p]] = hid
            if not await check('reattach'):
                return
        # 4. detach everything (reverse attach order)
        for j in reversed(order):
            p = S[j]
            try:
                impl.detach(represent(p, reprs[j % len(reprs)]))
            except Exception as e:
                viol('detach-raised', 'detach of %s raised %s' % (R.name_uri(TREE_COMPS[p]), type(e).__name__))
                return
            del table[TREE_COMPS[p]]
        await check('detach-all')

    case = R.CaseLoop()
    try:
        case.run(main)
    except Exception as e:                       # an exception escaping the receive path / attach API
        out.append(('C04:%s:exception:%s' % (tag, type(e).__name__),
                    'unexpected %s (%s) at %s' % (type(e).__name__, e, R.where(e))))
    for be in case.background_errors:
        out.append(('C04:%s:background:%s' % (tag, be[0]), 'background task error %s at %s: %s' % be))
    return out


# ---------------------------------------------------------------------------------------------------------------
# legacy front-end: `route` decorator (needs the main loop, the registration command goes to a DummyFace)
def run_v1_route(inp):
    S = [tuple(p) for p in inp['S']]
    reprs = inp['reprs']
    out = []
    log = []

    async def main(case):
        async def face_proc(face):
            for _ in range(3):
                await asyncio.sleep(0)
            for w in QUERY_WIRES:
                await face.input_packet(w)
            for _ in range(6):
                await asyncio.sleep(0)

        face = DummyFace(face_proc)
        app = appv1.NDNApp(face, KeychainDigest())
        face.app = app

        async def app_main():
            for j, p in enumerate(S):
                def hnd(name, param, app_param, _j=j):
                    log.append(R.Call(_j, name, app_param))
                app.route(represent(p, reprs[j % len(reprs)]))(hnd)
        await app.main_loop(app_main())

    case = R.CaseLoop()
    try:
        case.run(main)
    except Exception as e:
        return [('C04:v1.route:exception:%s' % type(e).__name__, 'unexpected %s (%s) at %s' % (
            type(e).__name__, e, R.where(e)))]
    # background errors of the prefix-registration commands (no forwarder here) are not this property's business
    table = {TREE_COMPS[p]: j for j, p in enumerate(S)}
    by_name = {}
    for c in log:
        by_name.setdefault(c.name_bytes(), []).append(c.hid)
    got = {i: by_name.get(qc, []) for i, qc in enumerate(QUERY_COMPS)}
    bad = post_dispatch(table, got)
    if bad is not None:
        i, exp, obs = bad
        out.append(('C04:v1.route:dispatch', 'Interest %s delivered to handlers %s, expected %s (routes: %s)' % (
            R.name_uri(QUERY_COMPS[i]), obs, exp, sorted(R.name_uri(k) for k in table))))
    return out


# ---------------------------------------------------------------------------------------------------------------
# appv2 reply callback
DEFAULT_LIFETIME_MS = 4000          # NDN packet format: InterestLifetime absent = 4 s


def run_reply(inp):
    """inp: {'lifetime': int|None, 'token': hex|None, 'offsets': [ms relative to the deadline, one per reply call],
            'data_len': int, 'clock': 'fake'|'real', 'via_lp': bool}"""
    lifetime = inp['lifetime']
    token = None if inp['token'] is None else bytes.fromhex(inp['token'])
    offsets = inp['offsets']
    out = []
    L = DEFAULT_LIFETIME_MS if lifetime is None else lifetime
    comps = comps_of(('a', 'ab', 'x'))
    iw = R.interest_wire(comps, lifetime=lifetime)
    if token is not None:
        wire, typ = R.lp_wire(iw, [(R.LP_PIT_TOKEN, token)]), R.LP
    elif inp.get('via_lp'):
        wire, typ = R.lp_wire(iw), R.LP
    else:
        wire, typ = iw, 5
    datas = [R.data_wire(comps, bytes([k]) * inp.get('data_len', 5)) for k in range(len(offsets))]

    def viol(key, what):
        out.append(('C04:' + key, what))

    async def main(case):
        fe = R.V2()
        fe.attach('/a', 1)
        t0 = clock.now_ms if clock else int(time.time() * 1000)
        await fe.app._receive(typ, wire)
        await case.settle()
        if len(fe.log) != 1:
            viol('v2:reply-setup', 'handler invoked %d times' % len(fe.log))
            return
        reply = fe.log[0].reply
        ctx_deadline = fe.log[0].ctx.get('deadline')
        for k, off in enumerate(offsets):
            if clock:
                clock.now_ms = t0 + L + off
            else:
                target = (t0 + L + off) / 1000.0
                while time.time() < target:
                    await asyncio.sleep(min(0.005, max(0.0, target - time.time())))
            fe.face.sent.clear()
            desc = 'lifetime=%s token=%s reply#%d at deadline%+d ms' % (lifetime, inp['token'], k, off)
            if inp.get('face_down'):
                # the connection is gone by the time the handler replies: nothing can be transmitted, so the callback must
                # not claim it was (an error or a falsy value is truthful, True is not)
                fe.face.running = False
                try:
                    ret = reply(datas[k])
                except NetworkError:
                    ret = None
                if ret:
                    viol('reply-return-value-face-down', desc + ': the face is down, %d packet(s) were handed to it and the callback '
                         'returned %r' % (len(fe.face.sent), ret))
                continue
            ret = reply(datas[k])
            sent = list(fe.face.sent)
            expect_wire = datas[k] if token is None else R.lp_wire(datas[k], [(R.LP_PIT_TOKEN, token)])
            if off < 0:
                if not sent:
                    viol('v2:reply-in-time-not-sent', desc + ': nothing was handed to the face')
                elif sent != [expect_wire]:
                    viol('v2:reply-wire', desc + ': face got %s, expected exactly %s' % (
                        [s.hex() for s in sent][:2], expect_wire.hex()))
                if sent and ret is not True:
                    viol('reply-return-value', desc + ': reply was transmitted but the callback returned %r, not True'
                         % (ret,))
            elif off > 0:
                if sent:
                    viol('v2:reply-after-deadline-sent', desc + ': %d packet(s) transmitted after the lifetime elapsed'
                         % len(sent))
                if bool(ret) != bool(sent):
                    viol('reply-return-value-late', desc + ': callback returned %r although sent=%s' % (ret, bool(sent)))
            else:   # exactly at the deadline: either outcome, but truthful
                if sent and ret is not True:
                    viol('reply-return-value', desc + ': transmitted, returned %r' % (ret,))
                if not sent and ret:
                    viol('reply-return-value-late', desc + ': not transmitted, returned %r' % (ret,))
        if ctx_deadline is not None and clock and ctx_deadline != t0 + L:
            viol('v2:context-deadline', 'context deadline %s != arrival %s + lifetime %s' % (ctx_deadline, t0, L))

    clock = R.FakeClock() if inp.get('clock', 'fake') == 'fake' else None
    case = R.CaseLoop()
    try:
        if clock:
            with clock:
                case.run(main)
        else:
            case.run(main)
    except Exception as e:
        out.append(('C04:v2:reply-exception:%s' % type(e).__name__, 'unexpected %s (%s) at %s' % (
            type(e).__name__, e, R.where(e))))
    for be in case.background_errors:
        out.append(('C04:v2:background:%s' % be[0], 'background task error %s at %s: %s' % be))
    return out


def run_overlap(inp):
    """appv2: the table changes while an Interest that already arrived is still on its way to the handler (its validator is
    still thinking, or its delivery task has not had its turn): the Interest is not lost - exactly one handler gets it, the one
    of its longest prefix before or after the change.
    inp: {'kind': 'plain'|'params', 'validator_ms': int, 'change': 'attach-longer'|'attach-sibling'|'detach-reattach-longer'}"""
    out = []

    def viol(key, what):
        out.append(('C04:v2:' + key, what))

    async def main(case):
        fe = R.V2()

        async def slow(name, sig, ctx):
            if inp['validator_ms']:
                await asyncio.sleep(inp['validator_ms'] / 1000.0)
            return ValidResult.PASS
        fe.app.attach_handler('/a', fe.handler(1), slow)
        comps = comps_of(('a', 'ab', 'x'))
        wire = R.interest_wire(comps, app_param=b'p' if inp['kind'] == 'params' else None)
        await fe.app._receive(5, wire)
        # ... and, before the Interest has reached a handler:
        if inp['change'] == 'attach-longer':
            fe.app.attach_handler('/a/ab', fe.handler(2), slow)
        elif inp['change'] == 'attach-sibling':
            fe.app.attach_handler('/a/a', fe.handler(2), slow)
        else:
            fe.app.attach_handler('/a/ab', fe.handler(2), slow)
            fe.app.detach_handler('/a/ab')
        await asyncio.sleep((inp['validator_ms'] + 5) / 1000.0)
        await case.settle()
        who = [c.hid for c in fe.log]
        allowed = ([1], [2]) if inp['change'] == 'attach-longer' else ([1],)
        if who not in allowed:
            viol('interest-in-flight-during-table-change', 'Interest /a/ab/x arrived with /a attached; %s before it reached a handler '
                 '(%s Interest, validator %d ms): delivered to handlers %s, expected exactly one of %s'
                 % (inp['change'], inp['kind'], inp['validator_ms'], who, [a[0] for a in allowed]))
        # the table itself is as if nothing had been in flight
        fe.log.clear()
        await fe.app._receive(5, R.interest_wire(comps, nonce=77))
        await asyncio.sleep((inp['validator_ms'] + 5) / 1000.0)
        await case.settle()
        want = [2] if inp['change'] == 'attach-longer' else [1]
        if [c.hid for c in fe.log] != want:
            viol('dispatch-after-table-change', 'a later Interest /a/ab/x went to handlers %s, expected %s' % ([c.hid for c in fe.log], want))

    case = R.CaseLoop()
    try:
        case.run(main)
    except Exception as e:
        out.append(('C04:v2:overlap-exception:%s' % type(e).__name__, 'unexpected %s (%s) at %s' % (type(e).__name__, e, R.where(e))))
    for be in case.background_errors:
        out.append(('C04:v2:background:%s' % be[0], 'background task error %s at %s: %s' % be))
    return out


# ---------------------------------------------------------------------------------------------------------------
def gen_cases(tier, seed):
    """deterministic global case list (sharded by index % n by the driver)"""
    rng = random.Random(seed * 7919 + 4)
    cases = []
    small = [list(c) for k in range(0, 4) for c in itertools.combinations(TREE, k)]            # 576
    if tier == 'thorough':
        big = [list(c) for k in (4, 5) for c in itertools.combinations(TREE, k)]               # 4368
    else:
        big = [rng.sample(TREE, k) for k in (4, 4, 5) for _ in range(40)]
        # chains and stars deserve to be there for sure
        big += [[(), ('a',), ('a', 'a'), ('a', 'a', 'a')], [(), ('ab',), ('ab', 'a'), ('ab', 'a', 'ab'), ('a',)],
                [('a',), ('ab',), ('a', 'a'), ('a', 'ab'), ('ab', 'a')]]
    idx = 0
    for S in small + big:
        for tag in ('v2', 'v1', 'dispatcher'):
            n = len(S)
            order = list(range(n))
            if idx % 3 == 1:
                order.reverse()
            elif idx % 3 == 2:
                rng.shuffle(order)
            reprs = [REPRS[(idx + 2 * j) % len(REPRS)] for j in range(max(n, 1))]
            api = ['route' if (tag == 'v2' and (idx + j) % 4 == 0) else 'attach' for j in range(max(n, 1))]
            cases.append(('history', {'impl': tag, 'S': [list(p) for p in S], 'order': order, 'reprs': reprs,
                                      'api': api, 'wire_kind': idx % 3}))
            idx += 1
    # legacy route decorator through the main loop
    routes = [list(c) for k in (1, 2, 3) for c in itertools.combinations(TREE, k)]
    pick = routes if tier == 'thorough' else routes[:15] + rng.sample(routes, 45)
    for i, S in enumerate(pick):
        cases.append(('v1route', {'S': [list(p) for p in S],
                                  'reprs': [REPRS[(i + j) % len(REPRS)] for j in range(len(S))]}))
    # reply callback
    lifetimes = [None, 1, 10, 50, 4000, 60000, 0x100000000] + ([0, 255, 256, 65535, 65536] if tier == 'thorough' else [0])
    tokens = [None, '', '01', '0102030405060708', 'ab' * 32, 'cd' * 33]
    for lt in lifetimes:
        L = DEFAULT_LIFETIME_MS if lt is None else lt
        for tok in tokens:
            for via_lp in ((False, True) if tok is None else (False,)):
                offs = [[-L], [-1], [1], [1000], [10 ** 6], [-L, -1, 1, 1000], [1, -1], [0]]
                if L == 0:
                    offs = [[1], [1000], [0], [1, 0]]
                for o in offs:
                    for dl in ((5, 300) if tier == 'thorough' or o == [-1] else (5,)):
                        cases.append(('reply', {'lifetime': lt, 'token': tok, 'offsets': o, 'data_len': dl,
                                                'clock': 'fake', 'via_lp': via_lp}))
    for lt in (None, 50, 4000):
        for tok in (None, '0a0b', 'ab' * 32):
            for o in ([-1], [-(DEFAULT_LIFETIME_MS if lt is None else lt)], [-1, -1], [1]):
                cases.append(('reply', {'lifetime': lt, 'token': tok, 'offsets': o, 'data_len': 5, 'clock': 'fake', 'via_lp': False,
                                        'face_down': True}))
    for kind in ('plain', 'params'):
        for vms in (0, 3, 20):
            for change in ('attach-longer', 'attach-sibling', 'detach-reattach-longer'):
                cases.append(('overlap', {'kind': kind, 'validator_ms': vms, 'change': change}))
    for tok in (None, '0a0b'):
        cases.append(('reply', {'lifetime': 300, 'token': tok, 'offsets': [-290, 100], 'data_len': 5, 'clock': 'real',
                                'via_lp': False}))
    return cases


RUNNERS = {'history': run_history, 'v1route': run_v1_route, 'reply': run_reply, 'overlap': run_overlap}


def run(tier: str, seed: int, shard):
    k, n = shard
    cases = gen_cases(tier, seed)
    V = R.Violations(MODULE)
    seen = set()
    ev = 0
    samples = []
    for i, (fam, inp) in enumerate(cases):
        if i % n != k:
            continue
        res = RUNNERS[fam](inp)
        ev += 1
        if fam in ('reply', 'overlap') or inp['S']:
            seen.add(R.h(fam, sorted(inp.items(), key=lambda kv: kv[0])))
        if len(samples) < 4 and (fam != 'history' or len(inp['S']) >= 2):
            samples.append({'family': fam, **inp})
        for key, what in res:
            V.add(key, what, {'family': fam, **inp}, size=len(str(inp)))
    return {'evaluations': ev, 'distinct_nontrivial': len(seen), 'rule': RULE, 'bound': BOUND,
            'exhaustive': False, 'samples': samples, 'violations': V.out()}


def replay(rec):
    inp = dict(rec['input'])
    fam = inp.pop('family')
    res = RUNNERS[fam](inp)
    hit = [w for key, w in res if key == rec['key']]
    if hit:
        return False, hit[0]
    return True, 'holds' + ('' if not res else ' (other keys: %s)' % sorted({k for k, _ in res}))
