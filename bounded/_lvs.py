"""Shared helpers for the Light VerSec (LVS) bounded stand-ins C11..C14.

Nothing in here calls the library's parser/compiler/checker to compute an EXPECTED value: schemas are produced by a
generator that emits both the schema text (fed to the library) and an abstract structure (fed to the reference
semantics below).  Components are built by hand (type/length/value bytes) so that not even Component.from_str is
part of the oracle.

Abstract schema (JSON-serialisable):
    schema  = {"rules": [rule, ...]}                     (in textual order)
    rule    = {"id": "#r1" | "#_t", "items": [item...], "cons": [[term...]...], "signers": ["#k", ...]}
    item    = ["lit", "a"] | ["pat", "x"] | ["pat", "_t"] | ["ref", "#q"]
    term    = [pattern_ident, [option...]]
    option  = ["lit", "a"] | ["pat", "x"] | ["fn", "$eq", [arg...]]      arg = ["lit", "a"] | ["pat", "x"]

Reference semantics (written from docs/src/lvs/lvs.rst and the property statements):
  * a rule with several definitions = union of its definitions; `{..} | {..}` = alternatives (DNF);
  * a rule reference is expanded by substitution (name pattern AND constraints of the referenced rule are inherited,
    each alternative of the referenced rule giving one alternative of the referring rule);
  * temporary patterns (`_x`) are local to the definition they are written in, every occurrence is independent of every
    other one, a constraint on `_x` constrains every occurrence of `_x` written in that very definition;
    each expansion of a reference gets its own copy;
  * named patterns are global: all occurrences in the expanded name must carry the same component; every constraint on
    a named pattern (inherited or added) applies to that pattern;
  * a name is matched left to right; a constraint on a pattern is evaluated when the pattern is matched first; an
    option that is a pattern `q` is satisfied iff `q` has a value at that time (from an earlier component or carried
    over from the signed packet) equal to the component (documented in the "warning" box of lvs.rst);
  * signing check: the packet matches one alternative of one definition, the key matches one alternative of a rule
    listed as signer in THAT definition, the key match starting from the packet's bindings.
"""
from __future__ import annotations

import hashlib
import json
import random
import re
import sys

# ---------------------------------------------------------------------------------------------------------------
# components (hand-built TLV)
# ---------------------------------------------------------------------------------------------------------------


def lit_bytes(s: str) -> bytes:
    """'a' -> generic component 08 01 61 ; 'v=3' -> version component 36 01 03 (same result as Component.from_str)."""
    if s.startswith('v=') and s[2:].isdigit() and int(s[2:]) < 256:
        return bytes([0x36, 1, int(s[2:])])
    b = s.encode()
    assert len(b) < 253
    return bytes([8, len(b)]) + b


IMPLICIT_DIGEST = bytes([1, 32]) + bytes(range(32))


def comp_type(c: bytes | None):
    return None if c is None else c[0]


def name_hex(name) -> list[str]:
    return [bytes(c).hex() for c in name]


def name_unhex(lst) -> list[bytes]:
    return [bytes.fromhex(h) for h in lst]


# ---------------------------------------------------------------------------------------------------------------
# user functions: REF_FNS is used by the reference, lib_fns() is what is handed to the library's Checker
# ---------------------------------------------------------------------------------------------------------------

def _isin(c, args):
    return any(a is not None and bytes(a) == bytes(c) for a in args)


def _neq(c, args):
    return all(a is None or bytes(a) != bytes(c) for a in args)


REF_FNS = {
    '$eq': lambda c, args: all(a is not None and bytes(a) == bytes(c) for a in args),
    '$eq_type': lambda c, args: all(comp_type(a) == comp_type(c) for a in args),
    '$isin': _isin,
    '$neq': _neq,
}


def lib_fns():
    from ndn.app_support.light_versec import DEFAULT_USER_FNS
    d = dict(DEFAULT_USER_FNS)
    d['$isin'] = _isin
    d['$neq'] = _neq
    return d


# ---------------------------------------------------------------------------------------------------------------
# text rendering
# ---------------------------------------------------------------------------------------------------------------

def _r_item(it):
    return '"%s"' % it[1] if it[0] == 'lit' else it[1]


def _r_opt(op):
    if op[0] == 'lit':
        return '"%s"' % op[1]
    if op[0] == 'pat':
        return op[1]
    return '%s(%s)' % (op[1], ', '.join(_r_item(a) for a in op[2]))


def render_rule(r) -> str:
    s = '%s: %s' % (r['id'], '/'.join(_r_item(i) for i in r['items']))
    if r.get('lead_slash'):
        s = '%s: /%s' % (r['id'], '/'.join(_r_item(i) for i in r['items']))
    if r['cons']:
        s += ' & ' + ' | '.join('{' + ', '.join('%s: %s' % (t[0], '|'.join(_r_opt(o) for o in t[1])) for t in cs) + '}'
                                for cs in r['cons'])
    if r['signers']:
        s += ' <= ' + ' | '.join(r['signers'])
    return s


def render(schema) -> str:
    return '\n'.join(render_rule(r) for r in schema['rules']) + '\n'


# ---------------------------------------------------------------------------------------------------------------
# reference semantics
# ---------------------------------------------------------------------------------------------------------------

class Expansion:
    """definitions -> alternatives ("chains").  chain = (items, cons); item = ('lit', bytes) | ('n', ident) |
    ('t', uid); cons = list of (target, options), target = ('n', ident) | ('t', frozenset(uids))."""

    def __init__(self, schema):
        self.schema = schema
        self.defs = schema['rules']
        self.by_id = {}
        for i, r in enumerate(self.defs):
            if not is_temp(r['id']):
                self.by_id.setdefault(r['id'], []).append(i)
        self._uid = 0
        self._busy = set()
        self.origin = {}      # uid of a copied temporary occurrence -> uid of the written occurrence it stems from

    def fresh(self):
        self._uid += 1
        return self._uid

    def rule_chains(self, rid):
        out = []
        for i in self.by_id.get(rid, []):
            out.extend(self.def_chains(i))
        return out

    def def_chains(self, i):
        if i in self._busy:
            raise ValueError('cyclic reference')
        self._busy.add(i)
        try:
            r = self.defs[i]
            out = []
            for cs in (r['cons'] or [[]]):
                partial = [([], [], {})]        # items, inherited cons, own temp occurrences {ident: [uids]}
                for pos, it in enumerate(r['items']):
                    if it[0] == 'lit':
                        for p in partial:
                            p[0].append(('lit', lit_bytes(it[1])))
                    elif it[0] == 'pat':
                        for p in partial:
                            if it[1].startswith('_'):
                                u = self.fresh()
                                self.origin[u] = ('written', i, pos)
                                p[2].setdefault(it[1], []).append(u)
                                p[0].append(('t', u))
                            else:
                                p[0].append(('n', it[1]))
                    else:
                        new = []
                        for p in partial:
                            for ch in self.rule_chains(it[1]):
                                items2, cons2 = self.rename(ch)
                                new.append((p[0] + items2, p[1] + cons2, {k: list(v) for k, v in p[2].items()}))
                        partial = new
                for p in partial:
                    own = []
                    for pat, opts in cs:
                        if pat.startswith('_'):
                            own.append((('t', frozenset(p[2].get(pat, []))), opts))
                        else:
                            own.append((('n', pat), opts))
                    out.append((p[0], own + p[1]))
            return out
        finally:
            self._busy.discard(i)

    def rename(self, chain):
        items, cons = chain
        m = {}
        for it in items:
            if it[0] == 't':
                m[it[1]] = self.fresh()
                self.origin[m[it[1]]] = self.origin.get(it[1], it[1])
        items2 = [('t', m[it[1]]) if it[0] == 't' else it for it in items]
        cons2 = [((('t', frozenset(m[u] for u in tg[1])) if tg[0] == 't' else tg), opts) for tg, opts in cons]
        return items2, cons2


def is_temp(ident: str) -> bool:
    return ident.lstrip('#').startswith('_')


def opt_holds(op, comp, env, fns) -> bool:
    if op[0] == 'lit':
        return comp == lit_bytes(op[1])
    if op[0] == 'pat':
        return op[1] in env and env[op[1]] == comp
    args = [lit_bytes(a[1]) if a[0] == 'lit' else env.get(a[1]) for a in op[2]]
    return bool(fns[op[1]](comp, args))


def cons_hold(cons, target_pred, comp, env, fns) -> bool:
    for tg, opts in cons:
        if target_pred(tg):
            if not any(opt_holds(o, comp, env, fns) for o in opts):
                return False
    return True


def match_chain(chain, name, env0=None, fns=REF_FNS, skip_cons_on_bound=False, lost_repeat=None):
    """-> None | (env, named patterns of the chain).  Two DEFECT MODELS exist only to LABEL a violation with a specific
    key: `skip_cons_on_bound` (constraints of a pattern that already has a value from env0 are ignored) and
    `lost_repeat` (= Expansion.origin: when the same written temporary occurrence is instantiated several times in one
    alternative - the same rule referenced twice - only the first copy keeps its constraints)."""
    items, cons = chain
    if len(items) != len(name):
        return None
    env = dict(env0 or {})
    seen = set()
    seen_origin = set()
    for it, comp in zip(items, name):
        if it[0] == 'lit':
            if comp != it[1]:
                return None
        elif it[0] == 'n':
            p = it[1]
            if p in env and env[p] != comp:
                return None
            if p not in seen:
                if not (skip_cons_on_bound and p in env):
                    if not cons_hold(cons, lambda tg: tg == ('n', p), comp, env, fns):
                        return None
                seen.add(p)
            env[p] = comp
        else:
            u = it[1]
            if lost_repeat is not None:
                o = lost_repeat.get(u, u)
                if o in seen_origin:
                    continue
                seen_origin.add(o)
                if not cons_hold(cons, lambda tg: tg[0] == 't' and any(lost_repeat.get(x, x) == o for x in tg[1]),
                                 comp, env, fns):
                    return None
                continue
            if not cons_hold(cons, lambda tg: tg[0] == 't' and u in tg[1], comp, env, fns):
                return None
    return env, seen


def ref_match(schema, name, fns=REF_FNS):
    """reference for Checker.match: set of (rule id as written, frozenset of (pattern, component))."""
    ex = Expansion(schema)
    out = set()
    for i, r in enumerate(schema['rules']):
        for ch in ex.def_chains(i):
            m = match_chain(ch, name, None, fns)
            if m is not None:
                env, seen = m
                out.add((r['id'], frozenset((p, env[p]) for p in seen)))
    return out


def ref_check(schema, pkt, key, fns=REF_FNS, skip_cons_on_bound=False) -> bool:
    """reference for Checker.check."""
    ex = Expansion(schema)
    key_chains = {}
    for i, r in enumerate(schema['rules']):
        if not r['signers']:
            continue
        for ch in ex.def_chains(i):
            m = match_chain(ch, pkt, None, fns)
            if m is None:
                continue
            env = {p: m[0][p] for p in m[1]}
            for s in r['signers']:
                if s not in key_chains:
                    key_chains[s] = ex.rule_chains(s)
                for kch in key_chains[s]:
                    if match_chain(kch, key, env, fns, skip_cons_on_bound) is not None:
                        return True
    return False


class RefModel:
    """pre-expanded schema for many queries."""

    def __init__(self, schema, fns=REF_FNS):
        self.schema = schema
        self.fns = fns
        ex = Expansion(schema)
        self.def_chains = [ex.def_chains(i) for i in range(len(schema['rules']))]
        self.origin = ex.origin
        self.rule_chains = {}
        for i, r in enumerate(schema['rules']):
            if not is_temp(r['id']):
                self.rule_chains.setdefault(r['id'], []).extend(self.def_chains[i])
        self.max_len = max([len(ch[0]) for chs in self.def_chains for ch in chs] or [0])

    def match(self, name, lost_repeat=False):
        out = set()
        for r, chs in zip(self.schema['rules'], self.def_chains):
            for ch in chs:
                m = match_chain(ch, name, None, self.fns, lost_repeat=self.origin if lost_repeat else None)
                if m is not None:
                    out.add((r['id'], frozenset((p, m[0][p]) for p in m[1])))
        return out

    def pkt_matches(self, pkt, lost_repeat=False):
        """[(def index, env)]"""
        out = []
        lr = self.origin if lost_repeat else None
        for i, chs in enumerate(self.def_chains):
            for ch in chs:
                m = match_chain(ch, pkt, None, self.fns, lost_repeat=lr)
                if m is not None:
                    out.append((i, {p: m[0][p] for p in m[1]}))
        return out

    def check(self, pkt, key, skip_cons_on_bound=False, pkt_matches=None, lost_repeat=False):
        lr = self.origin if lost_repeat else None
        if pkt_matches is None or lost_repeat:
            pkt_matches = self.pkt_matches(pkt, lost_repeat)
        for i, env in pkt_matches:
            for s in self.schema['rules'][i]['signers']:
                for kch in self.rule_chains.get(s, []):
                    if match_chain(kch, key, env, self.fns, skip_cons_on_bound, lost_repeat=lr) is not None:
                        return True
        return False

    def matches_any_rule(self, name):
        """is there ANY rule the name satisfies for some carried-over bindings?  (an upper bound used for the clause
        'never yes for a key name that matches no rule at all': constraints referring to unbound patterns could be
        satisfied by suitable packet bindings, so only the shape + literal + equality + value options count)."""
        for chs in self.def_chains:
            for ch in chs:
                if match_chain(ch, name, None, self.fns) is not None:
                    return True
        return False


# ---------------------------------------------------------------------------------------------------------------
# library side adapters
# ---------------------------------------------------------------------------------------------------------------

_TEMP_RULE = re.compile(r'^(#_\w*)#\d+$')
_NODE_RULE = re.compile(r'^#_\d+$')


def norm_rule_name(rn: str) -> str:
    m = _TEMP_RULE.match(rn)
    return m.group(1) if m else rn


def lib_match_set(checker, name, written_ids):
    """Checker.match -> (set of (rule, frozenset bindings), list of pseudo rule names reported for inner nodes)."""
    out = set()
    pseudo = []
    for rules, ctx in checker.match(list(name)):
        b = frozenset((k, bytes(v)) for k, v in ctx.items())
        for rn in rules:
            rn2 = norm_rule_name(rn)
            if rn2 not in written_ids and _NODE_RULE.match(rn):
                pseudo.append(rn)
            else:
                out.add((rn2, b))
    return out, pseudo


def show_set(s):
    return sorted((r, sorted((k, v.hex()) for k, v in b)) for r, b in s)


# ---------------------------------------------------------------------------------------------------------------
# schema generator
# ---------------------------------------------------------------------------------------------------------------

LITS = ['a', 'b', 'c', 'v=0']
NAMED = ['x', 'y', 'z']
TEMPS = ['_', '_t']


def expanded_named(schema_rules, items, by_id_named):
    """named patterns occurring in the expanded name of `items` (by_id_named: rule id -> set)."""
    s = set()
    for it in items:
        if it[0] == 'pat' and not it[1].startswith('_'):
            s.add(it[1])
        elif it[0] == 'ref':
            s |= by_id_named.get(it[1], set())
    return s


def gen_schema(rng: random.Random, max_rules=6, signing=False, fns=True, foreign_pats=False, eq_type_pat_args=False):
    """grammar-based generator.  Levels guarantee an acyclic reference graph of depth <= 3.
    signing=True adds an acyclic signing relation (signers only among rules with a larger index-level)."""
    nlits = rng.choice([2, 2, 3, 3, 4])
    lits = LITS[:3][:nlits] if nlits < 4 else LITS
    lits = list(lits)
    n = rng.randint(1, max_rules)
    rules = []
    level = {}            # rule id -> level
    ids_at = {}           # level -> ids
    named_of = {}         # rule id -> named patterns in its expanded names (union over definitions)
    len_of = {}           # rule id -> max expanded length
    next_id = 1
    for _ in range(n):
        r = rng.random()
        existing = [i for i in level]
        if r < 0.15:
            rid = rng.choice(['#_', '#_t'])
            lv = rng.randint(0, 3)
        elif r < 0.35 and existing:
            rid = rng.choice(existing)
            lv = level[rid]
        else:
            rid = '#r%d' % next_id
            next_id += 1
            lv = rng.randint(0, 3) if rules else 0
            if rng.random() < 0.5:
                lv = min(lv, 1 + max([level[i] for i in level] or [-1]))
        refable = [i for i in level if level[i] < lv]
        nitems = rng.choice([1, 2, 2, 3, 3])
        items = []
        total = 0
        dup_ref = None
        for _j in range(nitems):
            q = rng.random()
            if refable and q < 0.35:
                if dup_ref and rng.random() < 0.5:
                    ref = dup_ref
                else:
                    ref = rng.choice(refable)
                if total + len_of[ref] > 5:
                    continue
                dup_ref = ref
                items.append(['ref', ref])
                total += len_of[ref]
            elif q < 0.6:
                items.append(['lit', rng.choice(lits)])
                total += 1
            elif q < 0.85:
                items.append(['pat', rng.choice(NAMED)])
                total += 1
            else:
                items.append(['pat', rng.choice(TEMPS)])
                total += 1
        if not items:
            items.append(['lit', rng.choice(lits)])
            total = 1
        own_named = expanded_named(rules, items, named_of)
        own_temps = sorted({it[1] for it in items if it[0] == 'pat' and it[1].startswith('_')})
        targets = sorted(own_named) + own_temps
        value_pats = sorted(own_named)
        if foreign_pats:
            value_pats = sorted(set(value_pats) | set(NAMED))
        cons = []
        if targets and rng.random() < 0.6:
            for _s in range(rng.choice([1, 1, 2])):
                cs = []
                for _t in range(rng.choice([1, 1, 2])):
                    tg = rng.choice(targets)
                    opts = []
                    for _o in range(rng.choice([1, 1, 2])):
                        q = rng.random()
                        if q < 0.5 or (q < 0.8 and not value_pats):
                            opts.append(['lit', rng.choice(lits + ['zz'] if rng.random() < 0.1 else lits)])
                        elif q < 0.8:
                            opts.append(['pat', rng.choice(value_pats)])
                        elif fns:
                            f = rng.choice(['$eq', '$eq_type', '$isin', '$neq'])
                            if f == '$eq_type':
                                args = [['lit', rng.choice(lits)]]
                                if eq_type_pat_args and value_pats and rng.random() < 0.3:
                                    args = [['pat', rng.choice(value_pats)]]
                            elif f == '$eq' and value_pats:
                                args = [rng.choice([['lit', rng.choice(lits)], ['pat', rng.choice(value_pats)]])
                                        for _a in range(rng.choice([1, 1, 2]))]
                            else:
                                args = [['lit', rng.choice(lits)] for _a in range(rng.choice([1, 2]))]
                            opts.append(['fn', f, args])
                        else:
                            opts.append(['lit', rng.choice(lits)])
                    cs.append([tg, opts])
                cons.append(cs)
        rule = {'id': rid, 'items': items, 'cons': cons, 'signers': []}
        if rng.random() < 0.2 and items[0][0] != 'ref':
            rule['lead_slash'] = True
        rules.append(rule)
        if not is_temp(rid):
            level[rid] = lv
            named_of[rid] = named_of.get(rid, set()) | own_named
            len_of[rid] = max(len_of.get(rid, 0), total)
    schema = {'rules': rules, 'lits': lits}
    if foreign_pats:
        fix_dangling_patterns(rng, schema, lits)
    if signing:
        add_signing(rng, schema)
    return schema


def coarse_pattern(chain):
    """the NAME PATTERN of an alternative, constraints ignored, temporary patterns not distinguished"""
    return tuple(('l', it[1]) if it[0] == 'lit' else (('n', it[1]) if it[0] == 'n' else ('t',)) for it in chain[0])


def own_signer_cycle(schema) -> bool:
    """is some name pattern (directly or transitively) its own signer?  Graph over coarse name patterns: P -> Q when a
    definition with an alternative of pattern P lists a rule that has an alternative of pattern Q as signer.
    (Rules with equal name patterns share one node of the compiled tree, so this is the node-level signing graph or
    a coarsening of it: acyclic here => acyclic there.)"""
    ex = Expansion(schema)
    chains = [ex.def_chains(i) for i in range(len(schema['rules']))]
    pats_of_rule = {}
    for r, chs in zip(schema['rules'], chains):
        if not is_temp(r['id']):
            pats_of_rule.setdefault(r['id'], set()).update(coarse_pattern(c) for c in chs)
    g = {}
    for r, chs in zip(schema['rules'], chains):
        for c in chs:
            p = coarse_pattern(c)
            for s in r['signers']:
                g.setdefault(p, set()).update(pats_of_rule.get(s, set()))
    return has_cycle(g)


def has_cycle(g) -> bool:
    state = {}

    def visit(u):
        state[u] = 1
        for v in g.get(u, ()):
            st = state.get(v, 0)
            if st == 1 or (st == 0 and visit(v)):
                return True
        state[u] = 2
        return False
    return any(state.get(u, 0) == 0 and visit(u) for u in list(g))


def rule_sign_cycle(schema) -> bool:
    g = {}
    for r in schema['rules']:
        g.setdefault(r['id'], set()).update(r['signers'])
    return has_cycle(g)


def add_signing(rng, schema, tries=6):
    """acyclic signing relation over rule ids: order the non-temporary ids randomly, a rule may be signed only by
    ids later in that order (all definitions of an id are at the same place, so no cycle at rule level); re-drawn
    until no name pattern is its own signer (rules with identical name patterns are one node of the model)."""
    ids = []
    for r in schema['rules']:
        if not is_temp(r['id']) and r['id'] not in ids:
            ids.append(r['id'])
    for _try in range(tries):
        rng.shuffle(ids)
        pos = {i: k for k, i in enumerate(ids)}
        for r in schema['rules']:
            r['signers'] = []
            p = pos.get(r['id'], -1)         # temporary rules may be signed by anything
            cands = [i for i in ids if pos[i] > p]
            if cands and rng.random() < 0.7:
                k = rng.choice([1, 1, 2])
                r['signers'] = sorted(set(rng.choice(cands) for _ in range(k)))
        if not own_signer_cycle(schema):
            return
    for r in schema['rules']:
        r['signers'] = []


def alphabet(schema, extra=('zz',), cap=5):
    """component alphabet: every literal used anywhere in the schema (names and constraint values), one fresh
    component, and - when a typed literal occurs - a second component of that type."""
    lits = []

    def add(s):
        if s not in lits:
            lits.append(s)
    for r in schema['rules']:
        for it in r['items']:
            if it[0] == 'lit':
                add(it[1])
        for cs in r['cons']:
            for _p, opts in cs:
                for o in opts:
                    if o[0] == 'lit':
                        add(o[1])
                    elif o[0] == 'fn':
                        for a in o[2]:
                            if a[0] == 'lit':
                                add(a[1])
    out = lits[:cap - len(extra)]
    for e in extra:
        if e not in out:
            out.append(e)
    if any(s.startswith('v=') for s in out) and 'v=1' not in out and len(out) < cap + 1:
        out.append('v=1')
    return [lit_bytes(s) for s in out]


def all_names(alpha, max_len, min_len=0):
    cur = [()]
    if min_len == 0:
        yield ()
    for ln in range(1, max_len + 1):
        cur = [c + (a,) for c in cur for a in alpha]
        if ln >= min_len:
            yield from cur


def case_hash(*parts) -> bytes:
    h = hashlib.blake2b(digest_size=10)
    for p in parts:
        if isinstance(p, (bytes, bytearray)):
            h.update(bytes(p))
        elif isinstance(p, (list, tuple)):
            for q in p:
                h.update(bytes(q) if isinstance(q, (bytes, bytearray)) else str(q).encode())
                h.update(b'/')
        else:
            h.update(str(p).encode())
        h.update(b'|')
    return h.digest()


def schema_json(schema):
    return json.loads(json.dumps(schema))


class Violations:
    def __init__(self, module, per_key=5):
        self.module = module
        self.per_key = per_key
        self.by_key = {}
        self.seen = set()

    def add(self, key, what, inp):
        sig = (key, json.dumps(inp, sort_keys=True, default=str))
        if sig in self.seen:
            return
        self.seen.add(sig)
        lst = self.by_key.setdefault(key, [])
        if len(lst) < self.per_key:
            lst.append({'key': key, 'what': what, 'module': self.module, 'input': inp})

    def list(self):
        return [v for k in sorted(self.by_key) for v in self.by_key[k]]


# ---------------------------------------------------------------------------------------------------------------
# step-bounded execution (C13)
# ---------------------------------------------------------------------------------------------------------------

class StepBudgetExceeded(BaseException):
    pass


def run_bounded(fn, budget=100000):
    """run fn() counting executed lines (sys.settrace); -> ('ok', value) | ('steps', None) | ('exc', exception)."""
    count = [0]

    def tracer(frame, event, arg):
        if event == 'line':
            count[0] += 1
            if count[0] > budget:
                raise StepBudgetExceeded()
        return tracer
    old = sys.gettrace()
    sys.settrace(tracer)
    try:
        try:
            v = fn()
        finally:
            sys.settrace(old)
        return 'ok', v
    except StepBudgetExceeded:
        return 'steps', None
    except RecursionError as e:
        return 'exc', e
    except Exception as e:      # noqa
        return 'exc', e


# ---------------------------------------------------------------------------------------------------------------
# signing-centred generator (C12, C13 positive cases)
# ---------------------------------------------------------------------------------------------------------------

def patterns_in_names(schema):
    s = set()
    for r in schema['rules']:
        for it in r['items']:
            if it[0] == 'pat' and not it[1].startswith('_'):
                s.add(it[1])
    return s


def fix_dangling_patterns(rng, schema, lits):
    """an option / argument may only mention a named pattern that occurs in some name pattern of the schema"""
    present = patterns_in_names(schema)
    for r in schema['rules']:
        for cs in r['cons']:
            for term in cs:
                for k, o in enumerate(term[1]):
                    if o[0] == 'pat' and o[1] not in present:
                        term[1][k] = ['lit', rng.choice(lits)]
                    elif o[0] == 'fn':
                        for j, a in enumerate(o[2]):
                            if a[0] == 'pat' and a[1] not in present:
                                o[2][j] = ['lit', rng.choice(lits)]


def gen_sign_schema(rng: random.Random):
    """packet rule(s) and 1..3 levels of key rules; shared named patterns x, y between packet and key rules,
    constraints on shared patterns, options referring to patterns bound by the packet, signer alternatives,
    redefinitions with different signers, an optional referenced suffix rule."""
    lits = list(rng.choice([['a', 'b'], ['a', 'b', 'k'], ['a', 'k']]))
    nrules = rng.randint(2, 4)
    ids = ['#p', '#k1', '#k2', '#k3'][:nrules]
    rules = []
    suffix = None
    if rng.random() < 0.3:
        rules.append({'id': '#S', 'items': [['lit', rng.choice(lits)], ['pat', '_']][:rng.choice([1, 2])],
                      'cons': [], 'signers': []})
        suffix = '#S'
    for j, rid in enumerate(ids):
        for _d in range(2 if rng.random() < 0.35 else 1):
            items = []
            for _t in range(rng.choice([1, 2, 2, 3])):
                q = rng.random()
                if q < 0.4:
                    items.append(['lit', rng.choice(lits)])
                elif q < 0.85:
                    items.append(['pat', rng.choice(['x', 'y'])])
                else:
                    items.append(['pat', '_'])
            if suffix and rng.random() < 0.3 and len(items) < 3:
                items.append(['ref', suffix])
            targets = sorted({it[1] for it in items if it[0] == 'pat'})
            cons = []
            if targets and rng.random() < 0.6:
                for _s in range(rng.choice([1, 1, 1, 2])):
                    cs = []
                    for _t in range(rng.choice([1, 1, 2])):
                        opts = []
                        for _o in range(rng.choice([1, 1, 2])):
                            q = rng.random()
                            if q < 0.55:
                                opts.append(['lit', rng.choice(lits)])
                            elif q < 0.85:
                                opts.append(['pat', rng.choice(['x', 'y'])])
                            else:
                                opts.append(['fn', '$eq', [rng.choice([['pat', rng.choice(['x', 'y'])],
                                                                       ['lit', rng.choice(lits)]])]])
                        cs.append([rng.choice(targets), opts])
                    cons.append(cs)
            signers = []
            later = ids[j + 1:]
            if later and rng.random() < 0.85:
                signers = sorted(set(rng.choice(later) for _ in range(rng.choice([1, 1, 2]))))
            if _d == 1 and rng.random() < 0.6:
                # a second definition that describes exactly the same names as the first one and differs only in its
                # signers: both definitions end on the same tree node, each must contribute its own signers
                import copy as _copy
                first = next(r for r in rules if r['id'] == rid)
                items, cons = _copy.deepcopy(first['items']), _copy.deepcopy(first['cons'])
                alt = [x for x in later if x not in first['signers']]
                if alt:
                    signers = [rng.choice(alt)]
            rules.append({'id': rid, 'items': items, 'cons': cons, 'signers': signers})
    if rng.random() < 0.5:
        rng.shuffle(rules)
    schema = {'rules': rules, 'lits': lits}
    fix_dangling_patterns(rng, schema, lits)
    for _try in range(8):
        if not own_signer_cycle(schema):
            break
        cand = [r for r in schema['rules'] if r['signers']]
        rng.choice(cand)['signers'] = []
    return schema


def uses_foreign_pattern(schema) -> bool:
    """does some definition mention (as option/argument) a named pattern that does not occur in its own expanded
    name?  (such a pattern has to be carried over from the signed packet)"""
    ex = Expansion(schema)
    for i, r in enumerate(schema['rules']):
        own = set()
        for ch in ex.def_chains(i):
            own |= {it[1] for it in ch[0] if it[0] == 'n'}
        for cs in r['cons']:
            for _p, opts in cs:
                for o in opts:
                    if o[0] == 'pat' and o[1] not in own:
                        return True
                    if o[0] == 'fn' and any(a[0] == 'pat' and a[1] not in own for a in o[2]):
                        return True
    return False


def run_guarded(fn, recursion_margin=120, seconds=10):
    """run fn() untraced, with the recursion limit lowered to (current depth + margin) so that unbounded recursion
    ends quickly, and a SIGALRM hang guard (main thread only); -> ('ok', v) | ('exc', e) | ('hang', None)."""
    import signal
    import threading
    depth = 0
    f = sys._getframe()
    while f is not None:
        depth += 1
        f = f.f_back
    old_limit = sys.getrecursionlimit()
    use_alarm = threading.current_thread() is threading.main_thread() and hasattr(signal, 'SIGALRM')

    class _Hang(BaseException):
        pass

    def on_alarm(signum, frame):
        raise _Hang()
    if use_alarm:
        old_handler = signal.signal(signal.SIGALRM, on_alarm)
        signal.setitimer(signal.ITIMER_REAL, seconds)
    sys.setrecursionlimit(depth + recursion_margin)
    try:
        try:
            return 'ok', fn()
        finally:
            sys.setrecursionlimit(old_limit)
            if use_alarm:
                signal.setitimer(signal.ITIMER_REAL, 0)
                signal.signal(signal.SIGALRM, old_handler)
    except _Hang:
        return 'hang', None
    except RecursionError as e:
        return 'exc', e
    except Exception as e:      # noqa
        return 'exc', e


# ---------------------------------------------------------------------------------------------------------------
# reuse: the harnesses never hand the library a "first use" only.  compile_reused() compiles the same text twice and returns the
# SECOND model (a compiler that keeps state between runs - a cached parse tree that the passes rewrite in place - shows there);
# build_decoy() creates, AFTER the checker under test, another checker on the same bytes with user functions of the same names
# that answer differently (a checker that shares its function table with later checkers shows there).
class RecompileDiffers(Exception):
    pass


def compile_reused(text):
    from ndn.app_support.light_versec import compile_lvs
    first = compile_lvs(text)
    second = compile_lvs(text)
    if bytes(first.encode()) != bytes(second.encode()):
        raise RecompileDiffers('compiling the same schema text a second time in one process gives a different model')
    return second


DECOY_FNS = {nm: (lambda c, args: False) for nm in ('$eq', '$eq_type', '$isin', '$neq')}


def build_decoy(checker):
    from ndn.app_support.light_versec import Checker
    try:
        Checker.load(checker.save(), dict(DECOY_FNS))
    except Exception:   # noqa - the decoy itself is not under test
        pass


# speed: compile_lvs() builds a fresh lark.Lark (LALR table construction, ~25 ms) on every call.  The third-party
# parser generator is not under test, so the harnesses let the REAL compile_lvs reuse one Lark object per grammar
# text (the library's own grammar, transformer class and compiler code stay untouched).
# ---------------------------------------------------------------------------------------------------------------

def cache_lark():
    import ndn.app_support.light_versec.compiler as comp
    real = comp.lark
    if getattr(real, '_c_cached', False):
        return
    cache = {}

    class _LarkProxy:
        _c_cached = True

        def __getattr__(self, name):
            return getattr(real, name)

        @staticmethod
        def Lark(grammar, **kw):   # noqa
            tr = kw.get('transformer')
            key = (grammar, kw.get('parser'), type(tr))
            if key not in cache:
                cache[key] = real.Lark(grammar, **kw)
            return cache[key]
    comp.lark = _LarkProxy()


def static_errors(schema) -> list[str]:
    """the static errors named in the C13 statement, decided on the abstract schema (independent of the library)"""
    errs = []
    rules = schema['rules']
    defined = {r['id'] for r in rules if not is_temp(r['id'])}
    present = patterns_in_names(schema)
    g = {}
    for r in rules:
        own_temps = {it[1] for it in r['items'] if it[0] == 'pat' and it[1].startswith('_')}
        for it in r['items']:
            if it[0] == 'ref':
                if is_temp(it[1]):
                    errs.append('temporary-rule-in-name')
                elif it[1] not in defined:
                    errs.append('undefined-rule-in-name')
                g.setdefault(r['id'], set()).add(it[1])
        for sg in r['signers']:
            if is_temp(sg):
                errs.append('temporary-rule-as-signer')
            elif sg not in defined:
                errs.append('undefined-signer')
        for cs in r['cons']:
            for pat, opts in cs:
                if pat.startswith('_'):
                    if pat not in own_temps:
                        errs.append('constraint-on-pattern-nowhere')
                elif pat not in present:
                    errs.append('constraint-on-pattern-nowhere')
                for o in opts:
                    vals = [o] if o[0] == 'pat' else ([a for a in o[2] if a[0] == 'pat'] if o[0] == 'fn' else [])
                    for v in vals:
                        if v[1].startswith('_'):
                            errs.append('temporary-pattern-as-value')
                        elif v[1] not in present:
                            errs.append('pattern-nowhere')
    if has_cycle(g):
        errs.append('cyclic-reference')
    if rule_sign_cycle(schema):
        errs.append('cyclic-signing')
    return errs


def has_eq_type_pattern_arg(schema) -> bool:
    for r in schema['rules']:
        for cs in r['cons']:
            for _p, opts in cs:
                for o in opts:
                    if o[0] == 'fn' and o[1] == '$eq_type' and any(a[0] == 'pat' for a in o[2]):
                        return True
    return False
