"""C03 bounded stand-in: every expressed Interest completes exactly once with the right outcome.

The REAL ``ndn.appv2.NDNApp`` and ``ndn.app.NDNApp`` are driven (DummyFace, real ``main_loop``) through event histories
on a deterministic virtual-time asyncio loop (see _apploop.py).  After EVERY step the run-time contracts taken from the
property statement are evaluated against a small reference model of the statement:

  post_receive   delivering a packet (Data / Nack) never raises out of ``app._receive``
  post_loop      the loop exception handler was never called (no background task died with an unhandled error)
  post_outcome   each expressed Interest is finished iff the statement says so, with the outcome the statement gives:
                 Data (that very packet) iff it matches (same name / longer name with CanBePrefix / packet hash for an
                 implicit digest) and arrived - and, in v2, was accepted by the validator - before the deadline;
                 InterestNack(reason) for a Nack on its name; InterestTimeout exactly AT the deadline;
                 InterestCanceled / CancelledError on caller cancellation or shutdown; never anything else
  post_pit       nothing about a finished Interest remains in the pending-Interest table and every entry in the table
                 has a pending future (INV_PIT of DESIGN.md A.5)
  post_sent      an express writes exactly one Interest with that name to the face
  post_final     after quiescence (+300 ms) every Interest has finished, the table is empty, shutdown is clean

Events: E(spec) express (<= 3), D(j) Data, N(i) Nack for the i-th Interest, W wait 25 ms, C(i) task.cancel(),
S shutdown, XD(j)/XN(i) the packet delivered in the same loop turn as the next timer expiry (after the timer fired,
before the timed-out task resumes).  Lifetime 40 ms.  Configurations: legacy front-end with an immediate accepting
validator; current front-end with an accepting validator taking 0 / 10 / 50 ms (50 ms > lifetime).
A history is abandoned at its first hard violation (exception / wrong outcome); table residue is recorded and the
history continues.
"""
import asyncio
import hashlib
import json
import random

from ndn import encoding as enc
from ndn import types

from . import _apploop as al

MODULE = 'bounded.c03'
LIFETIME = 40
WAIT = 25
FINAL_WAIT = 300
NACK_REASONS = [50, 100, 150]

# Interest specs: (uri, can_be_prefix, digest)   digest: None | 'good' (hash of DATAS[0]) | 'good1' (hash of DATAS[1]) | 'bad'
SPECS = [
    ('/a/b', False, None),      # 0
    ('/a/b', True, None),       # 1
    ('/a', True, None),         # 2
    ('/a/b/c', False, None),    # 3
    ('/a/b', False, 'good'),    # 4
    ('/a', False, None),        # 5
    ('/a/b', False, 'bad'),     # 6
    ('/a/b', False, 'good1'),   # 7: /a/b + the hash of DATAS[1] (= Data /a/b/c): names no packet; a hash match alone is no match
]
# Data menu: (uri, content)
DATAS = [
    ('/a/b', b'ab'),            # 0
    ('/a/b/c', b'abc'),         # 1
    ('/z', b'z'),               # 2
    ('/a', b'a'),               # 3
]
_DATA_WIRES = None


def data_wires():
    global _DATA_WIRES
    if _DATA_WIRES is None:
        _DATA_WIRES = [al.data_wire(u, c) for u, c in DATAS]
    return _DATA_WIRES


def spec_name(k):
    uri, _cbp, dg = SPECS[k]
    if dg is None:
        return enc.Name.normalize(uri)
    if dg == 'good':
        return al.implicit_name(uri, data_wires()[0])
    if dg == 'good1':
        return al.implicit_name(uri, data_wires()[1])
    return enc.Name.normalize(uri) + [enc.Component.from_bytes(b'\x11' * 32, enc.Component.TYPE_IMPLICIT_SHA256)]


# ---------------------------------------------------------------------------------------------------------------------
# reference model of the statement (per Interest; a SET of possible states where the statement leaves a tie open)
#   ('P',)                       pending
#   ('V', tv, j)                 matched by Data j in time, validator finishes at tv          (v2 only)
#   ('F', kind, detail, t)       finished

def matches(k: int, j: int) -> bool:
    uri, cbp, dg = SPECS[k]
    iname = enc.Name.normalize(uri)
    dname = enc.Name.normalize(DATAS[j][0])
    if dg is not None:
        # full name = name + digest: exact match on the name and on the hash of the packet
        return iname == dname and ((dg == 'good' and j == 0) or (dg == 'good1' and j == 1))
    if iname == dname:
        return True
    return cbp and len(dname) > len(iname) and dname[:len(iname)] == iname


class ModelInterest:
    def __init__(self, k, t, vdelay):
        self.k = k
        self.t0 = t
        self.dl = t + LIFETIME
        self.vdelay = vdelay
        self.states = {('P',)}

    # -- time
    def _resolve_one(self, s, t, inclusive):
        def due(x):
            return x < t or (inclusive and x == t)
        if s[0] == 'P':
            return {('F', 'timeout', None, self.dl)} if due(self.dl) else {s}
        if s[0] == 'V':
            tv, j = s[1], s[2]
            if tv < self.dl:
                return {('F', 'data', j, tv)} if due(tv) else {s}
            if self.dl < tv:
                return {('F', 'timeout', None, self.dl)} if due(self.dl) else {s}
            return {('F', 'data', j, tv), ('F', 'timeout', None, self.dl)} if due(tv) else {s}
        return {s}

    def resolve(self, t, inclusive=True):
        self.states = set().union(*[self._resolve_one(s, t, inclusive) for s in self.states])

    # -- events (applied to non-finished states)
    def _apply_one(self, s, ev, t, me):
        op, arg = ev
        if s[0] == 'F':
            return {s}
        if op in ('D', 'XD'):
            if s[0] == 'P' and matches(self.k, arg):
                if self.vdelay == 0:
                    return {('F', 'data', arg, t)}
                return {('V', t + self.vdelay, arg)}
            return {s}
        if op in ('N', 'XN'):
            # arg = (full name of the nacked Interest as a tuple of bytes, reason)
            if s[0] == 'P' and arg[0] == me:
                return {('F', 'nack', arg[1], t)}
            return {s}
        if op == 'C':
            return {('F', 'canceled', None, t)} if arg else {s}
        if op == 'S':
            if s[0] == 'P':
                return {('F', 'canceled', None, t)}
            # matched and being validated when the face goes down: the statement allows either reading
            return {s, ('F', 'canceled', None, t)}
        return {s}

    def apply(self, ev, t, me, tie=False):
        """tie=True: the event happens in the loop turn in which timers at t fire (X events)"""
        if not tie:
            self.resolve(t, inclusive=True)
            self.states = set().union(*[self._apply_one(s, ev, t, me) for s in self.states])
            return
        self.resolve(t, inclusive=False)
        out = set()
        for s in self.states:
            alts = self._resolve_one(s, t, True)
            if alts != {s}:
                # something of this Interest expires exactly now: expiry first, or the event first
                out |= alts
                if s[0] == 'P':
                    out |= self._apply_one(s, ev, t, me)
            else:
                out |= self._apply_one(s, ev, t, me)
        self.states = out

    def observe(self, actual):
        """actual: None (not finished) | (kind, detail, t).  Filters the state set; returns the expectation if empty."""
        before = self.states
        if actual is None:
            keep = {s for s in before if s[0] != 'F'}
        else:
            keep = {s for s in before if s[0] == 'F' and s[1:] == actual}
        if not keep:
            return before
        self.states = keep
        return None


# ---------------------------------------------------------------------------------------------------------------------
# the driver: real library + contracts

class Hard(Exception):
    def __init__(self, key, what):
        self.key, self.what = key, what


def _fmt_states(states):
    out = []
    for s in sorted(states, key=str):
        if s[0] == 'F':
            out.append(f'{s[1]}({s[2]})@{s[3]}ms')
        elif s[0] == 'V':
            out.append(f'validating-until@{s[1]}ms')
        else:
            out.append('pending')
    return ' | '.join(out)


def _kinds(states):
    return '+'.join(sorted({s[1] if s[0] == 'F' else 'pending' for s in states}))


async def _drive(rig: al.Rig, front: str, vdelay: int, history, soft: list):
    loop = rig.loop
    await rig.start()
    wires = data_wires()
    vcalls = []

    if front == 'v2':
        async def validator(name, sig, ctx):
            vcalls.append(loop.now_ms())
            if vdelay:
                await asyncio.sleep(vdelay / 1000.0)
            return types.ValidResult.PASS
    else:
        async def validator(name, sig):
            vcalls.append(loop.now_ms())
            return True

    ints = []        # dicts: k, task, entry, model, done (kind, detail, t) | None, fullname, wire
    pfx = f'C03:{front}:'

    def on_done(rec, task):
        t = loop.now_ms()
        if task.cancelled():
            rec['done'] = ('canceled', None, t)
            rec['raw'] = 'CancelledError'
            return
        exc = task.exception()
        kind, detail = al.classify(exc)
        rec['raw'] = type(exc).__name__ if exc is not None else 'result'
        rec['exc'] = exc
        if kind == 'data':
            res = task.result()
            name, content = (res[0], res[1]) if front == 'v2' else (res[0], res[2])
            detail = None
            for j, (u, c) in enumerate(DATAS):
                if enc.Name.normalize(u) == [bytes(x) for x in name] and bytes(content) == c:
                    detail = j
        rec['done'] = (kind, detail, t)

    def how_finished(rec):
        kind = rec['done'][0]
        return rec.get('cause', kind) if kind == 'canceled' else kind

    def check(step_no):
        # post_loop
        if rig.loop_errors:
            cls, site = rig.describe_loop_error(rig.loop_errors[0])
            raise Hard(pfx + f'loop-exception-handler:{cls}@{site}',
                       f'a background task ended with an unhandled {cls} in {site} '
                       f'({rig.loop_errors[0].get("message", "")[:50]}) at step {step_no}')
        # post_outcome
        for i, rec in enumerate(ints):
            exp = rec['model'].observe(rec['done'])
            if exp is None:
                continue
            cls = 'digest-interest' if SPECS[rec['k']][2] else 'plain-interest'
            if rec.get('vanished'):
                cls += ':its-entry-vanished-from-pit-earlier'
            if rec['done'] is None:
                raise Hard(pfx + f'wrong-outcome:expected-{_kinds(exp)}-got-pending:{cls}',
                           f'Interest #{i} {SPECS[rec["k"]]} still pending at {loop.now_ms()}ms after step {step_no}; '
                           f'statement requires: {_fmt_states(exp)}')
            kind, detail, t = rec['done']
            if kind == 'error':
                site = al.lib_site(rec['exc'])
                raise Hard(pfx + f'express-ends-with-internal-error:{detail}@{site}',
                           f'Interest #{i} {SPECS[rec["k"]]} ended with internal error {detail} raised in {site} '
                           f'at {t}ms (step {step_no}); statement requires: {_fmt_states(exp)}')
            same_kind = [s for s in exp if s[0] == 'F' and s[1] == kind and s[2] == detail]
            if same_kind:
                raise Hard(pfx + f'wrong-finish-time:{kind}',
                           f'Interest #{i} {SPECS[rec["k"]]} finished {kind}({detail}) at {t}ms; '
                           f'statement requires: {_fmt_states(exp)}')
            if any(s[0] == 'F' and s[1] == kind for s in exp):
                raise Hard(pfx + f'wrong-outcome:{kind}-with-wrong-' + ('packet' if kind == 'data' else 'reason'),
                           f'Interest #{i} {SPECS[rec["k"]]} finished {kind}({detail}) at {t}ms after step {step_no}; '
                           f'statement requires: {_fmt_states(exp)}')
            raise Hard(pfx + f'wrong-outcome:expected-{_kinds(exp)}-got-{kind}:{cls}',
                       f'Interest #{i} {SPECS[rec["k"]]} finished {kind}({detail}) [{rec["raw"]}] at {t}ms after step '
                       f'{step_no}; statement requires: {_fmt_states(exp)}')
        # post_pit
        nodes = rig.pit_nodes()
        in_pit = {}
        for name, node in nodes:
            if not node.pending_list:
                soft.append((pfx + 'pit-empty-node', f'empty node left in the pending-Interest table after step {step_no}'))
            for e in node.pending_list:
                in_pit[id(e)] = e
        owned = set()
        for i, rec in enumerate(ints):
            e = rec['entry']
            if e is None:
                continue
            owned.add(id(e))
            if rec['done'] is not None and id(e) in in_pit:
                soft.append((pfx + f'finished-interest-still-in-pit:after-{how_finished(rec)}',
                             f'Interest #{i} {SPECS[rec["k"]]} finished ({how_finished(rec)}) but its entry is still in '
                             f'the pending-Interest table after step {step_no}'))
            if rec['done'] is None and rec['model'].states == {('P',)} and id(e) not in in_pit:
                rec['vanished'] = True
                soft.append((pfx + 'pending-interest-missing-from-pit',
                             f'Interest #{i} {SPECS[rec["k"]]} is pending (no matching packet, deadline ahead) but its '
                             f'entry has disappeared from the pending-Interest table after step {step_no}'))
        for ide, e in in_pit.items():
            if e.future.done() and ide not in owned:
                soft.append((pfx + 'pit-entry-with-done-future', f'entry with a completed future in the table after '
                                                                 f'step {step_no}'))

    def stale_label():
        """root cause label, taken at the moment a delivery raised: which already-completed futures were still
        reachable from the table (an entry left behind by a finished Interest, or the entry of an Interest whose
        wait_for timer has just fired and which has not yet resumed)"""
        live = {id(x) for x in rig.pit_entries()}
        labels = set()
        for rec in ints:
            ent = rec['entry']
            if ent is None or id(ent) not in live:
                continue
            if rec['done'] is not None:
                labels.add('entry-left-after-' + how_finished(rec))
            elif ent.future.cancelled():
                labels.add('entry-of-interest-timing-out-this-turn')
        left = sorted(x for x in labels if x.startswith('entry-left'))
        return left[0] if left else (sorted(labels)[0] if labels else '')

    async def deliver(wire, what, tie, op):
        seen = {}

        def sync_inject():
            try:
                rig.inject_now(wire)
            except Exception:
                seen['stale'] = stale_label()
                raise
        try:
            if tie:
                await al.same_turn(loop, sync_inject)
            else:
                try:
                    await rig.inject(wire)
                except Exception:
                    seen['stale'] = stale_label()
                    raise
        except (al.HarnessError, al.Deadlock):
            raise
        except Exception as e:  # contract post_receive: ANY exception escaping _receive is a violation
            site = al.lib_site(e)
            cls = al.exc_label(e)
            how = 'in the loop turn of a timer expiry' if tie else 'between timer expiries'
            stale = seen.get('stale', '')
            suffix = (':' + stale) if stale and cls == 'InvalidStateError' else ''
            raise Hard(pfx + f'receive-raises:{cls}@{site}{suffix}',
                       f'{cls} escaped app._receive (raised in {site}) while delivering {what} {how}'
                       + (f' [{stale}]' if stale else ''))

    shut = False
    for step_no, (op, arg) in enumerate(history):
        t = loop.now_ms()
        if op == 'E':
            for rec in ints:
                rec['model'].resolve(t)
            name = spec_name(arg)
            before = {id(e) for e in rig.pit_entries()}
            rig.take_sent()
            kw = dict(can_be_prefix=SPECS[arg][1], lifetime=LIFETIME, nonce=0x01020300 + len(ints))
            if front == 'v2':
                coro = rig.app.express(name, validator, **kw)
            elif len(ints) % 2 == 1:
                # every other Interest of the legacy front-end is expressed with a parameter OBJECT that the caller goes on
                # using for something else right away: what was sent is what counts, not what the object says later
                ip = enc.InterestParam(can_be_prefix=kw['can_be_prefix'], lifetime=kw['lifetime'], nonce=kw['nonce'])
                coro = rig.app.express_interest(name, validator=validator, interest_param=ip)
                ip.can_be_prefix = not ip.can_be_prefix
                ip.lifetime = 1
                ip.must_be_fresh = True
            else:
                coro = rig.app.express_interest(name, validator=validator, **kw)
            new = [e for e in rig.pit_entries() if id(e) not in before]
            sent = rig.take_sent()
            rec = {'k': arg, 'entry': new[0] if len(new) == 1 else None, 'done': None, 'wire': sent,
                   'fullname': tuple(bytes(c) for c in name), 'model': ModelInterest(arg, t, vdelay if front == 'v2' else 0)}
            rec['task'] = loop.create_task(coro)
            rec['task'].add_done_callback(lambda task, rec=rec: on_done(rec, task))
            ints.append(rec)
            # post_sent
            ok = False
            try:
                pname, _p, _a, _s = enc.parse_interest(sent, with_tl=True)
                ok = [bytes(c) for c in pname] == [bytes(c) for c in name] and len(new) == 1
            except Exception:  # noqa: unparsable output is the violation reported below
                ok = False
            if not ok:
                raise Hard(pfx + 'express-does-not-send-one-interest',
                           f'express of {SPECS[arg]} wrote {sent.hex()} / added {len(new)} table entries')
        elif op in ('D', 'XD', 'LD'):
            # LD: the same Data inside a link-layer envelope (64 L (50 |d| d)): processed exactly as the bare packet
            mop = 'D' if op == 'LD' else op
            for rec in ints:
                rec['model'].apply((mop, arg), t if mop == 'D' else _next_timer_ms(loop, t), rec['fullname'], tie=(op == 'XD'))
            w_ = wires[arg]
            if op == 'LD':
                def tl(t_, v):
                    n = len(v)
                    ln = bytes([n]) if n < 253 else (b'\xfd' + n.to_bytes(2, 'big'))
                    return bytes([t_]) + ln + v
                w_ = tl(0x64, tl(0x50, w_))
            await deliver(w_, f'Data {DATAS[arg][0]}' + (' in an LpPacket' if op == 'LD' else ''), op == 'XD', mop)
        elif op in ('N', 'XN'):
            tgt = ints[arg]
            reason = NACK_REASONS[arg]
            for rec in ints:
                rec['model'].apply((op, (tgt['fullname'], reason)), t if op == 'N' else _next_timer_ms(loop, t),
                                   rec['fullname'], tie=(op == 'XN'))
            await deliver(al.nack_wire(tgt['wire'], reason), f'Nack({reason}) for Interest #{arg}', op == 'XN', op)
        elif op == 'W':
            await al.sleep_until(loop, t + WAIT)
        elif op == 'C':
            for i, rec in enumerate(ints):
                rec['model'].apply(('C', i == arg), t, rec['fullname'])
            if ints[arg]['done'] is None:
                ints[arg]['cause'] = 'caller-cancel'
            ints[arg]['task'].cancel()
        elif op == 'S':
            for rec in ints:
                rec['model'].apply(('S', None), t, rec['fullname'])
            shut = True
            for rec in ints:
                if rec['done'] is None:
                    rec.setdefault('cause', 'shutdown')
            rig.app.shutdown()
        else:
            raise al.HarnessError(f'unknown op {op}')
        await al.settle(loop)
        now = loop.now_ms()
        for rec in ints:
            rec['model'].resolve(now)
        check(step_no)

    # post_final: quiescence
    await al.sleep_until(loop, loop.now_ms() + FINAL_WAIT)
    await al.settle(loop)
    for rec in ints:
        rec['model'].resolve(loop.now_ms())
    check('final')
    for i, rec in enumerate(ints):
        if rec['done'] is None:
            raise Hard(pfx + 'never-finishes', f'Interest #{i} {SPECS[rec["k"]]} has not finished {FINAL_WAIT}ms after '
                                               f'the last event')
    if rig.pit_entries() and not any('still-in-pit' in k for k, _ in soft):
        soft.append((pfx + 'pit-not-empty-at-quiescence', 'entries remain in the pending-Interest table when every '
                                                          'Interest has finished'))
    if not shut:
        rig.app.shutdown()
    await al.settle(loop)
    if not rig.main.done():
        raise Hard(pfx + 'main-loop-does-not-end', 'main_loop did not return after shutdown')
    if rig.main.cancelled() or rig.main.exception() is not None:
        e = None if rig.main.cancelled() else rig.main.exception()
        raise Hard(pfx + f'main-loop-raises:{type(e).__name__}', f'main_loop ended with {e!r} at shutdown')
    check('shutdown')
    return None


def _next_timer_ms(loop, t):
    timers = loop.live_timers()
    if not timers:
        return t
    return int(round(min(h._when for h in timers) * 1000))


# ---------------------------------------------------------------------------------------------------------------------
# directed scenarios (values of the lifetime and of the moment the caller awaits that the history alphabet does not move)

SCENARIOS = ('lifetime0-nodata', 'lifetime0-data-10ms-later', 'awaited-late-data-came-in-time', 'awaited-late-nothing-came')


async def _scenario(rig: al.Rig, front: str, which: str, out: list):
    loop = rig.loop
    await rig.start()
    pfx = f'C03:{front}:'
    if front == 'v2':
        async def validator(name, sig, ctx):
            return types.ValidResult.PASS
    else:
        async def validator(name, sig):
            return True
    name = enc.Name.normalize('/a/b')
    wire = data_wires()[0]
    lifetime = 0 if which.startswith('lifetime0') else LIFETIME
    if front == 'v2':
        coro = rig.app.express(name, validator, lifetime=lifetime, nonce=0x0a0b0c0d)
    else:
        coro = rig.app.express_interest(name, validator=validator, lifetime=lifetime, nonce=0x0a0b0c0d)
    rig.take_sent()
    t0 = loop.now_ms()

    async def outcome(aw):
        try:
            res = await aw
            return 'data', (res[1] if front == 'v2' else res[2])
        except BaseException as e:  # noqa - classified below
            return al.classify(e)
    if which.startswith('lifetime0'):
        task = loop.create_task(outcome(coro))
        if which == 'lifetime0-data-10ms-later':
            await asyncio.sleep(0.010)
            await rig.inject(wire)
        await asyncio.sleep(0.020)
        if not task.done():
            out.append((pfx + 'lifetime-0-still-pending', f'an Interest expressed with InterestLifetime 0 is still unfinished 20 ms later ({which})'))
            task.cancel()
        elif task.result()[0] != 'timeout':
            out.append((pfx + 'lifetime-0-wrong-outcome', f'an Interest with InterestLifetime 0 finished with {task.result()[0]}, the statement '
                                                          f'gives InterestTimeout at its deadline ({which})'))
    else:
        # the caller keeps the awaitable, does other work for longer than the lifetime and only then awaits it
        await asyncio.sleep(0.025)
        if which == 'awaited-late-data-came-in-time':
            await rig.inject(wire)
        await asyncio.sleep(0.035)
        kind, detail = await outcome(coro)
        want = 'data' if which == 'awaited-late-data-came-in-time' else 'timeout'
        if kind != want or (kind == 'data' and bytes(detail) != DATAS[0][1]):
            out.append((pfx + 'awaited-late-wrong-outcome', f'awaitable fetched {loop.now_ms() - t0} ms after express ({which}): outcome {kind}, '
                                                            f'the statement gives {want}'))
    await asyncio.sleep(FINAL_WAIT / 1000.0)
    if rig.pit_entries():
        out.append((pfx + 'table-residue-after-quiescence', f'{len(rig.pit_entries())} entries left in the pending-Interest table ({which})'))
    if rig.loop_errors:
        cls, site = rig.describe_loop_error(rig.loop_errors[0])
        out.append((pfx + f'loop-exception-handler:{cls}@{site}', f'a background task ended with an unhandled {cls} in {site} ({which})'))


def run_history(front: str, vdelay: int, history):
    """returns list of (key, what)"""
    soft = []
    hard = []
    if history and history[0][0] == 'SCN':
        async def go_s(rig):
            await _scenario(rig, front, history[0][1], soft)
        res = al.run_case(go_s, front)
        if isinstance(res, dict) and res.get('deadlock'):
            soft.append((f'C03:{front}:never-finishes', f'event loop ran dry in scenario {history[0][1]}'))
        return soft

    async def go(rig):
        try:
            await _drive(rig, front, vdelay, history, soft)
        except Hard as h:
            hard.append((h.key, h.what))
    res = al.run_case(go, front)
    if isinstance(res, dict) and res.get('deadlock'):
        hard.append((f'C03:{front}:never-finishes', 'event loop ran dry while an awaitable returned by express was '
                                                    'still pending'))
    out, seen = [], set()
    for key, what in soft + hard:
        if key not in seen:
            seen.add(key)
            out.append((key, what))
    return out


# ---------------------------------------------------------------------------------------------------------------------
# case generation

CONFIGS = [('v1', 0), ('v2', 0), ('v2', 10), ('v2', 50)]
QUICK_SPECS = [0, 1, 2, 4]
QUICK_DATAS = [0, 1, 2]
FULL_SPECS = list(range(len(SPECS)))
FULL_DATAS = list(range(len(DATAS)))


def options(prefix, specs, datas, max_int=3):
    k = sum(1 for op, _ in prefix if op == 'E')
    shut = any(op == 'S' for op, _ in prefix)
    out = []
    if k < max_int and not shut:
        out += [('E', s) for s in specs]
    if not prefix:
        return out
    out += [('D', j) for j in datas]
    out += [('N', i) for i in range(k)]
    out += [('C', i) for i in range(k)]
    out.append(('W', None))
    if not shut:
        out.append(('S', None))
    out.append(('XD', datas[0]))
    out += [('XN', i) for i in range(k)]
    return out


def enumerate_histories(max_len, specs, datas):
    """all histories of length 1..max_len that start with an express"""
    def rec(prefix):
        if prefix:
            yield tuple(prefix)
        if len(prefix) == max_len:
            return
        for o in options(prefix, specs, datas):
            prefix.append(o)
            yield from rec(prefix)
            prefix.pop()
    yield from rec([])


def random_history(rng, length, specs, datas):
    h = []
    for _ in range(length):
        h.append(rng.choice(options(h, specs, datas)))
    return tuple(h)


def nontrivial(history) -> bool:
    """at least one Interest expressed and at least one later event that is not an express"""
    seen_e = False
    for op, _ in history:
        if op == 'E':
            seen_e = True
        elif seen_e:
            return True
    return False


def case_id(front, vdelay, history) -> str:
    return hashlib.sha1(json.dumps([front, vdelay, history]).encode()).hexdigest()[:16]


# witnesses of length 5-6 found by the thorough tier, kept in every tier so that the violation keys do not depend on it
SEEDS = [
    ('v2', 50, (('E', 0), ('D', 0), ('W', None), ('E', 0), ('W', None))),
    ('v2', 50, (('E', 0), ('D', 0), ('W', None), ('E', 0), ('W', None), ('N', 1))),
    ('v2', 50, (('E', 0), ('D', 0), ('W', None), ('E', 0), ('W', None), ('D', 0))),
    ('v1', 0, (('E', 0), ('E', 0), ('C', 0), ('W', None), ('N', 1), ('W', None))),
    ('v2', 10, (('E', 1), ('E', 2), ('XD', 1), ('W', None), ('C', 0), ('S', None))),
    # an Interest /a/b/<hash of Data /a/b/c> (no CanBePrefix): the longer Data must not complete it, with and without a
    # CanBePrefix Interest on the same name that the Data does complete
    ('v2', 0, (('E', 4), ('E', 0), ('LD', 0), ('W', None), ('W', None))),
    ('v1', 0, (('E', 4), ('E', 0), ('LD', 0), ('W', None), ('W', None))),
    ('v2', 10, (('E', 4), ('E', 1), ('E', 6), ('LD', 0), ('W', None), ('W', None))),
    ('v2', 0, (('E', 2), ('LD', 1), ('W', None), ('E', 4), ('LD', 0), ('W', None))),
    ('v2', 0, (('E', 7), ('D', 1), ('W', None), ('W', None))),
    ('v1', 0, (('E', 7), ('D', 1), ('W', None), ('W', None))),
    ('v2', 0, (('E', 7), ('E', 1), ('D', 1), ('W', None), ('W', None))),
    ('v1', 0, (('E', 1), ('E', 7), ('D', 1), ('W', None), ('W', None))),
    ('v2', 10, (('E', 7), ('E', 4), ('D', 0), ('D', 1), ('W', None), ('W', None))),
]


def cases(tier, seed, shard):
    k, n = shard
    for i, c in enumerate(SEEDS):
        if i % n == k:
            yield c
    for j, sc in enumerate(SCENARIOS):
        for front in ('v1', 'v2'):
            if (j + (front == 'v2')) % n == k:
                yield front, 0, (('SCN', sc),)
    if tier == 'quick':
        ex_len, rnd = 4, 1500
    else:
        ex_len, rnd = 5, 60000
    idx = 0
    for h in enumerate_histories(ex_len, QUICK_SPECS, QUICK_DATAS):
        for front, vd in CONFIGS:
            if idx % n == k:
                yield front, vd, h
            idx += 1
    rng = random.Random(seed * 1000 + k)
    for _ in range(rnd):
        front, vd = rng.choice(CONFIGS)
        yield front, vd, random_history(rng, rng.choice([5, 6]), FULL_SPECS, FULL_DATAS)


def run(tier: str, seed: int, shard: tuple) -> dict:
    al.quiet_logging()
    sink = al.ViolationSink(MODULE)
    distinct = set()
    evaluations = 0
    samples = []
    for front, vd, h in cases(tier, seed, shard):
        evaluations += 1
        if nontrivial(h):
            distinct.add(case_id(front, vd, h))
        if len(samples) < 4 and len(h) >= 3 and evaluations % 97 == 0:
            samples.append({'front': front, 'validator_ms': vd, 'history': [list(e) for e in h]})
        for key, what in run_history(front, vd, h):
            sink.add(key, what, {'front': front, 'validator_ms': vd, 'history': [list(e) for e in h]}, len(h))
    return {
        'evaluations': evaluations,
        'distinct_nontrivial': len(distinct),
        'rule': 'event histories over {E(spec) express <=3 Interests on /a, /a/b, /a/b/c with/without CanBePrefix or an '
                'implicit digest; D Data /a/b,/a/b/c,/z(,/a); N(i) Nack; W +25ms; C(i) task.cancel(); S shutdown; '
                'XD/XN packet in the loop turn of the next timer expiry} x {legacy app, appv2 with validator latency '
                '0/10/50 ms}, lifetime 40 ms, virtual clock; contracts checked after every step against a reference '
                'model of the statement. distinct = sha1(config, history); non-trivial = an express followed by at '
                'least one other event',
        'bound': ('quick: 5 seed histories + all histories of length <= 4 over the reduced alphabet (4 specs, 3 Data) x 4 configurations '
                  '+ 1500 random histories of length 5-6 per shard over the full alphabet' if tier == 'quick' else
                  'thorough: 5 seed histories + all histories of length <= 5 over the reduced alphabet x 4 configurations + 60000 random '
                  'histories of length 5-6 per shard over the full alphabet (7 specs, 4 Data)'),
        'exhaustive': False,
        'samples': samples,
        'violations': sink.records(),
    }


def replay(rec: dict):
    al.quiet_logging()
    inp = rec['input']
    h = tuple((op, arg) for op, arg in inp['history'])
    found = run_history(inp['front'], inp['validator_ms'], h)
    keys = [k for k, _ in found]
    holds = rec.get('key') not in keys if rec.get('key') else not found
    return holds, ('; '.join(f'{k}: {w}' for k, w in found) or 'all contracts hold on this history')
