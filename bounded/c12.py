"""C12 - the signing check holds exactly when the schema lets that key sign that packet (bounded stand-in).

Contract (from the statement): `Checker.check(pkt, key)` is True  <=>  the packet name matches some alternative of
some rule definition D, and the key name matches some alternative of a rule listed as signer in D, where the key
match starts from the bindings of the packet match (named patterns keep their value; ALL constraints of the key rule
hold).  Never True for a key name that matches no rule; a trailing implicit-digest component on either name does not
change the answer.  The oracle is `RefModel.check` of bounded/_lvs.py (no library code).
"""
from __future__ import annotations

import random

from . import _lvs as L

MODULE = 'bounded.c12'
RULE = ('signing-centred generated schemas (packet rule + 1..3 levels of key rules, shared pattern names, constraints on '
        'shared patterns, options referring to packet-bound patterns, signer alternatives, redefinitions) and general '
        'grammar-based schemas with an acyclic signing relation; ALL pairs of names of length 0..3 over the schema '
        'literals + one fresh component, plus all pairs (packet name of length 4 matching some rule, key name of '
        'length <= 4 matching some rule); a case = (schema, pkt, key); non-trivial = the packet name matches a rule '
        'that has signers (reference or library); distinct = hash(schema text, pkt, key)')
BOUND = 'quick 640 schemas, thorough 12000 schemas; names <= 4 components over <= 4 distinct components'

N_SCHEMAS = {'quick': 640, 'thorough': 12000}


def build(schema):
    L.cache_lark()
    from ndn.app_support.light_versec import compile_lvs, Checker
    ck = Checker(L.compile_reused(L.render(schema)), L.lib_fns())
    L.build_decoy(ck)
    return ck


# ------------------------------------------------------------------------------------------------- contracts

def post_check(ref, pkt, key, got, pkt_matches=None):
    """-> None | (key, what)"""
    if pkt_matches is None:
        pkt_matches = ref.pkt_matches(pkt)
    exp = ref.check(pkt, key, pkt_matches=pkt_matches)
    if got != exp and got in (True, False):
        # defect model of C11 (a rule with a constrained temporary pattern referenced twice keeps the constraint on the
        # first copy only) - same defect observed through check()
        if ref.check(pkt, key, lost_repeat=True) == got and ref.check(pkt, key, skip_cons_on_bound=True) != got:
            return ('C12:temp-constraint-lost-on-repeated-reference',
                    'check says %r, the schema says %r: a rule with a constrained temporary pattern is referenced twice '
                    'in one name pattern and only the first copy keeps the constraint (defect of C11 seen through '
                    'check)' % (got, exp))
    if got is True and exp is False:
        if ref.check(pkt, key, skip_cons_on_bound=True, pkt_matches=pkt_matches):
            return ('C12:bound-tag-skips-constraints',
                    'check says yes although the key name violates a constraint of the key rule: the constraint is on '
                    'a pattern that already got its value from the packet name and is skipped')
        if ref.check(pkt, key, skip_cons_on_bound=True, lost_repeat=True):
            return ('C12:temp-constraint-lost-on-repeated-reference',
                    'check says yes: combination of the repeated-reference defect and the bound-tag defect')
        if not key_matches_some_rule(ref, key, pkt_matches):
            return ('C12:yes-for-key-matching-no-rule', 'check says yes for a key name that matches no rule at all')
        return ('C12:check-yes-not-allowed', 'check says yes but no definition matched by the packet lists a rule '
                                             'matched by the key (with the packet bindings) as signer')
    if got is False and exp is True:
        return ('C12:check-no-but-allowed', 'check says no although the schema lets this key sign this packet')
    if got is not True and got is not False:
        return ('C12:check-not-bool', 'check returned %r' % (got,))
    return None


def key_matches_some_rule(ref, key, pkt_matches):
    envs = [{}] + [env for _i, env in pkt_matches]
    for chs in ref.def_chains:
        for ch in chs:
            for env in envs:
                if L.match_chain(ch, key, env, ref.fns) is not None:
                    return True
    return False


def post_digest(checker, pkt, key, got):
    """a trailing implicit-digest component on either name is ignored"""
    d = L.IMPLICIT_DIGEST
    for p2, k2, nm in ((list(pkt) + [d], list(key), 'packet'), (list(pkt), list(key) + [d], 'key'),
                       (list(pkt) + [d], list(key) + [d], 'both')):
        try:
            g2 = checker.check(p2, k2)
        except Exception as e:   # noqa
            return ('C12:implicit-digest-not-ignored', 'with a digest component on %s name check raises %r' % (nm, e))
        if g2 != got:
            return ('C12:implicit-digest-not-ignored',
                    'check gives %r without and %r with a trailing implicit digest on the %s name' % (got, g2, nm))
    return None


def run_case(schema, pkt, key, checker=None, ref=None, pkt_matches=None, digest=True):
    if checker is None:
        checker = build(schema)
    if ref is None:
        ref = L.RefModel(schema)
    res = []
    try:
        got = checker.check(list(pkt), list(key))
    except IndexError as e:
        if len(pkt) == 0 or len(key) == 0:
            return [('C12:empty-name-indexerror', 'check() with an empty name raises IndexError instead of answering no')]
        return [('C12:check-raises', 'check raised %r' % (e,))]
    except Exception as e:   # noqa
        return [('C12:check-raises', 'check raised %r' % (e,))]
    r = post_check(ref, tuple(pkt), tuple(key), got, pkt_matches)
    if r:
        res.append(r)
    if digest:
        r = post_digest(checker, pkt, key, got)
        if r:
            res.append(r)
    return res


# ------------------------------------------------------------------------------------------------- driver

def schema_for(seed, idx):
    rng = random.Random(seed * 1000003 + idx * 104729 + 12)
    if idx % 3 == 2:
        return L.gen_schema(rng, max_rules=5, signing=True, foreign_pats=(idx % 2 == 0))
    return L.gen_sign_schema(rng)


def is_later_rule_pattern_defect(schema, exc) -> bool:
    """compile_lvs rejects some error-free schemas in which a constraint mentions a pattern that occurs only in a rule
    the compiler happens to number later - reported by bounded/c13.py as C13:pattern-of-other-rule-rejected; such
    schemas cannot be used here."""
    return type(exc).__name__ == 'SemanticError' and 'never occurs before' in str(exc) and L.uses_foreign_pattern(schema)


def failing_user_function_probe():
    """a user function that FAILS on a component it cannot read (raises) has not said that the constraint holds: check() may
    raise or answer no, never yes.  -> list of (key, what, input)"""
    from ndn.app_support.light_versec import compile_lvs, Checker
    from ndn.encoding import Name, Component
    text = ('#key: "app"/"KEY"/owner/level & {level: $at_most("3")}\n'
            '#data: "app"/"data"/owner/_ <= #key\n')

    def at_most(c, args):
        return int(bytes(Component.get_value(c))) <= int(bytes(Component.get_value(args[0])))
    fns = dict(L.lib_fns())
    fns['$at_most'] = at_most
    out = []
    try:
        ck = Checker(compile_lvs(text), fns)
    except Exception as e:   # noqa
        return [('C12:compile-raises', 'probe schema rejected: %r' % (e,), {'schema': None, 'text': text, 'pkt': None, 'key': None})]
    for key_last, want in (('2', True), ('7', False), ('root', 'not-yes'), ('', 'not-yes')):
        pkt, key = Name.from_str('/app/data/bob/1'), Name.from_str('/app/KEY/bob') + [Component.from_str(key_last)]
        try:
            got = ck.check(pkt, key)
        except Exception:   # noqa - an error is not a yes
            got = 'raised'
        bad = (want is True and got is not True) or (want is False and got is not False) or (want == 'not-yes' and got is True)
        if bad:
            out.append(('C12:user-function-failure-counts-as-satisfied' if want == 'not-yes' else 'C12:check-wrong',
                        'check(/app/data/bob/1, /app/KEY/bob/%s) -> %r with a user function that %s' % (
                            key_last, got, 'raises on that component' if want == 'not-yes' else 'answers %r' % want),
                        {'schema': None, 'text': text, 'pkt': None, 'key': key_last, 'probe': 'failing-user-function'}))
    return out


def run(tier: str, seed: int, shard: tuple[int, int]) -> dict:
    k, n = shard
    viol = L.Violations(MODULE)
    seen = set()
    evaluations = 0
    if k == 0:
        for key_, what_, inp_ in failing_user_function_probe():
            viol.add(key_, what_, inp_)
        evaluations += 4
    skipped = 0
    samples = []
    total = N_SCHEMAS.get(tier, N_SCHEMAS['quick'])
    for idx in range(total):
        if idx % n != k:
            continue
        schema = schema_for(seed, idx)
        text = L.render(schema)
        try:
            checker = build(schema)
        except Exception as e:   # noqa
            if is_later_rule_pattern_defect(schema, e):
                skipped += 1
                continue
            viol.add('C12:compile-raises', 'well-formed schema rejected: %r' % (e,),
                     {'schema': L.schema_json(schema), 'text': text, 'pkt': None, 'key': None})
            evaluations += 1
            continue
        ref = L.RefModel(schema)
        alpha = L.alphabet(schema, cap=4)
        written = {r['id'] for r in schema['rules']}
        short = list(L.all_names(alpha, 3))
        long4 = [nm for nm in L.all_names(alpha, 4, 4)]
        # names of length 4 that match some rule (reference with any carried bindings is approximated by: the library
        # OR the reference reports a match for the bare name)
        def matches(nm):
            if ref.match(nm):
                return True
            try:
                return bool(L.lib_match_set(checker, nm, written)[0])
            except Exception:   # noqa - only used to select cases; C11 checks match()
                return False
        long_pk = [nm for nm in long4 if any(schema['rules'][i]['signers'] for i, _ in ref.pkt_matches(nm))]
        long_key = [nm for nm in long4 if matches(nm)]
        pkts = short + long_pk
        keys_all = short + long_key
        for pi, pkt in enumerate(pkts):
            pm = ref.pkt_matches(pkt)
            nontrivial = any(schema['rules'][i]['signers'] for i, _ in pm)
            keys = keys_all if (len(pkt) < 4 or True) else short
            for ki, key in enumerate(keys):
                evaluations += 1
                res = run_case(schema, pkt, key, checker, ref, pm, digest=((pi * 31 + ki) % 11 == 0))
                if nontrivial:
                    seen.add(L.case_hash(text, pkt, b'<=', key))
                for vk, what in res:
                    viol.add(vk, what, {'schema': L.schema_json(schema), 'text': text,
                                        'pkt': L.name_hex(pkt), 'key': L.name_hex(key)})
        if len(samples) < 4:
            samples.append({'schema': text, 'pairs': len(pkts) * len(keys_all)})
    return {'evaluations': evaluations, 'distinct_nontrivial': len(seen), 'rule': RULE, 'bound': BOUND,
            'exhaustive': False, 'samples': samples, 'violations': viol.list(),
            'skipped_schemas_rejected_by_known_compile_defect': skipped}


def replay(rec: dict) -> tuple[bool, str]:
    inp = rec['input']
    if inp.get('probe') == 'failing-user-function':
        found = [x for x in failing_user_function_probe() if x[0] == rec.get('key')]
        return (not found, found[0][1] if found else 'probe holds')
    schema = inp['schema']
    try:
        checker = build(schema)
    except Exception as e:   # noqa
        return False, 'compile raises %r for\n%s' % (e, L.render(schema))
    if inp.get('pkt') is None:
        return True, 'schema compiles'
    pkt, key = L.name_unhex(inp['pkt']), L.name_unhex(inp['key'])
    res = run_case(schema, pkt, key, checker)
    want = rec.get('key')
    hit = [r for r in res if want is None or r[0] == want]
    if hit:
        return False, '; '.join('%s: %s' % r for r in hit)
    return True, 'contract holds for this case'
