"""Shared helpers for the bounded stand-ins c07 / c08 / c09.

Everything here is written from the NDN TLV encoding rules (NDN packet format 0.3, "TLV encoding" section) and does
NOT import the library's tlv_var / TlvModel code: it is the independent reference side of the differential checks.

  * var-number codec (shortest form + forced longer forms), NonNegativeInteger codec
  * a bounds-checked TLV walker
  * a tiny tree representation of packets (Node) with a serialiser that can override individual length fields, used
    by the grammar generators and the single-edit mutators
  * a violation collector (at most MAX_PER_KEY records per key, deduplicated) and a distinct-case counter
"""
import hashlib
import json

MAX_PER_KEY = 5
NNI_WIDTHS = (1, 2, 4, 8)


# --------------------------------------------------------------------------------------------------------------------
# var-number / NonNegativeInteger
# --------------------------------------------------------------------------------------------------------------------
class Malformed(Exception):
    """raised by the reference walker; .reason is a short stable code"""

    def __init__(self, reason, detail=''):
        super().__init__(f'{reason}: {detail}')
        self.reason = reason
        self.detail = detail


def enc_var(n: int, form: int = 0) -> bytes:
    """TLV-TYPE / TLV-LENGTH number. form=0: shortest; form=3/5/9: forced total size (must be able to hold n)."""
    if n < 0 or n >= 1 << 64:
        raise ValueError(n)
    if form == 0:
        form = 1 if n <= 0xFC else 3 if n <= 0xFFFF else 5 if n <= 0xFFFFFFFF else 9
    if form == 1:
        if n > 0xFC:
            raise ValueError(n)
        return bytes([n])
    if form == 3:
        if n > 0xFFFF:
            raise ValueError(n)
        return b'\xfd' + n.to_bytes(2, 'big')
    if form == 5:
        if n > 0xFFFFFFFF:
            raise ValueError(n)
        return b'\xfe' + n.to_bytes(4, 'big')
    if form == 9:
        return b'\xff' + n.to_bytes(8, 'big')
    raise ValueError(form)


def var_size(n: int) -> int:
    return 1 if n <= 0xFC else 3 if n <= 0xFFFF else 5 if n <= 0xFFFFFFFF else 9


def read_var(buf, pos: int, end: int):
    """-> (value, next_pos, is_shortest_form). Shortest-form agnostic; never reads at or beyond `end`."""
    if pos >= end:
        raise Malformed('tl-truncated', f'no byte at {pos}')
    b = buf[pos]
    if b <= 0xFC:
        return b, pos + 1, True
    w = 2 if b == 0xFD else 4 if b == 0xFE else 8
    if pos + 1 + w > end:
        raise Malformed('tl-truncated', f'{w}-byte number at {pos} cut at {end}')
    v = int.from_bytes(bytes(buf[pos + 1:pos + 1 + w]), 'big')
    return v, pos + 1 + w, var_size(v) == 1 + w


def nni(n: int, width: int = 0) -> bytes:
    """NonNegativeInteger in the smallest legal width (or the given one)."""
    if width == 0:
        width = 1 if n <= 0xFF else 2 if n <= 0xFFFF else 4 if n <= 0xFFFFFFFF else 8
    return n.to_bytes(width, 'big')


def tlv(t: int, v: bytes = b'') -> bytes:
    return enc_var(t) + enc_var(len(v)) + bytes(v)


def walk(buf, start: int = 0, end: int = None):
    """Yield (type, hdr_start, val_start, val_end, shortest) for the elements tiling [start, end).
    Raises Malformed('tl-truncated') / Malformed('overrun') when an element does not lie inside [start, end)."""
    if end is None:
        end = len(buf)
    pos = start
    while pos < end:
        t, p1, s1 = read_var(buf, pos, end)
        ln, p2, s2 = read_var(buf, p1, end)
        if p2 + ln > end:
            raise Malformed('overrun', f'element type {t} at {pos}: value end {p2 + ln} > parent end {end}')
        yield t, pos, p2, p2 + ln, (s1 and s2)
        pos = p2 + ln


def walk_list(buf, start=0, end=None):
    return list(walk(buf, start, end))


# --------------------------------------------------------------------------------------------------------------------
# packet trees
# --------------------------------------------------------------------------------------------------------------------
class Node:
    """One TLV element. `kids` is a list of Node (container) or None (leaf with `val`).
    tform / lform force a longer var-number form; dlen is added to the written length field (a lie about the size)."""
    __slots__ = ('t', 'val', 'kids', 'tform', 'lform', 'dlen')

    def __init__(self, t, val=b'', kids=None, tform=0, lform=0, dlen=0):
        self.t = t
        self.val = bytes(val) if kids is None else b''
        self.kids = kids
        self.tform = tform
        self.lform = lform
        self.dlen = dlen

    def body(self) -> bytes:
        if self.kids is None:
            return self.val
        return b''.join(k.ser() for k in self.kids)

    def ser(self) -> bytes:
        b = self.body()
        n = len(b) + self.dlen
        if n < 0:
            n = 0
        lf = self.lform
        if lf and var_size(n) > lf:
            lf = 0
        return enc_var(self.t, self.tform) + enc_var(n, lf) + b

    def clone(self):
        n = Node(self.t, self.val, None if self.kids is None else [k.clone() for k in self.kids],
                 self.tform, self.lform, self.dlen)
        return n

    def paths(self, prefix=()):
        """all node paths (tuples of child indexes), pre-order, root = ()"""
        yield prefix
        if self.kids is not None:
            for i, k in enumerate(self.kids):
                yield from k.paths(prefix + (i,))

    def at(self, path):
        n = self
        for i in path:
            n = n.kids[i]
        return n


def L(t, val=b''):
    return Node(t, val)


def C(t, *kids):
    return Node(t, kids=list(kids))


# --------------------------------------------------------------------------------------------------------------------
# bookkeeping
# --------------------------------------------------------------------------------------------------------------------
def h64(*parts) -> int:
    m = hashlib.blake2b(digest_size=8)
    for p in parts:
        if isinstance(p, str):
            p = p.encode()
        elif isinstance(p, int):
            p = str(p).encode()
        m.update(len(p).to_bytes(4, 'big'))
        m.update(bytes(p))
    return int.from_bytes(m.digest(), 'big')


class Collector:
    def __init__(self, module):
        self.module = module
        self.evaluations = 0
        self.distinct = set()
        self.violations = []
        self._per_key = {}
        self._seen = set()
        self.samples = []

    def case(self, nontrivial: bool, *ident):
        self.evaluations += 1
        if nontrivial:
            self.distinct.add(h64(*ident))

    def sample(self, s, limit=6):
        if len(self.samples) < limit:
            self.samples.append(s)

    def violate(self, key: str, what: str, inp: dict):
        sig = (key, json.dumps(inp, sort_keys=True, default=str))
        if sig in self._seen:
            return
        self._seen.add(sig)
        n = self._per_key.get(key, 0)
        self._per_key[key] = n + 1
        if n < MAX_PER_KEY:
            self.violations.append({'key': key, 'what': what[:400], 'module': self.module, 'input': inp})

    def result(self, rule, bound, exhaustive=False):
        # deterministic order, smallest witnesses first
        self.violations.sort(key=lambda v: (v['key'], len(json.dumps(v['input'], default=str))))
        return {'evaluations': self.evaluations, 'distinct_nontrivial': len(self.distinct), 'rule': rule,
                'bound': bound, 'exhaustive': exhaustive, 'samples': self.samples, 'violations': self.violations}


def shard_of(index: int, shard) -> bool:
    k, n = shard
    return index % n == k
