"""C16 bounded stand-in: issued certificates (ndn.app_support.security_v2).

Run-time contracts on the REAL self_sign / sign_req / derive_cert / new_cert and parse_certificate / parse_data.
The wire is read by the independent strict walker of _packets.py; signatures are checked with the primitives directly
and with the library's verifiers; expected validity strings are computed with integer epoch arithmetic
(calendar.timegm / time.gmtime), not with datetime.strftime / timedelta.

  post_wellformed    the certificate is exactly one well-formed Data element with exact lengths
  post_name          name == key-name / issuer-id / version, and the returned name is the name in the packet
  post_content       Content == the given public key bits, ContentType == KEY (2)
  post_validity      NotBefore / NotAfter encode exactly the requested instants (UTC, YYYYMMDDThhmmss);
                     for self_sign / sign_req (no requested instants): well-formed, ordered, and containing "now"
  post_signature     the signature verifies under the issuing key over the NDN signed portion (primitives + library
                     verifier + library checker); SignatureType is the issuing signer's
  post_key_locator   KeyLocator == the name configured in the issuing signer
  post_parse         parse_certificate / parse_data return those same fields
"""
import calendar
import random
import re
import time
from datetime import datetime, timedelta, timezone

from ndn.app_support import security_v2 as sv2
from ndn.encoding import parse_data

from . import _packets as P
from . import c01

MODULE = 'bounded.c16'

RULE = ('cases = (function, key name + input form, issuer id as text or component, subject key type, issuing signer '
        '(key type / synthetic reserved+actual signature size, key-locator name), start instant + tz flavour, duration), '
        'generated deterministically from the seed and partitioned by index % nshards; every case that produced a '
        'certificate on which all contracts were evaluated is non-trivial; distinct = distinct case descriptions '
        '(repeated randomised ECDSA signatures of one description count once)')
BOUND = ('subject keys EC P-256/384/521, RSA-1024/2048, Ed25519; issuing signers ECDSA P-256/384/521 (quick 100/25/25, '
         'thorough 200 signatures per subject for DER lengths), RSA-1024/2048, Ed25519 and a synthetic signer writing '
         'r in 0..S bytes (S in {72,104,140,252}); key names of 1..5 components in list / encoded / URI form; issuer ids: '
         'unreserved-ASCII text or any single component; start instants 1970..2199 at whole seconds incl. year ends, '
         'leap days (2000, 2024, not 2100), 2038 rollover; naive (=UTC), UTC-aware and fixed-offset-aware datetimes; '
         'durations 1 s .. 20 y; self_sign / sign_req at the real clock and at patched clocks (year end, leap day)')

SUBJECTS = ['p256', 'p384', 'p521', 'rsa1024', 'rsa2048', 'ed25519']
ISSUERS = ['p256', 'p384', 'p521', 'rsa1024', 'rsa2048', 'ed25519']
T_VERSION = 0x36
TS_RE = re.compile(rb'^\d{8}T\d{6}$')


# --------------------------------------------------------------------------------------------------------------
# independent time arithmetic
# --------------------------------------------------------------------------------------------------------------

def epoch_of(start) -> int:
    """start = {'ymdhms': [Y,M,D,h,m,s], 'tz': None | 'utc' | minutes east of UTC} -> seconds since 1970 (UTC instant;
    a naive datetime denotes UTC, the convention used by self_sign's own 1970-01-01 start)"""
    e = calendar.timegm(tuple(start['ymdhms']) + (0, 0, 0))
    if isinstance(start.get('tz'), int):
        e -= start['tz'] * 60
    return e


def fmt_epoch(sec: int) -> bytes:
    t = time.gmtime(sec)
    return ('%04d%02d%02dT%02d%02d%02d' % tuple(t[:6])).encode()


def dt_of(start) -> datetime:
    tz = start.get('tz')
    if start.get('zone'):
        # a start time in a zone with daylight saving: 'tz' is the offset in force AT the start instant (used by epoch_of),
        # the library gets the zone-aware datetime
        from zoneinfo import ZoneInfo
        return datetime(*start['ymdhms'], tzinfo=ZoneInfo(start['zone']))
    tzinfo = None if tz is None else timezone.utc if tz == 'utc' else timezone(timedelta(minutes=tz))
    return datetime(*start['ymdhms'], tzinfo=tzinfo)


def parse_ts(b: bytes):
    """-> epoch or None when not a valid YYYYMMDDThhmmss instant"""
    if not TS_RE.match(b):
        return None
    try:
        y, mo, d, h, mi, s = int(b[0:4]), int(b[4:6]), int(b[6:8]), int(b[9:11]), int(b[11:13]), int(b[13:15])
        datetime(y, mo, d, h, mi, s)
        return calendar.timegm((y, mo, d, h, mi, s, 0, 0, 0))
    except ValueError:
        return None


class _Clock:
    """patches the names `datetime` in ndn.app_support.security_v2 so that now() is a chosen instant"""

    def __init__(self, epoch):
        self.epoch = epoch

    def __enter__(self):
        if self.epoch is None:
            return self
        fixed = self.epoch

        class FixedDT(datetime):
            @classmethod
            def now(cls, tz=None):
                return datetime.fromtimestamp(fixed, tz)

        self.saved = sv2.datetime
        sv2.datetime = FixedDT
        return self

    def __exit__(self, *a):
        if self.epoch is not None:
            sv2.datetime = self.saved


# --------------------------------------------------------------------------------------------------------------
# running one case
# --------------------------------------------------------------------------------------------------------------

def issuer_arg(spec):
    return spec['text'] if 'text' in spec else bytes.fromhex(spec['comp'])


def issuer_expected(case) -> bytes:
    if case['fn'] == 'self_sign':
        return P.enc_tlv(8, b'self')
    if case['fn'] == 'sign_req':
        return P.enc_tlv(8, b'cert-request')
    spec = case['issuer']
    return P.enc_tlv(8, spec['text'].encode()) if 'text' in spec else bytes.fromhex(spec['comp'])


def make_issuing_signer(case):
    sp = dict(case['signer'])
    kl = sp.pop('kl_name', None)
    if sp['kind'] == 'shrink':
        return P.ShrinkSigner(sp['S'], sp['r'], c01.name_input(kl) if kl else None)
    from ndn.security import Sha256WithRsaSigner, Sha256WithEcdsaSigner, Ed25519Signer
    cls = {'rsa': Sha256WithRsaSigner, 'ecdsa': Sha256WithEcdsaSigner, 'ed25519': Ed25519Signer}[P.family(sp['kind'])]
    # ONE signer object per issuing key for the whole process; the key locator it is configured with is set before each use
    # (an issuer re-pointing its signer at a new certificate name): what it signed before must not leak into this certificate
    if sp['kind'] not in _ISSUERS:
        _ISSUERS[sp['kind']] = cls(c01.name_input(kl), P.key(sp['kind'])['priv_der'])
    sg = _ISSUERS[sp['kind']]
    sg.key_locator_name = c01.name_input(kl)
    return sg


_ISSUERS = {}


def call(case):
    """-> (returned_name, wire bytes, t0, t1) from the real function"""
    signer = make_issuing_signer(case)
    key_name = c01.name_input(case['key_name'])
    pub = P.key(case['subject'])['pub_der']
    fn = case['fn']
    with _Clock(case.get('clock')):
        t0 = int(time.time()) if case.get('clock') is None else case['clock']
        if fn == 'self_sign':
            name, wire = sv2.self_sign(key_name, pub, signer)
        elif fn == 'sign_req':
            name, wire = sv2.sign_req(key_name, pub, signer)
        elif fn == 'derive_cert':
            name, wire = sv2.derive_cert(key_name, issuer_arg(case['issuer']), pub, signer, dt_of(case['start']), case['duration'])
        else:
            end = dict(case['start'], ymdhms=list(time.gmtime(epoch_of(case['start']) + case['duration'])[:6]),
                       tz=None if case['start'].get('tz') is None else 'utc')
            # new_cert takes the issuer id as a component (text is derive_cert's convenience)
            name, wire = sv2.new_cert(key_name, issuer_expected(case), pub, signer, dt_of(case['start']), dt_of(end))
        t1 = int(time.time()) + 1 if case.get('clock') is None else case['clock']
    return [bytes(c) for c in name], bytes(wire), t0, t1


def run_case(case):
    """-> (list of (key, what), built)"""
    fn = case['fn']
    try:
        ret_name, wire, t0, t1 = call(case)
    except Exception as e:
        return [(f'C16:{fn}:raises', f'{fn} raised {type(e).__name__}: {e}')], False
    out = []
    # post_wellformed
    try:
        w = P.walk_data(wire, strict=True, cert=True)
    except P.Malformed as e:
        return [(f'C16:{fn}:not-wellformed', f'certificate is not one well-formed Data element with exact lengths: {e} '
                                             f'(wire starts {wire[:8].hex()}, {len(wire)} bytes)')], True
    # post_name
    key_comps = [bytes.fromhex(h) for h in case['key_name']['comps']]
    got = w['name']
    iss = issuer_expected(case)
    if got[:-2] != key_comps or len(got) != len(key_comps) + 2:
        out.append((f'C16:{fn}:name-key-prefix', f'certificate name has {len(got)} components; the first len-2 are not the key name'))
    elif got[-2] != iss:
        out.append((f'C16:{fn}:name-issuer-id', f'issuer component on the wire {got[-2].hex()} != requested {iss.hex()}'))
    ver = got[-1] if got else b''
    try:
        vt, vvo, vve = P.rd_elem(ver, 0, len(ver))
        P.rd_nni(ver, vvo, vve)
        if vt != T_VERSION:
            raise P.Malformed(f'type {vt}')
    except (P.Malformed, KeyError) as e:
        out.append((f'C16:{fn}:name-version', f'last name component {ver.hex()} is not a version component ({e})'))
    if ret_name != got:
        out.append((f'C16:{fn}:returned-name', 'the name returned next to the wire is not the name in the packet'))
    # post_content
    pub = P.key(case['subject'])['pub_der']
    if w['content'] != pub:
        out.append((f'C16:{fn}:content', f'Content ({None if w["content"] is None else len(w["content"])} bytes) != public key ({len(pub)} bytes)'))
    if w['meta'] is None or w['meta']['content_type'] != 2:
        out.append((f'C16:{fn}:content-type', f'MetaInfo {w["meta"]}: ContentType is not KEY (2)'))
    # post_validity
    si = w['siginfo']
    if si is None or si['not_before'] is None:
        out.append((f'C16:{fn}:validity-missing', 'no ValidityPeriod in SignatureInfo'))
    else:
        nb, na = si['not_before'], si['not_after']
        if 'start' in case:
            e0 = epoch_of(case['start'])
            exp = (fmt_epoch(e0), fmt_epoch(e0 + case['duration']))
            if (nb, na) != exp:
                # one defect, one key: both entry points format the wall-clock fields of an aware datetime in new_cert
                key = f'C16:{fn}:lifetime-added-to-the-wall-clock-of-a-dst-zone' if case['start'].get('zone') and (nb, na)[0] == exp[0] \
                    else 'C16:new_cert:validity-utc-offset-ignored' if isinstance(case['start'].get('tz'), int) and case['start']['tz'] != 0 \
                    else f'C16:{fn}:validity'
                out.append((key, f'[{fn}] validity on the wire {nb.decode(errors="replace")}..{na.decode(errors="replace")} != requested instants '
                                               f'{exp[0].decode()}..{exp[1].decode()} (UTC) for start {case["start"]} + {case["duration"]} s'))
        else:
            pb, pa = parse_ts(nb), parse_ts(na)
            if pb is None or pa is None:
                out.append((f'C16:{fn}:validity-format', f'NotBefore/NotAfter {nb!r}/{na!r} are not YYYYMMDDThhmmss instants'))
            elif not (pb <= t1 and t0 <= pa and pb <= pa):
                out.append((f'C16:{fn}:validity-window', f'validity {nb.decode()}..{na.decode()} does not contain the time of issuance '
                                                         f'{fmt_epoch(t0).decode()} (UTC)'))
            elif fn == 'self_sign':
                # what self_sign asks new_cert for: valid until the same instant twenty years on (a leap day more or less)
                y, rest = time.gmtime(t0)[0], time.gmtime(t0)[1:6]
                want = [calendar.timegm((y + 20, rest[0], min(rest[1], 28) if rest[0] == 2 else rest[1]) + tuple(rest[2:]) + (0, 0, 0))]
                if not (want[0] - 2 * 86400 <= pa <= want[0] + 2 * 86400 + (t1 - t0)):
                    out.append(('C16:self_sign:validity-not-twenty-years', f'self-signed at {fmt_epoch(t0).decode()}: NotAfter {na.decode()} is not '
                                                                           f'that instant twenty years on ({fmt_epoch(want[0]).decode()})'))
    # post_signature / post_key_locator
    sp = case['signer']
    if si is None or w['sigvalue'] is None:
        out.append((f'C16:{fn}:signature-missing', 'certificate carries no SignatureInfo / SignatureValue'))
        return out, True
    exp_type = P.ShrinkSigner.SIG_TYPE if sp['kind'] == 'shrink' else P.SIG_TYPE[P.family(sp['kind'])]
    if si['sig_type'] != exp_type:
        out.append((f'C16:{fn}:signature-type', f'SignatureType {si["sig_type"]} != {exp_type} of the issuing signer'))
    covered = P.cat(wire, w['signed_ranges'])
    if not P.own_verify(sp['kind'], covered, w['sigvalue']):
        out.append((f'C16:{fn}:signature-invalid', f'SignatureValue ({len(w["sigvalue"])} bytes) does not verify under the issuing key over '
                                                   f'Name..SignatureInfo'))
    exp_kl = [bytes.fromhex(h) for h in sp['kl_name']['comps']] if sp.get('kl_name') else None
    if si['kl_name'] != exp_kl:
        out.append((f'C16:{fn}:key-locator', f'KeyLocator on the wire {si["kl_name"]} != configured {exp_kl}'))
    if sp['kind'] == 'shrink' and len(w['sigvalue']) != sp['r']:
        out.append((f'C16:{fn}:signature-length', f'signer wrote {sp["r"]} bytes, SignatureValue has {len(w["sigvalue"])}'))
    # post_parse
    try:
        # parsed twice; the first result is edited in between (as a caller may): the second parse must not see the edits
        first = sv2.parse_certificate(wire)
        try:
            if isinstance(first.name, list):
                del first.name[-1:]
            first.content = b'edited'
            if first.signature_info is not None:
                first.signature_info.key_locator = None
        except Exception:   # noqa - an immutable result cannot be edited
            pass
        cert = sv2.parse_certificate(wire)
        pn, pm, pc, ptrs = parse_data(wire)
    except Exception as e:
        out.append(('C16:parse_certificate:raises', f'{type(e).__name__}: {e} on a certificate produced by {fn}'))
        return out, True
    chk = []
    chk.append(('name', [bytes(c) for c in cert.name] == got and [bytes(c) for c in pn] == got))
    chk.append(('content', cert.content is not None and bytes(cert.content) == w['content'] and pc is not None and bytes(pc) == w['content']))
    chk.append(('content-type', cert.meta_info is not None and cert.meta_info.content_type == w['meta']['content_type'] if w['meta'] else True))
    csi = cert.signature_info
    vp = csi.validity_period if csi is not None else None
    chk.append(('validity', vp is not None and vp.not_before is not None and bytes(vp.not_before) == si['not_before']
                and bytes(vp.not_after) == si['not_after']))
    chk.append(('signature-type', csi is not None and csi.signature_type == si['sig_type']))
    pk = csi.key_locator.name if csi is not None and csi.key_locator is not None else None
    chk.append(('key-locator', (None if pk is None else [bytes(c) for c in pk]) == si['kl_name']))
    chk.append(('signature-value', cert.signature_value is not None and bytes(cert.signature_value) == w['sigvalue']))
    for sub, ok in chk:
        if not ok:
            out.append((f'C16:parse_certificate:{sub}', f'parse_certificate / parse_data do not return the {sub} that is in the packet'))
    if sp['kind'] != 'shrink':
        try:
            if not P.lib_verify(sp['kind'], ptrs):
                out.append((f'C16:{fn}:library-verifier-rejects', f'verify_{P.family(sp["kind"])} rejects the issued certificate under the issuing key'))
            with P.Loop() as loop:
                ok = loop.run(P.lib_checker(sp['kind'], exp_kl)(pn, ptrs))
            if not ok:
                out.append((f'C16:{fn}:library-checker-rejects', 'the KnownChecker built from the issuing key and key-locator name rejects the certificate'))
        except Exception as e:
            out.append((f'C16:{fn}:library-verifier-raises', f'{type(e).__name__}: {e}'))
    return out, True


# --------------------------------------------------------------------------------------------------------------
# generators
# --------------------------------------------------------------------------------------------------------------

STARTS = [[1970, 1, 1, 0, 0, 0], [1999, 12, 31, 23, 59, 59], [2000, 2, 28, 23, 59, 59], [2000, 2, 29, 0, 0, 0],
          [2000, 2, 29, 23, 59, 59], [2023, 2, 28, 23, 59, 59], [2023, 12, 31, 23, 59, 59], [2024, 1, 1, 0, 0, 0],
          [2024, 2, 28, 23, 59, 59], [2024, 2, 29, 12, 30, 15], [2024, 12, 31, 23, 59, 59], [2026, 9, 24, 8, 5, 9],
          [2038, 1, 19, 3, 14, 7], [2099, 12, 31, 23, 59, 59], [2100, 2, 28, 23, 59, 59], [2199, 12, 31, 23, 59, 58]]
DURATIONS = [1, 2, 59, 60, 3599, 3600, 86399, 86400, 86401, 28 * 86400, 365 * 86400, 366 * 86400, 4 * 365 * 86400 + 86400,
             20 * 365 * 86400, 631152000]
TEXT_IDS = ['self', 'ndn', 'cert-request', 'Issuer-1', 'a.b_c~d', 'X', '0']
TZS = [None, None, 'utc', 'utc', 0, 480, -300, 330, 840, -720]


def gen_key_name(rng):
    ident = [P.enc_tlv(8, rng.choice([b'ndn', b'edu', b'ucla', b'alice', b'\xc3\xa9', b'a b', b'site-1']))
             for _ in range(rng.randint(0, 3))]
    kid = rng.choice([P.enc_tlv(8, rng.randbytes(8)), P.enc_tlv(8, b'%01'), P.enc_tlv(8, b'k1'), P.enc_tlv(8, b'')])
    if rng.random() < 0.2:
        # an identity that itself looks like a key or certificate name (/site/KEY/backup, /org/KEY/k/self/v=1): still an identity
        ident = ident[:2] + [P.enc_tlv(8, b'KEY'), P.enc_tlv(8, rng.choice([b'root', b'backup', b'\x0f']))]
        if rng.random() < 0.3:
            ident += [P.enc_tlv(8, b'self'), P.enc_tlv(T_VERSION, P.enc_nni(rng.getrandbits(20)))]
    comps = ident + [P.enc_tlv(8, b'KEY'), kid]
    return {'comps': [c.hex() for c in comps], 'form': rng.choice(['formal', 'formal', 'bytes', 'mixed', 'str'])}


def gen_kl(rng, key_kind):
    comps = [P.enc_tlv(8, b'issuer'), P.enc_tlv(8, key_kind.encode()), P.enc_tlv(8, b'KEY'), P.enc_tlv(8, rng.randbytes(rng.choice([1, 8])))]
    if rng.random() < 0.3:
        comps += [P.enc_tlv(8, b'self'), P.enc_tlv(T_VERSION, P.enc_nni(rng.getrandbits(40)))]
    if rng.random() < 0.1:
        comps = [P.enc_tlv(8, b'K')]
    return {'comps': [c.hex() for c in comps], 'form': rng.choice(['formal', 'bytes', 'str', 'mixed'])}


def gen_issuer_id(rng):
    if rng.random() < 0.5:
        return {'text': rng.choice(TEXT_IDS)}
    t = rng.choice([8, 8, 8, 32, 50, 253, 65535])
    v = P.enc_nni(rng.getrandbits(20)) if t == 50 else rng.randbytes(rng.choice([0, 1, 4, 8, 20]))
    return {'comp': P.enc_tlv(t, v).hex()}


def gen_start(rng, fixed=None):
    if fixed is None:
        e = rng.randrange(0, calendar.timegm((2199, 1, 1, 0, 0, 0, 0, 0, 0)))
        fixed = list(time.gmtime(e)[:6])
    return {'ymdhms': list(fixed), 'tz': rng.choice(TZS)}


def gen_cases(tier, seed):
    rng = random.Random(seed * 15485863 + 16)
    thorough = tier == 'thorough'
    cases = []

    def signer(kind, **kw):
        return dict({'kind': kind, 'kl_name': gen_kl(rng, kind)}, **kw)

    def derive(subject, sg, start=None, dur=None, fn=None, **kw):
        c = {'fn': fn or rng.choice(['derive_cert', 'derive_cert', 'new_cert']), 'key_name': gen_key_name(rng), 'issuer': gen_issuer_id(rng),
             'subject': subject, 'signer': sg, 'start': start or gen_start(rng), 'duration': rng.choice(DURATIONS) if dur is None else dur}
        c.update(kw)
        return c

    # A. subject x issuer
    for sub in SUBJECTS:
        for iss in ISSUERS:
            for _ in range(4 if thorough else 1):
                cases.append(derive(sub, signer(iss)))
    # B. many ECDSA signatures per subject (DER length varies), small fixed description + rep
    for iss, reps in (('p256', 200 if thorough else 100), ('p384', 200 if thorough else 25), ('p521', 200 if thorough else 25)):
        for sub in (SUBJECTS if thorough else ['p256', 'rsa2048', 'ed25519']):
            base = derive(sub, signer(iss), fn='derive_cert')
            for rep in range(reps):
                cases.append(dict(base, rep=rep))
    # C. synthetic signer: every actual length r for reserved S (outer length of the certificate moves across 253)
    for S in ([72, 104, 140, 252] if thorough else [72, 140]):
        for r in (range(S + 1) if thorough or S == 72 else range(0, S + 1, 7)):
            sub = rng.choice(['ed25519', 'p256']) if r % 2 else rng.choice(SUBJECTS)
            sg = {'kind': 'shrink', 'S': S, 'r': r}
            if rng.random() < 0.7:
                sg['kl_name'] = gen_kl(rng, 'syn')
            cases.append(derive(sub, sg))
    # D. start instants x durations x tz flavours (fast Ed25519 / P-256 issuers)
    for st in STARTS:
        for dur in (DURATIONS if thorough else rng.sample(DURATIONS, 5)):
            for tz in ([None, 'utc', 0, 480, -300] if thorough else [rng.choice([None, 'utc']), rng.choice([0, 480, -300, 330])]):
                if st[0] >= 2199 and dur > 86400:
                    continue
                cases.append(derive(rng.choice(SUBJECTS), signer(rng.choice(['ed25519', 'p256'])), {'ymdhms': st, 'tz': tz}, dur))
    # start times in zones with daylight saving, the lifetime reaching across a change of the offset (and two controls that do
    # not): the requested instants are start and start + lifetime SECONDS, whatever the wall clock of the zone does in between
    for zone, ymdhms, off, durs in (('America/New_York', [2025, 3, 8, 12, 0, 0], -300, (86400, 3600 * 30, 60)),
                                    ('America/New_York', [2025, 11, 1, 12, 0, 0], -240, (86400, 86400 * 2)),
                                    ('Europe/Berlin', [2025, 3, 29, 12, 0, 0], 60, (86400, 86400 * 30)),
                                    ('Europe/Berlin', [2025, 10, 25, 23, 30, 0], 120, (7200, 86400)),
                                    ('America/New_York', [2025, 6, 1, 12, 0, 0], -240, (86400,)),
                                    ('Asia/Tokyo', [2025, 3, 8, 12, 0, 0], 540, (86400,))):
        for dur in durs:
            cases.append(derive(rng.choice(SUBJECTS), signer('ed25519'), {'ymdhms': ymdhms, 'tz': off, 'zone': zone}, dur, fn='derive_cert'))
    # the shortest requestable lifetimes, 0 included (NotAfter = NotBefore), for every start instant
    for st in STARTS[::2] if not thorough else STARTS:
        for dur in (0, 1):
            cases.append(derive(rng.choice(SUBJECTS), signer('ed25519'), {'ymdhms': st, 'tz': rng.choice([None, 'utc', 330])}, dur,
                                fn='derive_cert'))
    for _ in range(6000 if thorough else 400):
        cases.append(derive(rng.choice(SUBJECTS), signer(rng.choice(['ed25519', 'ed25519', 'p256', 'rsa1024'])), gen_start(rng),
                            rng.choice(DURATIONS + [rng.randint(1, 631152000)])))
    # E. self_sign / sign_req (issuer == subject key), real clock and patched clocks
    clocks = [None, calendar.timegm((2027, 12, 31, 23, 59, 59, 0, 0, 0)), calendar.timegm((2028, 2, 29, 12, 0, 0, 0, 0, 0)),
              calendar.timegm((2024, 2, 29, 0, 0, 0, 0, 0, 0)), calendar.timegm((2030, 1, 1, 0, 0, 0, 0, 0, 0)),
              # 29 February of a year whose 20th successor is NOT a leap year (2100, 2200 are not)
              calendar.timegm((2080, 2, 29, 12, 0, 0, 0, 0, 0)), calendar.timegm((2180, 2, 29, 23, 59, 59, 0, 0, 0))]
    for fn in ('self_sign', 'sign_req'):
        for kind in ISSUERS:
            for clock in clocks:
                for rep in range((8 if thorough else 2) if P.family(kind) == 'ecdsa' else 1):
                    c = {'fn': fn, 'key_name': gen_key_name(rng), 'subject': kind, 'signer': signer(kind), 'clock': clock, 'rep': rep}
                    cases.append(c)
    return cases


def run(tier: str, seed: int, shard: tuple) -> dict:
    k, n = shard
    col = P.Collector(MODULE)
    for i, case in enumerate(gen_cases(tier, seed)):
        if i % n != k:
            continue
        viol, built = run_case(case)
        if built:
            col.evaluations += 1
            col.seen({kk: v for kk, v in case.items() if kk != 'rep'})
            if len(col.samples) < 3 and i % 53 == k:
                col.samples.append(case)
        for key, what in viol:
            col.add(key, what, {'case': case})
    return col.result(RULE, BOUND)


def replay(rec: dict):
    viol, _ = run_case(rec['input']['case'])
    same = [w for kk, w in viol if kk == rec['key']]
    if same:
        return False, same[0]
    if viol:
        return False, f'other clause failed: {viol[0][0]}: {viol[0][1]}'
    return True, 'all C16 contracts hold for this case'
