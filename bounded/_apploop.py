"""Shared helpers for the bounded stand-ins of C03 / C05: drive the REAL ``ndn.appv2.NDNApp`` and ``ndn.app.NDNApp``
through event histories on a deterministic *virtual-time* asyncio loop.

* ``VirtualLoop``: a SelectorEventLoop whose clock only moves when nothing is ready: it then jumps to the earliest
  timer.  All timers (``wait_for`` deadlines, validator sleeps, the driver's own waits) are therefore exact and a
  history of 6 events with 40 ms lifetimes costs ~1 ms of wall time.  If nothing is ready and no timer is left while
  ``run_until_complete`` still waits, ``Deadlock`` is raised (an Interest that never finishes).
* ``ndn.utils.timestamp`` (the only clock the two front-ends read) is patched to the loop clock for the duration
  of a case.
* ``ScriptFace``: the library's DummyFace whose ``run()`` returns when the face is shut down (like a stream face).
* ``Rig``: one application instance + face + main_loop task + recorders (loop exception handler, bytes sent).
"""
import asyncio
import heapq
import hashlib
import logging
import traceback

import ndn.utils as ndn_utils
from ndn import appv2 as app_v2
from ndn import app as app_v1
from ndn import types
from ndn import encoding as enc
from ndn.encoding import ndnlp_v2
from ndn.transport.dummy_face import DummyFace
from ndn.security import KeychainDigest

EPOCH_MS = 1_700_000_000_000


class Deadlock(Exception):
    pass


class HarnessError(Exception):
    pass


class VirtualLoop(asyncio.SelectorEventLoop):
    def __init__(self):
        super().__init__()
        self._vnow = 0.0

    def time(self):
        return self._vnow

    def now_ms(self) -> int:
        return int(round(self._vnow * 1000))

    def _run_once(self):
        if not self._ready and not self._stopping:
            while self._scheduled and self._scheduled[0]._cancelled:
                self._timer_cancelled_count -= 1
                h = heapq.heappop(self._scheduled)
                h._scheduled = False
            if self._scheduled:
                when = self._scheduled[0]._when
                if when > self._vnow:
                    self._vnow = when
            else:
                raise Deadlock('nothing ready, no timer left')
        super()._run_once()

    def live_timers(self):
        return [h for h in self._scheduled if not h._cancelled]


async def settle(loop, limit=200):
    """Yield until no other callback is ready (virtual time does not move)."""
    for _ in range(limit):
        await asyncio.sleep(0)
        if not loop._ready:
            return
    raise HarnessError('ready queue never drains (live-lock)')


async def sleep_until(loop, t_ms: int):
    fut = loop.create_future()
    h = loop.call_at(t_ms / 1000.0, lambda: fut.done() or fut.set_result(None))
    try:
        await fut
    finally:
        h.cancel()


class _Resume:
    """awaitable that keeps driving a coroutine which was already advanced to its first suspension point"""

    def __init__(self, coro, first):
        self.coro, self.first = coro, first

    def __await__(self):
        fut = self.first
        while True:
            try:
                yield fut                     # hand the awaited future to the event loop
            except BaseException as e:        # noqa  (cancellation is forwarded into the coroutine)
                try:
                    fut = self.coro.throw(e)
                except StopIteration:
                    return
            else:
                try:
                    fut = self.coro.send(None)
                except StopIteration:
                    return


async def _drive(coro, first):
    await _Resume(coro, first)


def run_sync(coro, loop=None):
    """Run a coroutine that normally does not suspend (``_receive`` for Data / Nack).  If it does suspend (a changed
    library may await something inside the receive pipeline) it is continued as a background task, exactly as a face
    would run it (faces spawn the callback as a task per packet); its outcome then shows up in the checked contracts."""
    try:
        first = coro.send(None)
    except StopIteration:
        return
    if loop is None:
        coro.close()
        raise HarnessError('coroutine suspended in run_sync')
    loop.create_task(_drive(coro, first))


def same_turn(loop, fn):
    """Schedule fn() in the loop turn of the NEXT timer expiry: after every timer due at that instant fired, before any
    task woken by them runs (the 'packet and timer in the same loop turn' schedule: with a stream face the reader
    callback is queued before the timer callbacks of the same iteration, so the face task resumes before the task
    that was just timed out).  Returns a future with fn's outcome.  Without a live timer fn runs at once."""
    fut = loop.create_future()

    def do():
        try:
            fn()
        except BaseException as e:  # noqa
            fut.set_exception(e)
        else:
            fut.set_result(None)

    timers = loop.live_timers()
    if not timers:
        do()
        return fut
    when = min(h._when for h in timers)

    def cb():
        if any(isinstance(h, asyncio.TimerHandle) and not h._cancelled for h in loop._ready):
            loop.call_soon(do)      # other timers of this instant still to fire in this iteration: go right after them
        else:
            do()
    loop.call_at(when, cb)
    return fut


class ScriptFace(DummyFace):
    def __init__(self):
        super().__init__(self._proc)
        self.stop = asyncio.Event()

    async def _proc(self, _face):
        await self.stop.wait()

    def shutdown(self):
        super().shutdown()
        self.stop.set()


def exc_label(exc: BaseException) -> str:
    """stable class label: the most derived class defined by builtins / asyncio / ndn (pygtrie.ShortKeyError -> KeyError)"""
    for c in type(exc).__mro__:
        if c.__module__ in ('builtins', 'asyncio.exceptions', 'struct') or c.__module__.startswith('ndn.'):
            return c.__name__
    return type(exc).__name__


def lib_site(exc: BaseException) -> str:
    """innermost function of the ndn package on the traceback of exc (stable call-site label)"""
    site = '?'
    tb = exc.__traceback__
    for fs in traceback.extract_tb(tb):
        fn = fs.filename.replace('\\', '/')
        if '/ndn/' in fn and '/bounded/' not in fn:
            site = fs.name
    return site


class Rig:
    def __init__(self, loop: VirtualLoop, front: str):
        self.loop = loop
        self.front = front
        self.loop_errors = []        # contexts given to the loop exception handler
        loop.set_exception_handler(lambda _l, ctx: self.loop_errors.append(ctx))
        self.face = None
        self.app = None
        self.main = None

    async def start(self):
        self.face = ScriptFace()
        if self.front == 'v2':
            self.app = app_v2.NDNApp(self.face)
        else:
            self.app = app_v1.NDNApp(self.face, KeychainDigest())
        self.face.app = self.app
        self.main = self.loop.create_task(self.app.main_loop())
        await settle(self.loop)
        if not self.face.running:
            raise HarnessError('face not running after start')

    def trie(self):
        return self.app._pit if self.front == 'v2' else self.app._int_tree

    def pit_nodes(self):
        return list(self.trie().iteritems())

    def pit_entries(self):
        return [e for _n, node in self.pit_nodes() for e in node.pending_list]

    def take_sent(self) -> bytes:
        out = bytes(self.face.output_buf)
        self.face.output_buf = b''
        return out

    async def inject(self, wire: bytes):
        """deliver one packet the way a face does: await app._receive(typ, wire)"""
        await self.face.input_packet(wire)

    def inject_now(self, wire: bytes):
        typ, _ = enc.parse_tl_num(wire)
        run_sync(self.app._receive(typ, memoryview(wire)), self.loop)

    def describe_loop_error(self, ctx) -> tuple[str, str]:
        exc = ctx.get('exception')
        if exc is None:
            return 'NoException', ctx.get('message', '?')[:60]
        return exc_label(exc), lib_site(exc)


def run_case(coro_fn, front: str):
    """Run ``await coro_fn(rig)`` on a fresh VirtualLoop with the library clock patched; always clean up."""
    loop = VirtualLoop()
    old_ts = ndn_utils.timestamp
    ndn_utils.timestamp = lambda: EPOCH_MS + loop.now_ms()
    rig = Rig(loop, front)
    try:
        asyncio.set_event_loop(loop)
        try:
            return loop.run_until_complete(coro_fn(rig))
        except Deadlock:
            return {'deadlock': True}
    finally:
        try:
            pend = [t for t in asyncio.all_tasks(loop) if not t.done()]
            for t in pend:
                t.cancel()
            if pend:
                try:
                    loop.run_until_complete(asyncio.gather(*pend, return_exceptions=True))
                except BaseException:  # noqa  (clean-up only; the case result is already decided)
                    pass
        finally:
            ndn_utils.timestamp = old_ts
            asyncio.set_event_loop(None)
            loop.close()


# ---------------------------------------------------------------------------------------------------------------------
# packets

def data_wire(name, content: bytes, signer=None) -> bytes:
    from ndn.security import DigestSha256Signer
    return bytes(enc.make_data(name, enc.MetaInfo(freshness_period=1000), content,
                               signer=signer if signer is not None else DigestSha256Signer()))


def nack_wire(interest_wire: bytes, reason: int) -> bytes:
    return bytes(ndnlp_v2.make_network_nack(interest_wire, reason))


def implicit_name(name, wire: bytes):
    return enc.Name.normalize(name) + [enc.Component.from_bytes(hashlib.sha256(wire).digest(),
                                                                enc.Component.TYPE_IMPLICIT_SHA256)]


def classify(exc: BaseException | None):
    """outcome kind of an awaitable returned by express / express_interest"""
    if exc is None:
        return 'data', None
    if isinstance(exc, types.InterestNack):
        return 'nack', exc.reason
    if isinstance(exc, types.InterestTimeout):
        return 'timeout', None
    if isinstance(exc, (types.InterestCanceled, asyncio.CancelledError)):
        return 'canceled', None
    if isinstance(exc, types.ValidationFailure):
        return 'invalid', exc.result
    return 'error', exc_label(exc)


def quiet_logging():
    logging.disable(logging.CRITICAL)


class ViolationSink:
    """keeps at most ``per_key`` shortest witnesses per key"""
    def __init__(self, module: str, per_key: int = 1):
        self.module = module
        self.per_key = per_key
        self.by_key = {}

    def add(self, key: str, what: str, inp: dict, size: int):
        lst = self.by_key.setdefault(key, [])
        lst.append((size, {'key': key, 'what': what, 'module': self.module, 'input': inp}))
        lst.sort(key=lambda x: x[0])
        del lst[self.per_key:]

    def records(self):
        return [r for k in sorted(self.by_key) for _s, r in self.by_key[k]]
