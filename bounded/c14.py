"""C14 - the schema validator accepts exactly packets with a valid chain to the anchor (bounded stand-in).

Real code under contract: ndn.app_support.light_versec.lvs_validator, ndn.security.validator.cascade_validator
.CascadeChecker, driven through a REAL legacy ndn.app.NDNApp whose face is an in-process certificate server
(Data / network Nack / silence), on a virtual-time event loop (Interest timeouts take no wall time).

Oracle (no library code): every generated packet/certificate carries its ground truth (which key really signed it,
whether the signature bytes were tampered with, which key a certificate holds); `oracle_accept` walks
packet -> key locator -> certificate -> ... -> anchor and requires at every link: a key locator, the reference signing
relation of bounded/_lvs.py (RefModel.check) on the abstract schema, a retrievable certificate with exactly that name,
a genuine signature by the key held in the next certificate; a repeated certificate name (loop) is a dead end.

Contracts:
  post_verdict        validator(name, sig) == oracle_accept(...) for the baseline chain and for every single deviation
                      at every link (issuer of the wrong shape, forged signature, substituted key, forged certificate,
                      missing certificate, Nack, unsigned (digest / no signature / HMAC), loop, issuer not a descendant
                      of the anchor)
  post_construct      lvs_validator(...) raises when the anchor does not match the schema's root of trust;
                      lvs_validator / CascadeChecker raise when the anchor is not properly self-signed; build otherwise
  post_independent    with several instances (different anchors) and every order of validating several packets, each
                      verdict equals the oracle of that instance's own world (default `storage` argument!)
  no unhandled exception / never-retrieved task exception in the event loop.
"""
from __future__ import annotations

import asyncio
import itertools
import random

from . import _lvs as L

MODULE = 'bounded.c14'
RULE = ('generated PKI (real EC P-256 keys, RSA-1024 at a random level incl. the anchor) of depth 1..4 under 4 schema '
        'templates (plain levels, user pattern shared between data and signing key, signer alternatives with a '
        'constrained role, redefined data rule); baseline chain + EVERY single deviation (12 kinds) at EVERY link; '
        'constructor cases; 2 instances x 3 packets in all 6 orders with default and with explicit storage; a case = '
        '(template, depth, key types, deviation, link) resp. (order, storage mode); non-trivial = every case (each '
        'runs the real validator on a real signed packet); distinct = hash(description, packet wire)')
BOUND = 'quick: 48 PKIs (+6 independence suites) x all deviations x all links (~5000 validations); thorough: 960 PKIs'

N_PKI = {'quick': 48, 'thorough': 960}


# ------------------------------------------------------------------------------------------------- virtual time

class VLoop(asyncio.SelectorEventLoop):
    """event loop whose clock jumps to the next timer when nothing is ready (no real I/O is used)"""

    def __init__(self):
        super().__init__()
        self._vt = 0.0

    def time(self):
        return self._vt

    def _run_once(self):
        if not self._ready and self._scheduled:
            when = self._scheduled[0]._when
            if when > self._vt:
                self._vt = when
        super()._run_once()


class LoopRun:
    """fresh loop per case, unhandled errors recorded, nothing left pending"""

    def __init__(self):
        self.loop = VLoop()
        self.errors = []
        self.loop.set_exception_handler(lambda lp, ctx: self.errors.append(
            '%s %r' % (ctx.get('message'), ctx.get('exception'))))

    def run(self, coro):
        return self.loop.run_until_complete(coro)

    def close(self):
        pending = [t for t in asyncio.all_tasks(self.loop) if not t.done()]
        for t in pending:
            t.cancel()
        if pending:
            self.loop.run_until_complete(asyncio.gather(*pending, return_exceptions=True))
        self.loop.run_until_complete(asyncio.sleep(0))
        self.loop.close()
        return len(pending)


# ------------------------------------------------------------------------------------------------- keys, packets

_KEYS = {}


def get_key(kid: str):
    """deterministic key per id; id starts with 'rsa' -> RSA-1024, otherwise EC P-256.
    -> dict(type, priv_der, pub_der)"""
    if kid not in _KEYS:
        from Cryptodome.PublicKey import ECC, RSA
        rnd = random.Random('c14-key-' + kid)
        if kid.startswith('rsa'):
            k = RSA.generate(1024, randfunc=rnd.randbytes)
            _KEYS[kid] = {'type': 'rsa', 'priv': k.export_key(format='DER'),
                          'pub': k.publickey().export_key(format='DER')}
        else:
            k = ECC.generate(curve='P-256', randfunc=rnd.randbytes)
            _KEYS[kid] = {'type': 'ec', 'priv': k.export_key(format='DER'),
                          'pub': k.public_key().export_key(format='DER')}
    return _KEYS[kid]


def comp(s: str) -> bytes:
    return L.lit_bytes(s)


def nb(name) -> bytes:
    return b''.join(bytes(c) for c in name)


class Elem:
    """a Data packet (application data or certificate) + ground truth"""

    def __init__(self, name, wire, holds, signer_kid, sig_ok, locator, sig_type, note=''):
        self.name = [bytes(c) for c in name]
        self.wire = bytes(wire)
        self.holds = holds              # key id whose public key is the content (certificates)
        self.signer_kid = signer_kid    # key id that really produced the signature value (None: not a key signature)
        self.sig_ok = sig_ok            # False when the signature bytes were tampered with
        self.locator = None if locator is None else [bytes(c) for c in locator]
        self.sig_type = sig_type
        self.note = note


def make_elem(name, content, signer_kid, locator, holds=None, sig='key', tamper=False, via_security_v2=False,
              hmac_key=b'0123456789abcdef'):
    """build a REAL signed Data packet.  sig: 'key' (ECDSA/RSA by signer_kid), 'digest', 'none', 'hmac'."""
    from ndn.encoding import make_data, MetaInfo, ContentType
    from ndn.security.signer.sha256_ecdsa_signer import Sha256WithEcdsaSigner
    from ndn.security.signer.sha256_rsa_signer import Sha256WithRsaSigner
    from ndn.security.signer.sha256_digest_signer import DigestSha256Signer
    from ndn.security.signer.sha256_hmac_signer import HmacSha256Signer
    meta = MetaInfo(content_type=ContentType.KEY if holds else ContentType.BLOB, freshness_period=3600000)
    real_signer = None
    if sig == 'key':
        k = get_key(signer_kid)
        cls = Sha256WithRsaSigner if k['type'] == 'rsa' else Sha256WithEcdsaSigner
        signer = cls(list(locator), k['priv'])
        sig_type = k['type']
        real_signer = signer_kid
    elif sig == 'digest':
        signer, sig_type, locator = DigestSha256Signer(), 'digest', None
    elif sig == 'hmac':
        signer, sig_type = HmacSha256Signer(list(locator), hmac_key), 'hmac'
    else:
        signer, sig_type, locator = None, 'none', None
    if via_security_v2 and sig == 'key' and holds:
        # a certificate produced by the library's own certificate helper (validity period etc.); name is chosen by it
        from ndn.app_support.security_v2 import derive_cert
        from datetime import datetime, UTC
        cname, wire = derive_cert(list(name[:-2]), bytes(name[-2]), content, signer, datetime.now(UTC), 3600)
        name = [bytes(c) for c in cname]
    else:
        wire = make_data(list(name), meta, content, signer)
    wire = bytearray(wire)
    if tamper:
        wire[-1] ^= 0x01
    return Elem(name, wire, holds, real_signer, not tamper, locator, sig_type)


# ------------------------------------------------------------------------------------------------- world + oracle

class World:
    def __init__(self):
        self.store = {}     # name bytes -> (Elem, behaviour)   behaviour: 'ok' | 'nack' | 'silent'

    def copy(self):
        w = World()
        w.store = dict(self.store)
        return w

    def put(self, e: Elem, behaviour='ok'):
        self.store[nb(e.name)] = (e, behaviour)

    def remove(self, name):
        self.store.pop(nb(name), None)

    def retrievable(self, name):
        ent = self.store.get(nb(name))
        if ent is None or ent[1] != 'ok':
            return None
        return ent[0]


def verifies(e: Elem, issuer: Elem) -> bool:
    return bool(e.sig_ok and e.signer_kid is not None and issuer.holds is not None and issuer.holds == e.signer_kid)


def oracle_accept(world: World, ref, anchor: Elem, e: Elem, seen=()) -> bool:
    if e.locator is None or e.sig_type not in ('ec', 'rsa'):
        return False
    if ref is not None and not ref.check(tuple(e.name), tuple(e.locator)):
        return False
    if e.locator == anchor.name:
        return verifies(e, anchor)
    key = nb(e.locator)
    if key in seen:
        return False
    c = world.retrievable(e.locator)
    if c is None:
        return False
    if not oracle_accept(world, ref, anchor, c, seen + (key,)):
        return False
    return verifies(e, c)


# ------------------------------------------------------------------------------------------------- real app plumbing

def make_app(world: World):
    from ndn.app import NDNApp
    from ndn.transport.face import Face
    from ndn.encoding import parse_interest, TypeNumber
    from ndn.encoding.ndnlp_v2 import make_network_nack, NackReason, LpTypeNumber

    class CertFace(Face):
        def __init__(self):
            super().__init__()
            self.running = True
            self.sent = []

        async def open(self):
            self.running = True

        def shutdown(self):
            self.running = False

        async def run(self):
            return

        def isLocalFace(self):
            return True

        def send(self, data: bytes):
            name, _, _, _ = parse_interest(data)
            name = [bytes(c) for c in name]
            self.sent.append(name)
            if len(self.sent) > 64:
                raise RuntimeError('C14 harness: more than 64 Interests for one validation (unbounded fetching)')
            ent = world.store.get(nb(name))
            loop = asyncio.get_running_loop()
            if ent is None or ent[1] == 'silent':
                return
            if ent[1] == 'nack':
                pkt = bytes(make_network_nack(data, NackReason.NO_ROUTE))
                loop.create_task(self.callback(LpTypeNumber.LP_PACKET, pkt))
            else:
                loop.create_task(self.callback(TypeNumber.DATA, ent[0].wire))

    face = CertFace()
    app = NDNApp(face=face, keychain=object())
    return app, face


def build_lvs_validator(schema, world, anchor: Elem, storage='fresh'):
    from ndn.app_support.light_versec import compile_lvs, Checker, lvs_validator
    from ndn.security.validator.cascade_validator import MemoryKeyStorage
    L.cache_lark()
    checker = Checker(compile_lvs(L.render(schema)), L.lib_fns())
    app, face = make_app(world)
    if storage == 'fresh':
        v = lvs_validator(checker, app, anchor.wire, MemoryKeyStorage())
    else:
        v = lvs_validator(checker, app, anchor.wire)
    return v, face


def build_cascade(world, anchor: Elem, storage='fresh'):
    from ndn.security.validator.cascade_validator import CascadeChecker, MemoryKeyStorage
    app, face = make_app(world)
    if storage == 'fresh':
        v = CascadeChecker(app, anchor.wire, MemoryKeyStorage())
    else:
        v = CascadeChecker(app, anchor.wire)
    return v, face


async def validate(validator, e: Elem):
    from ndn.encoding import parse_data
    name, _meta, _content, sig = parse_data(e.wire)
    return await validator(name, sig)


# ------------------------------------------------------------------------------------------------- schemas

def make_schema(depth: int, variant: int):
    """abstract schema; level j certificate (1 <= j < depth) is '#l<j>', '#l<j>' signed by '#l<j-1>' ('#anchor' for
    j = 1); the data rule is signed by the lowest level."""
    def lit(s):
        return ['lit', s]
    rules = [{'id': '#KEY', 'items': [lit('KEY'), ['pat', '_'], ['pat', '_'], ['pat', '_']], 'cons': [], 'signers': []},
             {'id': '#anchor', 'items': [lit('s'), ['ref', '#KEY']], 'cons': [], 'signers': []}]
    lowest = '#anchor'
    for j in range(1, depth):
        upat = ['pat', 'u'] if (variant == 1 and j == depth - 1) else ['pat', '_']
        rules.append({'id': '#l%d' % j, 'items': [lit('s'), lit('l%d' % j), upat, ['ref', '#KEY']], 'cons': [],
                      'signers': [lowest]})
        lowest = '#l%d' % j
    dpat = ['pat', 'u'] if variant == 1 else ['pat', '_']
    data = {'id': '#data', 'items': [lit('s'), lit('data'), dpat, ['pat', '_']], 'cons': [], 'signers': [lowest]}
    if variant == 2:
        rules.append({'id': '#adm', 'items': [lit('s'), lit('adm'), ['pat', 'r'], ['ref', '#KEY']],
                      'cons': [[['r', [lit('root'), lit('ops')]]]], 'signers': ['#anchor']})
        data['signers'] = sorted({lowest, '#adm'})
    rules.append(data)
    if variant == 3:
        rules.append({'id': '#data', 'items': [lit('s'), lit('pub'), ['pat', '_']], 'cons': [], 'signers': ['#anchor']})
    return {'rules': rules}


VER = bytes([0x36, 1, 7])     # a version component


class Pki:
    """baseline hierarchy: anchor, certificates of level 1..depth-1 for user 'alice', extra valid certificates used as
    wrong-shaped issuers (user 'bob' on every level, '#adm' certificates for variant 2), and the data packet"""

    def __init__(self, rng: random.Random, depth: int, variant: int, tag: str, rsa_level=None, real_certs=False):
        self.depth, self.variant, self.tag = depth, variant, tag
        self.schema = make_schema(depth, variant)
        self.ref = L.RefModel(self.schema)
        self.world = World()

        def kid(role, j):
            return ('rsa' if rsa_level == j else 'ec') + '-%s-%s-%d' % (tag, role, j)
        self.kids = {}
        ak = kid('anchor', 0)
        aname = [comp('s'), comp('KEY'), comp(ak), comp('self'), VER]
        self.anchor = make_elem(aname, get_key(ak)['pub'], ak, aname, holds=ak, via_security_v2=real_certs)
        self.levels = {'alice': [self.anchor], 'bob': [self.anchor]}
        for user in ('alice', 'bob'):
            for j in range(1, depth):
                k = kid(user, j)
                issuer = self.levels[user][j - 1]
                cname = [comp('s'), comp('l%d' % j), comp(user), comp('KEY'), comp(k), comp('iss%d' % (j - 1)), VER]
                c = make_elem(cname, get_key(k)['pub'], issuer.holds, issuer.name, holds=k, via_security_v2=real_certs)
                self.levels[user].append(c)
                self.world.put(c)
        self.extra = []
        if variant == 2:
            for role in ('ops', 'guest'):
                k = kid(role, 9)
                cname = [comp('s'), comp('adm'), comp(role), comp('KEY'), comp(k), comp('iss0'), VER]
                c = make_elem(cname, get_key(k)['pub'], self.anchor.holds, self.anchor.name, holds=k)
                self.world.put(c)
                self.extra.append(c)
        self.attacker = kid('mallory', 8)
        get_key(self.attacker)
        signer = self.levels['alice'][depth - 1]
        self.data_name = [comp('s'), comp('data'), comp('alice'), comp('n%d' % rng.randint(0, 99))]
        self.content = b'payload-' + tag.encode()
        self.data = make_elem(self.data_name, self.content, signer.holds, signer.name)
        self.chain = [self.data] + [self.levels['alice'][j] for j in range(depth - 1, 0, -1)] + [self.anchor]
        # chain[i] is signed by chain[i+1]; chain[-1] is the anchor

    def resign(self, e: Elem, issuer: Elem, **kw):
        """same name and content, signed by `issuer`'s key with `issuer` as key locator"""
        content = get_key(e.holds)['pub'] if e.holds else self.content
        args = dict(signer_kid=issuer.holds, locator=issuer.name, holds=e.holds)
        args.update(kw)
        return make_elem(e.name, content, args.pop('signer_kid'), args.pop('locator'), **args)


def deviations(p: Pki):
    """yield (description, world, target packet, designed verdict or None when only the oracle decides)"""
    d = p.depth
    chain = p.chain
    yield 'baseline', p.world, p.data, True
    # alternative valid chains
    if p.variant == 2:
        yield 'signed-by-allowed-adm', p.world, p.resign(p.data, p.extra[0]), True
        yield 'signed-by-adm-with-disallowed-role', p.world, p.resign(p.data, p.extra[1]), False
    if p.variant == 3:
        pub = make_elem([comp('s'), comp('pub'), comp('x')], b'pub', p.anchor.holds, p.anchor.name)
        yield 'redefined-data-rule-signed-by-anchor', p.world, pub, True
        if d > 1:
            low = p.levels['alice'][d - 1]
            yield 'redefined-data-rule-signed-by-level-key', p.world, \
                make_elem([comp('s'), comp('pub'), comp('x')], b'pub', low.holds, low.name), False
    for i in range(d):
        e, issuer = chain[i], chain[i + 1]

        def world_with(new_e):
            w = p.world.copy()
            if i == 0:
                return w, new_e
            w.put(new_e)
            return w, p.data
        # 1. issuer of the wrong shape: every other valid certificate (and the anchor) signs element i
        cands = [c for u in ('alice', 'bob') for c in p.levels[u][1:]] + [p.anchor] + p.extra
        for c in cands:
            if c is issuer or c is e:
                continue
            w, tgt = world_with(p.resign(e, c))
            yield 'link%d-resigned-by:%s' % (i, '/'.join(x[2:].decode('latin1') for x in c.name[1:3])), w, tgt, None
        # 2. forged signature
        w, tgt = world_with(p.resign(e, issuer, tamper=True))
        yield 'link%d-forged-signature' % i, w, tgt, False
        # 3. substituted key: attacker signs, key locator still names the genuine issuer
        w, tgt = world_with(p.resign(e, issuer, signer_kid=p.attacker))
        yield 'link%d-substituted-key' % i, w, tgt, False
        # 3b. forged certificate: issuer certificate replaced by one with the attacker's key (self-made signature)
        if i + 1 < d:
            fake = make_elem(issuer.name, get_key(p.attacker)['pub'], p.attacker, issuer.locator, holds=p.attacker)
            w = p.world.copy()
            w.put(fake)
            new_e = p.resign(e, fake)
            if i == 0:
                yield 'link%d-forged-issuer-certificate' % i, w, new_e, False
            else:
                w.put(new_e)
                yield 'link%d-forged-issuer-certificate' % i, w, p.data, False
            # 4./5. issuer certificate missing / Nack
            w = p.world.copy()
            w.remove(issuer.name)
            yield 'link%d-issuer-certificate-missing' % i, w, p.data, False
            w = p.world.copy()
            w.put(issuer, 'nack')
            yield 'link%d-issuer-certificate-nack' % i, w, p.data, False
            w = p.world.copy()
            w.put(issuer, 'silent')
            yield 'link%d-issuer-certificate-timeout' % i, w, p.data, False
        # 6. unsigned / not key-signed
        for how in ('digest', 'none', 'hmac'):
            new_e = make_elem(e.name, get_key(e.holds)['pub'] if e.holds else p.content, None, issuer.name,
                              holds=e.holds, sig=how)
            w, tgt = world_with(new_e)
            yield 'link%d-%s-signature' % (i, how), w, tgt, False
        # 6b. forged without any private key: HMAC keyed with the issuer's PUBLIC key bits (what the validator fetches)
        new_e = make_elem(e.name, get_key(e.holds)['pub'] if e.holds else p.content, None, issuer.name,
                          holds=e.holds, sig='hmac', hmac_key=bytes(get_key(issuer.holds)['pub']))
        w, tgt = world_with(new_e)
        yield 'link%d-hmac-keyed-with-issuer-public-key' % i, w, tgt, False
        # 7. loops
        if e.holds:
            w, tgt = world_with(p.resign(e, e))          # certificate names itself as issuer (self-signed, genuine)
            yield 'link%d-self-signed-intermediate' % i, w, tgt, False
        if i + 1 < d and e.holds:
            w = p.world.copy()                            # e signed by issuer, issuer signed by e
            w.put(p.resign(issuer, e))
            yield 'link%d-two-certificate-loop' % i, w, p.data, False
        # 8. issuer chain that does not descend from the anchor (other PKI with the same names)
        if i + 1 < d:
            other_kid = 'ec-%s-other-%d' % (p.tag, i)
            foreign = make_elem(issuer.name, get_key(issuer.holds)['pub'], other_kid, issuer.locator, holds=issuer.holds)
            w = p.world.copy()
            w.put(foreign)
            yield 'link%d-issuer-certificate-signed-by-unknown-key' % i, w, p.data, False


# ------------------------------------------------------------------------------------------------- contracts

def locator_walk_loops(world: World, anchor: Elem, e: Elem) -> bool:
    """following key locators from e runs into a certificate name twice (never reaches the anchor or a dead end)"""
    seen = set()
    while e is not None and e.locator is not None and e.locator != anchor.name:
        key = nb(e.locator)
        if key in seen:
            return True
        seen.add(key)
        e = world.retrievable(e.locator)
    return False


def key_type_mismatch(world: World, anchor: Elem, e: Elem) -> bool:
    """somewhere on the locator walk an element announces a signature type (ECDSA/RSA) that is not the type of the
    key held by the certificate its key locator names"""
    seen = set()
    while e is not None and e.locator is not None:
        issuer = anchor if e.locator == anchor.name else world.retrievable(e.locator)
        if issuer is None or issuer.holds is None:
            return False
        if e.sig_type in ('ec', 'rsa') and get_key(issuer.holds)['type'] != e.sig_type:
            return True
        if issuer is anchor or nb(issuer.name) in seen:
            return False
        seen.add(nb(issuer.name))
        e = issuer
    return False


def post_verdict(desc, got, expected, errors, pending, kind, type_mismatch=False):
    out = []
    if got is not True and got is not False:
        if isinstance(got, ValueError) and type_mismatch and not expected:
            out.append(('C14:signature-vs-key-type-mismatch-raises:' + kind,
                        '%s: the packet announces a signature type (ECDSA/RSA) different from the type of the key in '
                        'the issuer certificate; the validator raises %s(%s) instead of answering no'
                        % (desc, type(got).__name__, got)))
        elif isinstance(got, Exception):
            out.append(('C14:validate-raises:%s:%s' % (kind, type(got).__name__),
                        '%s: validator raised %r instead of returning a verdict' % (desc, got)))
        else:
            if bool(got) != expected:
                out.append(('C14:verdict-' + ('accepts-invalid' if got else 'rejects-valid') + ':' + kind,
                            '%s: validator returned %r, oracle %r' % (desc, got, expected)))
    elif got != expected:
        out.append(('C14:verdict-' + ('accepts-invalid' if got else 'rejects-valid') + ':' + kind,
                    '%s: validator says %r, a valid chain to the anchor %s' % (desc, got, 'exists' if expected else 'does not exist')))
    if errors:
        out.append(('C14:unhandled-error-in-loop:' + kind, '%s: %s' % (desc, errors[:2])))
    if pending:
        out.append(('C14:tasks-left-pending:' + kind, '%s: %d tasks pending after the verdict' % (desc, pending)))
    return out


def run_validation(kind, schema, world, anchor, target, storage='fresh'):
    """-> (verdict | exception, errors, pending)"""
    lr = LoopRun()
    try:
        async def go():
            if kind == 'lvs':
                v, _face = build_lvs_validator(schema, world, anchor, storage)
            else:
                v, _face = build_cascade(world, anchor, storage)
            try:
                return await validate(v, target)
            except Exception as e:   # noqa - reported by post_verdict, never ignored
                return e
        got = lr.run(go())
    finally:
        pending = lr.close()
    return got, lr.errors, pending


def constructor_cases(p: Pki):
    """yield (description, kind, anchor elem, schema, must_raise)"""
    a = p.anchor
    yield 'proper-anchor', 'lvs', a, p.schema, False
    yield 'proper-anchor', 'cascade', a, p.schema, False
    forged = make_elem(a.name, get_key(a.holds)['pub'], a.holds, a.name, holds=a.holds, tamper=True)
    other = make_elem(a.name, get_key(a.holds)['pub'], p.attacker, a.name, holds=a.holds)
    digest = make_elem(a.name, get_key(a.holds)['pub'], None, a.name, holds=a.holds, sig='digest')
    hmac = make_elem(a.name, get_key(a.holds)['pub'], None, a.name, holds=a.holds, sig='hmac')
    for kind in ('lvs', 'cascade'):
        yield 'anchor-with-forged-signature', kind, forged, p.schema, True
        yield 'anchor-signed-by-another-key', kind, other, p.schema, True
        yield 'anchor-with-digest-signature', kind, digest, p.schema, True
        yield 'anchor-with-hmac-signature', kind, hmac, p.schema, True
    # anchor that is properly self-signed but does not match the schema's root of trust
    for nm in ([comp('t'), comp('KEY'), comp('k'), comp('self'), VER],
               [comp('s'), comp('l1'), comp('alice'), comp('KEY'), comp('k'), comp('self'), VER],
               [comp('s'), comp('KEY'), comp('k'), comp('self')],
               [comp('s'), comp('data'), comp('alice'), comp('n1')]):
        e = make_elem(nm, get_key(a.holds)['pub'], a.holds, nm, holds=a.holds)
        if p.ref.match(tuple(nm)) & {('#anchor', frozenset())}:
            continue
        yield 'self-signed-anchor-not-matching-root:' + '/'.join(c[2:].decode('latin1') for c in nm[:3]), 'lvs', e, \
            p.schema, True
    # schema with two roots of trust, the anchor matches only one
    s2 = make_schema(p.depth, 0)
    s2['rules'].append({'id': '#root2', 'items': [['lit', 't'], ['ref', '#KEY']], 'cons': [], 'signers': []})
    s2['rules'].append({'id': '#other', 'items': [['lit', 't'], ['lit', 'data'], ['pat', '_']], 'cons': [],
                        'signers': ['#root2']})
    yield 'second-root-of-trust-not-covered-by-anchor', 'lvs', a, s2, True


def post_construct(desc, kind, schema, anchor, must_raise):
    lr = LoopRun()
    try:
        async def go():
            try:
                if kind == 'lvs':
                    build_lvs_validator(schema, World(), anchor)
                else:
                    build_cascade(World(), anchor)
                return None
            except Exception as e:   # noqa - the outcome under contract
                return e
        exc = lr.run(go())
    finally:
        lr.close()
    if must_raise and exc is None:
        return [('C14:improper-anchor-accepted:%s:%s' % (kind, desc.split(':')[0]),
                 '%s: validator was built although the anchor is not acceptable' % desc)]
    if not must_raise and exc is not None:
        return [('C14:proper-anchor-refused:' + kind, '%s: construction raised %r' % (desc, exc))]
    return []


def independence_case(tag, kind, order, storage, x_variant):
    """two PKIs A and B (same schema, different anchors); packets: pA valid under A, pB valid under B, pX signed by
    A's level-1 key (key locator = A's level-1 certificate name) but presented to instance B.
    -> list of (instance name, packet name, verdict, oracle)"""
    rng = random.Random('c14-ind-' + tag)
    A = Pki(rng, 2, 0, tag + 'A')
    B = Pki(rng, 2, 0, tag + 'B')
    cA = A.levels['alice'][1]
    pX = make_elem([comp('s'), comp('data'), comp('bob'), comp('x')], b'x', cA.holds, cA.name)
    if x_variant == 1:
        B.world.put(cA)          # retrievable in B's world, but its issuer (A's anchor) is not B's anchor
    packets = {'pA': (A, A.data), 'pX': (B, pX), 'pB': (B, B.data)}
    lr = LoopRun()
    results = []
    try:
        async def go():
            vs = {}
            for nm, P in (('A', A), ('B', B)):
                if kind == 'lvs':
                    vs[nm] = build_lvs_validator(P.schema, P.world, P.anchor, storage)[0]
                else:
                    vs[nm] = build_cascade(P.world, P.anchor, storage)[0]
            for pk in order:
                P, e = packets[pk]
                inst = 'A' if P is A else 'B'
                try:
                    got = await validate(vs[inst], e)
                except Exception as ex:   # noqa - reported
                    got = ex
                exp = oracle_accept(P.world, P.ref if kind == 'lvs' else None, P.anchor, e)
                results.append((inst, pk, got, exp))
        lr.run(go())
    finally:
        pending = lr.close()
    return results, lr.errors, pending, pX


def same_key_other_certificate_case(tag, kind, order, storage):
    """ONE instance; pG: a valid packet signed by alice's last-level key with that certificate as key locator; pGhost: a packet
    signed by the SAME key whose key locator names a certificate of that key that was never issued (same key name, other
    issuer id).  Whatever was validated before, pGhost has no retrievable certificate and must be refused."""
    rng = random.Random('c14-ghost-' + tag)
    A = Pki(rng, 3, 0, tag + 'G')
    c = A.levels['alice'][A.depth - 1]
    ghost_name = list(c.name[:-2]) + [comp('ghost'), c.name[-1]]
    pG = A.data
    pGhost = make_elem([comp('s'), comp('data'), comp('alice'), comp('g')], b'g', c.holds, ghost_name)
    # pDig: signed by the same key, the key locator is the certificate's name followed by an implicit digest that is NOT the
    # digest of that certificate: no packet has this full name, so nothing can be retrieved for it
    pDig = make_elem([comp('s'), comp('data'), comp('alice'), comp('d')], b'd', c.holds, list(c.name) + [b'\x01\x20' + b'\x11' * 32])
    # pForged: the genuine packet with one content byte changed and the SAME signature bytes (and key locator)
    from ndn.encoding import parse_data as _pd
    fw = bytearray(pG.wire)
    _n, _m, cont, _sg = _pd(bytes(fw))
    at = bytes(fw).find(bytes(cont)) if cont is not None and len(cont) else -1
    if at >= 0:
        fw[at] ^= 0x20
    pForged = Elem(pG.name, fw, None, pG.signer_kid, False, pG.locator, pG.sig_type)
    packets = {'pG': pG, 'pGhost': pGhost, 'pDig': pDig, 'pForged': pForged}
    lr = LoopRun()
    results = []
    try:
        async def go():
            v = build_lvs_validator(A.schema, A.world, A.anchor, storage)[0] if kind == 'lvs' else build_cascade(A.world, A.anchor, storage)[0]
            for pk in order:
                e = packets[pk]
                try:
                    got = await validate(v, e)
                except Exception as ex:   # noqa - reported
                    got = ex
                exp = oracle_accept(A.world, A.ref if kind == 'lvs' else None, A.anchor, e)
                results.append(('A', pk, got, exp))
        lr.run(go())
    finally:
        pending = lr.close()
    return results, lr.errors, pending, pGhost


def fetch_history_case(tag, kind, mode, storage):
    """ONE instance and a valid chain.  mode 'silent' / 'nack': the certificate of the signing key cannot be fetched at first
    (the packet is refused), then it can: the same packet must now be accepted - an earlier failed fetch is not a verdict
    about the chain.  mode 'concurrent': two packets under the same not-yet-cached certificate are validated at the same
    time: both are owed the verdict of the chain."""
    rng = random.Random('c14-fetch-' + tag)
    upper = mode.endswith('-upper')
    A = Pki(rng, 4 if upper else 3, 0, tag + 'F')
    c = A.levels['alice'][A.depth - 1]
    p1 = A.data
    signing_cert = c
    if upper:
        # the certificate that cannot be fetched at first is the one directly under the anchor, two links above the packet:
        # what fails is the validation of the LOWER certificates (round 9, C14-seed14: such a failure was remembered for good)
        c = A.levels['alice'][1]
        mode = mode[:-len('-upper')]
    p2 = make_elem([comp('s'), comp('data'), comp('alice'), comp('second')], b'2', signing_cert.holds, list(signing_cert.name))
    lr = LoopRun()
    results = []
    try:
        async def go():
            v = build_lvs_validator(A.schema, A.world, A.anchor, storage)[0] if kind == 'lvs' else build_cascade(A.world, A.anchor, storage)[0]
            ref = A.ref if kind == 'lvs' else None

            async def one(pk, e):
                try:
                    got = await validate(v, e)
                except Exception as ex:   # noqa - reported
                    got = ex
                return pk, got
            if mode == 'concurrent':
                exp = {pk: oracle_accept(A.world, ref, A.anchor, e) for pk, e in (('p1', p1), ('p2', p2))}
                for pk, got in await asyncio.gather(one('p1', p1), one('p2', p2)):
                    results.append(('A', pk + '@together', got, exp[pk]))
                return
            A.world.put(c, mode)
            exp = oracle_accept(A.world, ref, A.anchor, p1)
            results.append(('A', 'p1@unfetchable', (await one('p1', p1))[1], exp))
            A.world.put(c, 'ok')
            for pk, e in (('p1', p1), ('p2', p2)):
                exp = oracle_accept(A.world, ref, A.anchor, e)
                results.append(('A', pk + '@fetchable-again', (await one(pk, e))[1], exp))
        lr.run(go())
    finally:
        pending = lr.close()
    return results, lr.errors, pending, p1


# ------------------------------------------------------------------------------------------------- driver

def pki_params(idx):
    depth = 1 + idx % 4
    variant = (idx // 4) % 4
    rsa_level = [None, 0, depth - 1, None, 1, None, None, 2][(idx // 16 + idx) % 8]
    return depth, variant, rsa_level


def run_single(idx, seed, desc_filter=None):
    """all deviation cases of PKI number idx; -> (list of (key, what, input), evaluations, hashes)"""
    depth, variant, rsa_level = pki_params(idx)
    rng = random.Random(seed * 1000003 + idx)
    tag = 'p%d' % idx
    p = Pki(rng, depth, variant, tag, rsa_level=rsa_level, real_certs=(idx % 5 == 4))
    out, hashes, evals = [], set(), 0
    for desc, world, target, designed in deviations(p):
        if desc_filter is not None and desc != desc_filter:
            continue
        expected = oracle_accept(world, p.ref, p.anchor, target)
        if designed is not None and expected != designed:
            raise AssertionError('harness: oracle %r but case %s designed as %r (pki %d)' % (expected, desc, designed, idx))
        kinds = [('lvs', expected)]
        # CascadeChecker on its own (no schema): same oracle without the schema clause.  Certificate loops are left
        # out there: only the schema check of lvs_validator bounds the walk, and the statement is about that validator.
        if (desc.startswith('baseline') or idx % 2 == 0) and not locator_walk_loops(world, p.anchor, target):
            kinds.append(('cascade', oracle_accept(world, None, p.anchor, target)))
        mism = key_type_mismatch(world, p.anchor, target)
        for kind, exp in kinds:
            got, errors, pending = run_validation(kind, p.schema, world, p.anchor, target)
            evals += 1
            hashes.add(L.case_hash(kind, idx, desc, target.wire))
            for key, what in post_verdict(desc, got, exp, errors, pending, kind, mism):
                out.append((key, 'pki %d (depth %d, template %d, rsa level %r): %s' % (idx, depth, variant, rsa_level, what),
                            {'part': 'single', 'idx': idx, 'seed': seed, 'desc': desc}))
    if desc_filter is None:
        for desc, kind, anchor, schema, must_raise in constructor_cases(p):
            evals += 1
            hashes.add(L.case_hash('ctor', kind, idx, desc, anchor.wire))
            for key, what in post_construct(desc, kind, schema, anchor, must_raise):
                out.append((key, 'pki %d: %s' % (idx, what), {'part': 'ctor', 'idx': idx, 'seed': seed, 'desc': desc,
                                                                'kind': kind}))
    return out, evals, hashes


def run_independence(idx, seed):
    out, hashes, evals = [], set(), 0
    orders = list(itertools.permutations(['pA', 'pX', 'pB']))
    for kind in ('lvs', 'cascade'):
        for x_variant in (0, 1):
            for oi, order in enumerate(orders):
                for storage in ('default', 'fresh'):
                    tag = 'i%d-%s-%d-%d-%s-%d' % (idx, kind, x_variant, oi, storage, seed)
                    results, errors, pending, pX = independence_case(tag, kind, order, storage, x_variant)
                    evals += len(results)
                    hashes.add(L.case_hash('ind', kind, x_variant, order, storage, pX.wire))
                    inp = {'part': 'independence', 'idx': idx, 'seed': seed, 'kind': kind, 'x_variant': x_variant,
                           'order': list(order), 'storage': storage}
                    for inst, pk, got, exp in results:
                        if got is not exp:
                            if storage == 'default' and got is True and exp is False and pk == 'pX' \
                                    and order.index('pA') < order.index('pX'):
                                key = 'C14:shared-default-key-storage:' + ('lvs_validator' if kind == 'lvs' else 'CascadeChecker')
                                what = ('instance B (anchor B) accepts a packet signed by a key that only instance A '
                                        '(anchor A) has validated before: the default `storage` argument is one object '
                                        'shared by all instances; order %s' % (list(order),))
                            else:
                                key = 'C14:verdict-depends-on-history:' + kind
                                what = 'instance %s, packet %s: verdict %r, oracle %r, order %s, storage %s' % (
                                    inst, pk, got, exp, list(order), storage)
                            out.append((key, what, inp))
                    if errors:
                        out.append(('C14:unhandled-error-in-loop:' + kind, '%s' % errors[:2], inp))
        # one instance, one key, two certificate names: the cache must not make a never-issued certificate acceptable
        for order in (('pG', 'pGhost'), ('pGhost', 'pG'), ('pG', 'pGhost', 'pG', 'pGhost'), ('pG', 'pDig'), ('pDig', 'pG', 'pDig'),
                      ('pG', 'pForged'), ('pForged', 'pG', 'pForged')):
            for storage in ('default', 'fresh'):
                tag = 'g%d-%s-%s-%s-%d' % (idx, kind, '-'.join(order), storage, seed)
                results, errors, pending, pGhost = same_key_other_certificate_case(tag, kind, order, storage)
                evals += len(results)
                hashes.add(L.case_hash('ghost', kind, order, storage, pGhost.wire))
                inp = {'part': 'ghost', 'idx': idx, 'seed': seed, 'kind': kind, 'order': list(order), 'storage': storage}
                for inst, pk, got, exp in results:
                    if got is not exp:
                        out.append(('C14:verdict-depends-on-history:same-key-other-certificate:' + kind,
                                    'packet %s: verdict %r, oracle %r, order %s, storage %s (a key locator naming a certificate that '
                                    'was never issued is accepted once another certificate of the same key was validated)' % (
                                        pk, got, exp, list(order), storage), inp))
                if errors:
                    out.append(('C14:unhandled-error-in-loop:' + kind, '%s' % errors[:2], inp))
        # one instance: an unfetchable certificate that becomes fetchable; two validations at the same time
        for mode in ('silent', 'nack', 'concurrent', 'silent-upper', 'nack-upper'):
            for storage in ('default', 'fresh'):
                tag = 'f%d-%s-%s-%s-%d' % (idx, kind, mode, storage, seed)
                results, errors, pending, p1 = fetch_history_case(tag, kind, mode, storage)
                evals += len(results)
                hashes.add(L.case_hash('fetch', kind, mode, storage, p1.wire))
                inp = {'part': 'fetch', 'idx': idx, 'seed': seed, 'kind': kind, 'mode': mode, 'storage': storage}
                for inst, pk, got, exp in results:
                    if got is not exp:
                        out.append(('C14:verdict-depends-on-history:fetch-%s:%s' % ('schedule' if mode == 'concurrent' else 'failure', kind),
                                    'packet %s: verdict %r, oracle %r (%s, storage %s)' % (pk, got, exp, mode, storage), inp))
                if errors:
                    out.append(('C14:unhandled-error-in-loop:' + kind, '%s' % errors[:2], inp))
    return out, evals, hashes


def run(tier: str, seed: int, shard: tuple[int, int]) -> dict:
    k, n = shard
    viol = L.Violations(MODULE)
    seen = set()
    evaluations = 0
    samples = []
    total = N_PKI.get(tier, N_PKI['quick'])
    for idx in range(total):
        if idx % n != k:
            continue
        out, ev, hs = run_single(idx, seed)
        evaluations += ev
        seen |= hs
        for key, what, inp in out:
            viol.add(key, what, inp)
        if len(samples) < 3:
            depth, variant, rsa_level = pki_params(idx)
            samples.append({'pki': idx, 'depth': depth, 'template': variant, 'rsa_level': rsa_level, 'cases': ev,
                            'schema': L.render(make_schema(depth, variant))})
    for idx in range(max(1, total // 8)):
        if idx % n != k:
            continue
        out, ev, hs = run_independence(idx, seed)
        evaluations += ev
        seen |= hs
        for key, what, inp in out:
            viol.add(key, what, inp)
    return {'evaluations': evaluations, 'distinct_nontrivial': len(seen), 'rule': RULE, 'bound': BOUND,
            'exhaustive': False, 'samples': samples, 'violations': viol.list()}


def replay(rec: dict) -> tuple[bool, str]:
    inp = rec['input']
    want = rec.get('key')
    if inp['part'] == 'ghost':
        tag = 'g%d-%s-%s-%s-%d' % (inp['idx'], inp['kind'], '-'.join(inp['order']), inp['storage'], inp['seed'])
        results, errors, pending, _ = same_key_other_certificate_case(tag + '-replay', inp['kind'], tuple(inp['order']), inp['storage'])
        bad = [(pk, repr(got), exp) for inst, pk, got, exp in results if got is not exp]
        if bad or errors:
            return False, 'verdict != oracle for %r %r' % (bad, errors)
        return True, 'all verdicts equal the oracle'
    if inp['part'] == 'fetch':
        tag = 'f%d-%s-%s-%s-%d' % (inp['idx'], inp['kind'], inp['mode'], inp['storage'], inp['seed'])
        results, errors, pending, _ = fetch_history_case(tag + '-replay', inp['kind'], inp['mode'], inp['storage'])
        bad = [(pk, repr(got), exp) for inst, pk, got, exp in results if got is not exp]
        if bad or errors:
            return False, 'verdict != oracle for %r %r' % (bad, errors)
        return True, 'all verdicts equal the oracle'
    if inp['part'] == 'independence':
        tag = 'i%d-%s-%d-%d-%s-%d' % (inp['idx'], inp['kind'], inp['x_variant'], 0, inp['storage'], inp['seed'])
        results, errors, pending, _ = independence_case(tag + '-replay', inp['kind'], tuple(inp['order']),
                                                        inp['storage'], inp['x_variant'])
        bad = [(i, p, g, e) for i, p, g, e in results if g is not e]
        if bad or errors:
            return False, 'verdict != oracle for %r %r' % (bad, errors)
        return True, 'all verdicts equal the oracle'
    if inp['part'] == 'single':
        out, _, _ = run_single(inp['idx'], inp['seed'], desc_filter=inp['desc'])
    else:
        depth, variant, rsa_level = pki_params(inp['idx'])
        p = Pki(random.Random(inp['seed'] * 1000003 + inp['idx']), depth, variant, 'p%d' % inp['idx'], rsa_level=rsa_level)
        out = []
        for desc, kind, anchor, schema, must_raise in constructor_cases(p):
            if desc == inp['desc'] and kind == inp['kind']:
                out += [(k2, w, None) for k2, w in post_construct(desc, kind, schema, anchor, must_raise)]
    hit = [o for o in out if want is None or o[0] == want]
    if hit:
        return False, '; '.join('%s: %s' % (o[0], o[1]) for o in hit)
    return True, 'contract holds for this case'
