"""Shared helpers for the bounded stand-ins c15, c17, c18, c19, c20.

A harness is organised as
    cases(tier, rng)      -> iterable of JSON-serialisable dicts (deterministic order; sharded by index % n)
    run_case(case)        -> list of (key, what) pairs = violated contracts (empty list = all contracts hold)
    nontrivial(case)      -> bool
and `drive()` turns that into the interface of bounded/README.md.
"""
import asyncio
import hashlib
import json
import os
import tempfile
import traceback

TMP_ROOT = '/var/tmp'


def case_hash(case) -> str:
    return hashlib.sha256(json.dumps(case, sort_keys=True, default=str).encode()).hexdigest()


def drive(module, cases, run_case, shard, rule, bound, exhaustive, nontrivial=lambda c: True, per_key=5):
    k, n = shard
    seen = set()
    evaluations = 0
    samples = []
    per = {}
    violations = []
    for idx, case in enumerate(cases):
        if idx % n != k:
            continue
        evaluations += 1
        if nontrivial(case):
            seen.add(case_hash(case))
        if len(samples) < 4 and (idx // n) % 7 == 0:
            samples.append(case)
        try:
            found = run_case(case)
        except Exception as e:   # a harness-level escape: never hide it
            found = [(f'{module.split(".")[-1].upper()}:harness-escape:{type(e).__name__}',
                      'unexpected exception escaped the case driver: ' + ''.join(
                          traceback.format_exception_only(type(e), e)).strip() + ' @ ' + _where(e))]
        dedup = set()
        for key, what in found:
            if key in dedup:
                continue
            dedup.add(key)
            per[key] = per.get(key, 0) + 1
            if per[key] <= per_key:
                violations.append({'key': key, 'what': what, 'module': module, 'input': case})
    return {'evaluations': evaluations, 'distinct_nontrivial': len(seen), 'rule': rule, 'bound': bound,
            'exhaustive': bool(exhaustive), 'samples': samples, 'violations': violations,
            'violation_counts': per}


def _where(e):
    tb = traceback.extract_tb(e.__traceback__)
    return ' <- '.join(f'{os.path.basename(f.filename)}:{f.lineno}' for f in tb[-3:])


def where(e):
    return _where(e)


def replay_with(run_case, rec):
    key = rec.get('key')
    found = run_case(rec['input'])
    same = [w for k_, w in found if k_ == key]
    if same:
        return False, f'{key}: {same[0]}'
    if found:
        return False, 'the stored key did not recur but other contracts fail: ' + '; '.join(f'{k_}: {w}' for k_, w in found[:3])
    return True, 'all contracts hold for the stored case'


class LoopRun:
    """Fresh event loop per case; records unhandled background errors; never leaves tasks pending."""

    def __init__(self, collect=False):
        self.collect = collect
        self.unhandled = []
        self.loop = None

    def _handler(self, loop, context):
        exc = context.get('exception')
        self.unhandled.append(f"{context.get('message')}: {type(exc).__name__ if exc else ''} {exc!r}")

    def _track(self, loop):
        """remember every task so that 'exception was never retrieved' is detected without waiting for the garbage collector"""
        self._tasks = []

        def factory(lp, coro, **kw):
            t = asyncio.Task(coro, loop=lp, **kw)
            self._tasks.append(t)
            return t
        loop.set_task_factory(factory)

    def _sweep(self):
        for t in getattr(self, '_tasks', []):
            if t.done() and not t.cancelled() and getattr(t, '_log_traceback', False):
                exc = t.exception()          # marks it retrieved: reported here instead of at destruction
                self.unhandled.append(f'Task exception was never retrieved: {type(exc).__name__} {exc!r}')
        self._tasks = []

    def run(self, coro_fn, timeout=20.0):
        loop = asyncio.new_event_loop()
        self.loop = loop
        loop.set_exception_handler(self._handler)
        self._track(loop)
        try:
            asyncio.set_event_loop(loop)
            return loop.run_until_complete(asyncio.wait_for(coro_fn(), timeout))
        finally:
            try:
                pending = [t for t in asyncio.all_tasks(loop) if not t.done()]
                for t in pending:
                    t.cancel()
                if pending:
                    loop.run_until_complete(asyncio.gather(*pending, return_exceptions=True))
                loop.run_until_complete(loop.shutdown_asyncgens())
                self._sweep()
            finally:
                asyncio.set_event_loop(None)
                loop.close()
            # destroying tasks whose exception was never retrieved reports through the handler
            if self.collect:
                import gc
                gc.collect()


def tmpdir(prefix):
    return tempfile.TemporaryDirectory(prefix=prefix, dir=TMP_ROOT)


class VirtualLoop(asyncio.SelectorEventLoop):
    """Event loop with a virtual clock: when nothing is ready it jumps to the next scheduled timer instead of sleeping."""

    def __init__(self):
        super().__init__()
        self._vt = 1000.0

    def time(self):
        return self._vt

    def _run_once(self):
        if not self._ready and self._scheduled:
            # drop cancelled timers at the head, then jump
            import heapq
            while self._scheduled and self._scheduled[0]._cancelled:
                h = heapq.heappop(self._scheduled)
                h._scheduled = False
                self._timer_cancelled_count = max(0, self._timer_cancelled_count - 1)
            if self._scheduled:
                when = self._scheduled[0]._when
                if when > self._vt:
                    self._vt = when
        super()._run_once()


class VirtualLoopRun(LoopRun):
    """LoopRun on a VirtualLoop (no real waiting)."""

    def run(self, coro_fn, timeout=None):
        loop = VirtualLoop()
        self.loop = loop
        loop.set_exception_handler(self._handler)
        self._track(loop)
        try:
            asyncio.set_event_loop(loop)
            main = loop.create_task(coro_fn())
            # with a virtual clock this fires as soon as nothing else is left to run: a deadlock instead of a hang
            guard = loop.call_later(1.0e7, main.cancel)
            try:
                return loop.run_until_complete(main)
            except asyncio.CancelledError:
                raise RuntimeError('deadlock: the case was still waiting when no timer or callback was left') from None
            finally:
                guard.cancel()
        finally:
            try:
                pending = [t for t in asyncio.all_tasks(loop) if not t.done()]
                for t in pending:
                    t.cancel()
                if pending:
                    loop.run_until_complete(asyncio.gather(*pending, return_exceptions=True))
                loop.run_until_complete(loop.shutdown_asyncgens())
                self._sweep()
            finally:
                asyncio.set_event_loop(None)
                loop.close()
