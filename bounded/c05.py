"""C05 bounded stand-in: nothing that requires validation reaches the application unvalidated.

Real ``ndn.appv2.NDNApp`` / ``ndn.app.NDNApp`` on the virtual-time loop of _apploop.py, lifetime 40 ms.

Part 'data' (consumer side).  1-3 Interests on one name, each with its OWN validator (verdict, latency); one Data
arrives at t_data.  Contract per Interest, written from the statement:
  post_data   validator finished before the deadline & accepted   -> the payload of that packet, at t_data+latency
              validator finished before the deadline & any other verdict -> ValidationFailure carrying the packet
                                                   (name, content, meta_info, sig_ptrs) and the verdict
              validator not finished before the deadline          -> InterestTimeout at the deadline, never the payload
              (finishing exactly at the deadline: either reading accepted)
              accepted = ValidResult.PASS / ALLOW_BYPASS in appv2 (anything else, of any type, is 'another verdict');
                         truthy in the legacy app.  A payload is only ever returned after the Interest's own validator
                         was called on that packet and returned an accepting verdict (harness log).
              legacy app with validator=None: the application-wide ``data_validator`` is the one in force.
              appv2 with validator=None: no payload may ever be returned.
Part 'interest' (producer side).  Routes /p and /p/q (each its own validator + handler); one incoming Interest.
  post_interest  plain Interest (no ApplicationParameters, no signature): handler of the longest-prefix route called
                 exactly once with that name, NO validator consulted (call counter == 0)
                 carries ApplicationParameters or a signature: never delivered unless the parameters digest is correct;
                 appv2: delivered iff digest correct and the route's validator exists and returned PASS/ALLOW_BYPASS,
                        and only after that validator call completed; the other route's validator is not the one in force
                 legacy: signed ones delivered iff digest correct and the validator in force (route's, else the
                        application-wide ``int_validator``) returned truthy, after it completed; unsigned parameterised
                        ones delivered iff the digest is correct
                 the handler receives the Interest's name and ApplicationParameters; nothing raises, no loop errors.
"""
import asyncio
import hashlib
import itertools
import json
import random

from ndn import encoding as enc
from ndn import types
from ndn.security import DigestSha256Signer

from . import _apploop as al

MODULE = 'bounded.c05'
LIFETIME = 40
VR = types.ValidResult

VERDICTS = {
    'VR.FAIL': VR.FAIL, 'VR.TIMEOUT': VR.TIMEOUT, 'VR.SILENCE': VR.SILENCE, 'VR.PASS': VR.PASS,
    'VR.ALLOW_BYPASS': VR.ALLOW_BYPASS,
    'None': None, 'True': True, 'False': False, '1': 1, '0': 0, '2': 2, '-2': -2, "''": '', "'PASS'": 'PASS',
}


class Raises:
    """pseudo verdict: the validator raises (a validator that fetches a certificate and runs into a timeout)"""
    def __init__(self, cls):
        self.cls = cls


VERDICTS['raise:TimeoutError'] = Raises(TimeoutError)
VERDICTS['raise:InterestTimeout'] = Raises(types.InterestTimeout)
VERDICTS['raise:InterestNack'] = Raises(lambda: types.InterestNack(150))
V2_DATA_ONLY = ['raise:TimeoutError']       # appv2, Data side only: never an acceptance
V1_DATA_ONLY = ['raise:InterestTimeout', 'raise:InterestNack']   # legacy, Data side: a validator whose own fetch fails gave no verdict
V2_VERDICTS = ['VR.FAIL', 'VR.TIMEOUT', 'VR.SILENCE', 'VR.PASS', 'VR.ALLOW_BYPASS', 'None', 'True', '1', '2', "'PASS'"]
V1_VERDICTS = ['True', 'False', '1', '0', 'None', "''", "'PASS'", 'VR.PASS']
# note: in the legacy app truthiness decides, and every ValidResult member is truthy as an Enum instance


def accepts(front: str, vname: str) -> bool:
    v = VERDICTS[vname]
    if isinstance(v, Raises):
        return False
    if front == 'v2':
        return isinstance(v, VR) and v in (VR.PASS, VR.ALLOW_BYPASS)
    return bool(v)


DATA_NAME = '/c05/obj'
DATA_CONTENT = b'payload-bytes'


# ---------------------------------------------------------------------------------------------------------------------
# part 'data'

def expected_data(front, vname, latency, t_data):
    """set of allowed (kind, time)"""
    fin = t_data + latency
    verdict_kind = 'data' if accepts(front, vname) else 'invalid'
    if fin < LIFETIME and isinstance(VERDICTS[vname], Raises):
        return {('invalid', fin), ('timeout', LIFETIME)}       # not an acceptance; which failure is not specified
    if fin < LIFETIME:
        return {(verdict_kind, fin)}
    if fin > LIFETIME:
        return {('timeout', LIFETIME)}
    return {(verdict_kind, fin), ('timeout', LIFETIME)}


def post_data(front, spec, obs, wire_fields) -> tuple | None:
    """spec = (vname, latency, t_data); obs = dict(kind, detail, t, exc, result, vlog).  Returns (key-suffix, what)."""
    vname, latency, t_data = spec
    exp = expected_data(front, vname, latency, t_data)
    kind, t = obs['kind'], obs['t']
    if front == 'v1' and isinstance(VERDICTS[vname], Raises):
        # the validator raised (its own certificate fetch timed out / was Nacked): that is no verdict, so no payload; how the
        # failure surfaces (which exception, when) is not specified
        if kind == 'data':
            return ('payload-although-the-validator-raised', f'validator raised {vname[6:]} and the payload was returned at {t}ms')
        if kind == 'pending':
            return ('expected-failure-got-pending', 'awaitable still pending 300 ms after the deadline although the validator raised')
        return None
    exp_kinds = '+'.join(sorted({k for k, _ in exp}))
    if kind == 'pending':
        return (f'expected-{exp_kinds}-got-pending', f'awaitable still pending 300 ms after the deadline; statement: {sorted(exp)}')
    if kind == 'error':
        return (f'express-ends-with-internal-error:{obs["detail"]}@{al.lib_site(obs["exc"])}',
                f'awaitable ended with {obs["detail"]} at {t}ms; statement: {sorted(exp)}')
    if kind not in {k for k, _ in exp}:
        return (f'expected-{exp_kinds}-got-{kind}',
                f'verdict {vname} after {latency}ms, Data at {t_data}ms, deadline {LIFETIME}ms: got {kind} at {t}ms; '
                f'statement: {sorted(exp)}')
    if (kind, t) not in exp:
        return (f'wrong-time:{kind}', f'{kind} at {t}ms; statement: {sorted(exp)}')
    name, content, fresh = wire_fields
    if kind == 'data':
        res = obs['result']
        rname, rcontent = (res[0], res[1]) if front == 'v2' else (res[0], res[2])
        if [bytes(c) for c in rname] != name or bytes(rcontent) != content:
            return ('payload-is-not-the-packet', f'returned {rname!r} / {bytes(rcontent)!r}')
        mine = [c for c in obs['vlog'] if c['end'] is not None and c['end'] <= t]
        if not mine:
            return ('payload-without-validator-call', 'payload returned but the validator supplied for this Interest '
                                                      'had not completed a call')
    if kind == 'invalid':
        e = obs['exc']
        ok_pkt = ([bytes(c) for c in e.name] == name and e.content is not None and bytes(e.content) == content
                  and e.meta_info is not None and e.meta_info.freshness_period == fresh
                  and e.sig_ptrs is not None and e.sig_ptrs.signature_info is not None)
        if not ok_pkt:
            return ('validation-failure-without-packet', f'ValidationFailure does not carry the packet: name={e.name!r}')
        v = VERDICTS[vname]
        if isinstance(v, Raises):
            if isinstance(e.result, VR) and e.result in (VR.PASS, VR.ALLOW_BYPASS):
                return ('validation-failure-without-verdict', f'ValidationFailure.result={e.result!r} for a raising validator')
        elif front == 'v2':
            if not (e.result is v or (e.result == v and type(e.result) is type(v))):
                return ('validation-failure-without-verdict', f'ValidationFailure.result={e.result!r}, verdict was {v!r}')
        else:
            if isinstance(e.result, VR) and e.result in (VR.PASS, VR.ALLOW_BYPASS):
                return ('validation-failure-without-verdict', f'ValidationFailure.result={e.result!r} for verdict {v!r}')
    return None


async def _drive_data(rig, case, out):
    loop = rig.loop
    front = case['front']
    await rig.start()
    pfx = f'C05:{front}:data:'
    mode = case.get('mode', 'own')          # own | app-default | lib-default-good | lib-default-bad | none
    ints = []

    def mk_validator(vname, latency, vlog):
        if front == 'v2':
            async def validator(name, sig, ctx):
                c = {'name': [bytes(x) for x in name], 'start': loop.now_ms(), 'end': None}
                vlog.append(c)
                if latency:
                    await asyncio.sleep(latency / 1000.0)
                c['end'] = loop.now_ms()
                if isinstance(VERDICTS[vname], Raises):
                    raise VERDICTS[vname].cls()
                return VERDICTS[vname]
        else:
            async def validator(name, sig):
                c = {'name': [bytes(x) for x in name], 'start': loop.now_ms(), 'end': None}
                vlog.append(c)
                if latency:
                    await asyncio.sleep(latency / 1000.0)
                c['end'] = loop.now_ms()
                if isinstance(VERDICTS[vname], Raises):
                    raise VERDICTS[vname].cls()
                return VERDICTS[vname]
        return validator

    wire = al.data_wire(DATA_NAME, DATA_CONTENT)
    if mode == 'lib-default-bad':
        b = bytearray(wire)
        b[-1] ^= 0x01          # last byte of the DigestSha256 SignatureValue
        wire = bytes(b)
    # the Interest names the Data either by its name or by its FULL name (name + implicit SHA-256 digest of the packet)
    int_name = DATA_NAME
    if case.get('name_form') == 'full':
        int_name = enc.Name.normalize(DATA_NAME) + [enc.Component.from_bytes(hashlib.sha256(wire).digest(),
                                                                               enc.Component.TYPE_IMPLICIT_SHA256)]

    for idx, (vname, latency) in enumerate(case['ints']):
        vlog = []
        rec = {'vlog': vlog, 'done': None, 'spec': (vname, latency, case['t_data'])}
        val = mk_validator(vname, latency, vlog)
        kw = dict(lifetime=LIFETIME, nonce=0x0a0b0c00 + idx, can_be_prefix=False)
        try:
            if front == 'v2':
                coro = rig.app.express(int_name, None if mode == 'none' else val, **kw)
            else:
                if mode == 'app-default':
                    rig.app.data_validator = val
                    coro = rig.app.express_interest(int_name, validator=None, **kw)
                elif mode in ('lib-default-good', 'lib-default-bad'):
                    coro = rig.app.express_interest(int_name, validator=None, **kw)
                else:
                    coro = rig.app.express_interest(int_name, validator=val, **kw)
        except ValueError:
            if mode == 'none':
                rec['refused'] = True
                ints.append(rec)
                continue
            raise
        rec['task'] = loop.create_task(coro)

        def on_done(task, rec=rec):
            rec['done'] = loop.now_ms()
        rec['task'].add_done_callback(on_done)
        ints.append(rec)
    await al.settle(loop)

    fields = ([bytes(c) for c in enc.Name.normalize(DATA_NAME)], DATA_CONTENT, 1000)
    await al.sleep_until(loop, case['t_data'])
    try:
        await rig.inject(wire)
    except Exception as e:
        out.append((pfx + f'receive-raises:{al.exc_label(e)}@{al.lib_site(e)}', f'{al.exc_label(e)} escaped _receive on Data'))
        return
    await al.sleep_until(loop, LIFETIME + 300)
    await al.settle(loop)

    for idx, rec in enumerate(ints):
        if rec.get('refused'):
            continue        # appv2 refuses to express without a validator: nothing can be returned
        task = rec['task']
        obs = {'vlog': rec['vlog'], 't': rec['done'], 'exc': None, 'result': None, 'detail': None}
        if not task.done():
            obs['kind'] = 'pending'
        elif task.cancelled():
            obs['kind'], obs['detail'] = 'error', 'CancelledError'
            obs['exc'] = asyncio.CancelledError()
        else:
            exc = task.exception()
            obs['exc'] = exc
            obs['kind'], obs['detail'] = al.classify(exc)
            if exc is None:
                obs['result'] = task.result()
        if mode == 'none':
            if obs['kind'] == 'data':
                out.append((pfx + 'payload-without-any-validator', 'express(validator=None) returned the payload'))
            continue
        spec = rec['spec']
        if mode == 'lib-default-good':
            spec = ('True', 0, case['t_data'])
        elif mode == 'lib-default-bad':
            spec = ('False', 0, case['t_data'])
        r = post_data(front, spec, obs, fields)
        if r is not None and not (mode.startswith('lib-default') and r[0] == 'payload-without-validator-call'):
            out.append((pfx + r[0], f'Interest #{idx} ({mode}): ' + r[1]))
    if rig.loop_errors:
        cls, site = rig.describe_loop_error(rig.loop_errors[0])
        out.append((pfx + f'loop-exception-handler:{cls}@{site}', f'background task died with {cls} in {site}'))
    if rig.pit_entries():
        out.append((pfx + 'pit-not-empty-at-quiescence', 'entries left in the pending-Interest table'))
    rig.app.shutdown()
    await al.settle(loop)


# ---------------------------------------------------------------------------------------------------------------------
# part 'interest'

# ---------------------------------------------------------------------------------------------------------------------
# part 'data2': one PIT node that survives a first Data packet, ONE validator object shared by two prefix Interests that
# are answered by two DIFFERENT packets (found necessary by the seeded change C05-seed14: a verdict remembered per node
# and validator was applied to the second packet)
async def _drive_data2(rig, case, out):
    loop = rig.loop
    front = case['front']
    await rig.start()
    pfx = f'C05:{front}:data2:'
    base = '/c05/two'
    calls = []
    lat = case['latency']
    if front == 'v2':
        async def shared(name, sig, ctx):
            calls.append(bytes(name[-1]))
            if lat:
                await asyncio.sleep(lat / 1000.0)
            return VR.PASS if bytes(enc.Component.get_value(name[-1])) == b'good' else VR.FAIL

        async def accept_all(name, sig, ctx):
            return VR.PASS
    else:
        async def shared(name, sig):
            calls.append(bytes(name[-1]))
            if lat:
                await asyncio.sleep(lat / 1000.0)
            return bytes(enc.Component.get_value(name[-1])) == b'good'

        async def accept_all(name, sig):
            return True

    def express(validator, can_be_prefix, nonce, lifetime):
        kw = dict(lifetime=lifetime, nonce=nonce, can_be_prefix=can_be_prefix)
        if front == 'v2':
            return loop.create_task(rig.app.express(base, validator, **kw))
        return loop.create_task(rig.app.express_interest(base, validator=validator, **kw))

    keeper = None
    if case['keeper']:
        keeper = express(accept_all, False, 0x0c050000, 4000)       # exact-match Interest: neither packet satisfies it
    results = []
    for k, which in enumerate(case['order']):
        t = express(shared, True, 0x0c050001 + k, 400)
        await al.settle(loop)
        n0 = len(calls)
        try:
            await rig.inject(al.data_wire(f'{base}/{which}', which.encode()))
        except Exception as e:
            out.append((pfx + f'receive-raises:{al.exc_label(e)}@{al.lib_site(e)}', f'{al.exc_label(e)} escaped _receive on Data'))
            return
        await al.sleep_until(loop, loop.now_ms() + lat + 20)
        await al.settle(loop)
        if not t.done():
            results.append((which, 'pending', None, len(calls) - n0))
            t.cancel()
            continue
        exc = None if t.cancelled() else t.exception()
        kind = 'cancelled' if t.cancelled() else al.classify(exc)[0]
        results.append((which, kind, None if exc is not None or t.cancelled() else t.result(), len(calls) - n0))
    for k, (which, kind, res, ncalls) in enumerate(results):
        what = f'order {case["order"]}, keeper {case["keeper"]}, latency {lat} ms: packet #{k} ({which})'
        if which == 'good':
            if kind != 'data' or bytes(res[1] if front == 'v2' else res[2]) != b'good':
                out.append((pfx + 'accepted-packet-not-returned', f'{what}: the shared validator accepts it, outcome {kind}'))
        else:
            if kind == 'data':
                out.append((pfx + 'payload-returned-although-its-validator-rejects-it', f'{what}: returned to the application'))
        if ncalls < 1:
            out.append((pfx + 'validator-not-consulted-for-this-packet', f'{what}: the validator was called {ncalls} times for it'))
    if keeper is not None:
        if keeper.done():
            out.append((pfx + 'exact-match-interest-completed-by-longer-data', 'the exact-match Interest ended although no packet has its name'))
        keeper.cancel()
    await al.settle(loop)
    if rig.loop_errors:
        cls, site = rig.describe_loop_error(rig.loop_errors[0])
        out.append((pfx + f'loop-exception-handler:{cls}@{site}', f'background task died with {cls} in {site}'))
    rig.app.shutdown()
    await al.settle(loop)



def fix_digest(wire: bytes) -> bytes:
    """recompute the ParametersSha256DigestComponent of an Interest after its parameters / signature were edited"""
    name, _p, _ap, sig = enc.parse_interest(wire)
    h = hashlib.sha256()
    for blk in sig.digest_covered_part:
        h.update(blk)
    old = bytes(sig.digest_value_buf)
    i = wire.index(old)
    return wire[:i] + h.digest() + wire[i + 32:]


def interest_wire(form: str, integrity: str, target: str, lifetime: int = 4000) -> tuple[bytes, bytes | None]:
    """returns (wire, app_param as the handler must see it)"""
    p = enc.InterestParam(nonce=0x11223344, lifetime=lifetime)
    if form == 'plain':
        return bytes(enc.make_interest(target, p)), None
    # 'param-empty': ApplicationParameters present with a zero-length value and no signature (24 00): parameters all the same
    ap = b'hello' if form in ('param', 'signed') else (b'' if form == 'param-empty' else None)
    signer = DigestSha256Signer(for_interest=True) if form.startswith('signed') else None
    wire = bytes(enc.make_interest(target, p, ap, signer=signer))
    seen_ap = ap if ap is not None else b''
    if integrity == 'ok':
        return wire, seen_ap
    b = bytearray(wire)
    if integrity == 'bad-param':
        i = wire.index(b'hello')
        b[i] ^= 0x01
        return bytes(b), None
    if integrity == 'bad-digest':
        i = wire.index(b'\x02\x20')
        b[i + 7] ^= 0x80
        return bytes(b), None
    if integrity == 'no-digest':
        body = bytes(enc.Name.to_bytes(target)) + b'\x0a\x04\x11\x22\x33\x44' + b'\x0c\x02\x0f\xa0' + b'\x24\x05hello'
        return b'\x05' + bytes([len(body)]) + body, None
    if integrity == 'bad-sig':
        b[-1] ^= 0x01
        return fix_digest(bytes(b)), seen_ap
    raise al.HarnessError(integrity)


def expected_interest(case) -> dict:
    """{'deliver': bool, 'validator_calls': int | None (None = not constrained)}"""
    front, form, integ = case['front'], case['form'], case['integrity']
    if form == 'plain':
        return {'deliver': True, 'validator_calls': 0}
    if integ in ('bad-param', 'bad-digest', 'no-digest'):
        return {'deliver': False, 'validator_calls': None}
    cfg = case['validator']        # ['none'] | ['route', vname, lat] | ['app', vname, lat] | ['lib']
    signed = form.startswith('signed')
    if front == 'v2':
        if cfg[0] == 'none':
            return {'deliver': False, 'validator_calls': None}
        return {'deliver': accepts('v2', cfg[1]), 'validator_calls': 1}
    if not signed:
        return {'deliver': True, 'validator_calls': None}
    if cfg[0] == 'lib':
        return {'deliver': integ == 'ok', 'validator_calls': None}     # library's sha256_digest_checker in force
    return {'deliver': accepts('v1', cfg[1]), 'validator_calls': 1}


async def _drive_interest(rig, case, out):
    loop = rig.loop
    front = case['front']
    await rig.start()
    pfx = f'C05:{front}:interest:'
    target = case['target']
    in_force = '/p/q' if target.startswith('/p/q') else '/p'
    other = '/p' if in_force == '/p/q' else '/p/q'
    hcalls, vcalls = [], []

    def mk_handler(route):
        if front == 'v2':
            def handler(name, app_param, reply, context):
                hcalls.append({'route': route, 'name': [bytes(c) for c in name],
                               'ap': None if app_param is None else bytes(app_param), 't': loop.now_ms()})
        else:
            def handler(name, param, app_param):
                hcalls.append({'route': route, 'name': [bytes(c) for c in name],
                               'ap': None if app_param is None else bytes(app_param), 't': loop.now_ms()})
        return handler

    def mk_validator(route, vname, latency):
        async def body(name):
            c = {'route': route, 'name': [bytes(x) for x in name], 'start': loop.now_ms(), 'end': None}
            vcalls.append(c)
            if latency:
                await asyncio.sleep(latency / 1000.0)
            c['end'] = loop.now_ms()
            return VERDICTS[vname]
        if front == 'v2':
            async def validator(name, sig, ctx):
                return await body(name)
        else:
            async def validator(name, sig):
                return await body(name)
        return validator

    cfg = case['validator']
    accept_name = 'VR.PASS' if front == 'v2' else 'True'
    route_val = mk_validator(in_force, cfg[1], cfg[2]) if cfg[0] == 'route' else None
    if front == 'v1' and cfg[0] == 'app':
        rig.app.int_validator = mk_validator('app', cfg[1], cfg[2])
    other_val = mk_validator(other, accept_name, 0)       # the route NOT in force always accepts
    if case.get('history') == 'reattached':
        # the prefix in force was attached before with ANOTHER (always accepting) validator, detached, and is now attached
        # again as configured: nothing of the first attachment may still be in force
        stale_val = mk_validator('stale-attachment', accept_name, 0)
        stale_handler = mk_handler('stale-attachment')
        try:
            if front == 'v2':
                rig.app.attach_handler(in_force, stale_handler, stale_val)
                rig.app.detach_handler(in_force)
            else:
                rig.app.set_interest_filter(in_force, stale_handler, stale_val)
                rig.app.unset_interest_filter(in_force)
        except Exception as e:
            out.append((pfx + f'reattach-raises:{al.exc_label(e)}', f'attach / detach of {in_force} raised {al.exc_label(e)}'))
            return
    if front == 'v2':
        rig.app.attach_handler(in_force, mk_handler(in_force), route_val)
        rig.app.attach_handler(other, mk_handler(other), other_val)
    else:
        rig.app.set_interest_filter(in_force, mk_handler(in_force), route_val)
        rig.app.set_interest_filter(other, mk_handler(other), other_val)

    wire, seen_ap = interest_wire(case['form'], case['integrity'], target, case.get('int_lifetime', 4000))
    try:
        iname = [bytes(c) for c in enc.parse_interest(wire)[0]]
    except Exception:  # noqa: an Interest the codec refuses cannot reach a handler either; nothing to compare the name to
        iname = None
    try:
        await rig.inject(wire)
    except Exception as e:
        out.append((pfx + f'receive-raises:{al.exc_label(e)}@{al.lib_site(e)}',
                    f'{al.exc_label(e)} escaped _receive on an incoming Interest'))
        return
    # wait until every configured validator latency has elapsed (the thorough tier uses latencies beyond 150 ms)
    horizon = 150
    if cfg[0] in ('route', 'app') and isinstance(cfg[2], (int, float)):
        horizon = max(horizon, int(cfg[2]) + 50)
    await al.sleep_until(loop, horizon)
    await al.settle(loop)

    exp = expected_interest(case)
    tag = f'{case["form"]}/{case["integrity"]}/{"-".join(map(str, cfg))}'
    # a validator that takes longer than the Interest's lifetime: whether the (accepted) Interest is still handed on is not what
    # the statement is about - that it is not handed on WITHOUT the accepting verdict is
    overrun = cfg[0] in ('route', 'app') and isinstance(cfg[2], (int, float)) and cfg[2] >= case.get('int_lifetime', 4000)
    if exp['deliver']:
        if overrun and not hcalls:
            pass
        elif len(hcalls) != 1:
            out.append((pfx + ('plain-interest-not-delivered-once' if case['form'] == 'plain' else
                               'accepted-interest-not-delivered-once'),
                        f'{tag}: handler called {len(hcalls)} times, expected once'))
        else:
            h = hcalls[0]
            if h['route'] != in_force:
                out.append((pfx + 'wrong-route', f'{tag}: delivered to {h["route"]}, longest prefix is {in_force}'))
            if h['name'] != iname or h['ap'] != seen_ap:
                out.append((pfx + 'handler-sees-wrong-packet', f'{tag}: handler got {h["name"]!r} / {h["ap"]!r}'))
            if exp['validator_calls'] == 1:
                mine = [c for c in vcalls if c['route'] in (in_force, 'app') and c['end'] is not None and c['end'] <= h['t']]
                if not mine:
                    out.append((pfx + 'delivered-before-validator-accepted',
                                f'{tag}: handler ran at {h["t"]}ms without a completed call of the validator in force'))
    else:
        if hcalls:
            if case['form'] != 'plain' and case['integrity'] in ('bad-param', 'bad-digest', 'no-digest'):
                key = 'delivered-with-wrong-parameters-digest'
            elif cfg[0] == 'none':
                key = 'delivered-without-validator'
            else:
                key = 'delivered-despite-rejecting-verdict'
            out.append((pfx + key, f'{tag}: handler called {len(hcalls)} times ({hcalls[0]["route"]}) but the statement '
                                   f'requires the Interest to be dropped'))
    if exp['validator_calls'] == 0 and vcalls:
        out.append((pfx + 'validator-consulted-for-plain-interest', f'{tag}: {len(vcalls)} validator calls for a plain Interest'))
    if any(c['route'] == other for c in vcalls):
        out.append((pfx + 'validator-of-other-route-consulted', f'{tag}: validator of {other} ran for an Interest under {in_force}'))
    if rig.loop_errors:
        cls, site = rig.describe_loop_error(rig.loop_errors[0])
        out.append((pfx + f'loop-exception-handler:{cls}@{site}', f'{tag}: background task died with {cls} in {site}'))
    rig.app.shutdown()
    await al.settle(loop)


# ---------------------------------------------------------------------------------------------------------------------

def run_one(case) -> list:
    out = []

    async def go(rig):
        if case['part'] == 'data':
            await _drive_data(rig, case, out)
        elif case['part'] == 'data2':
            await _drive_data2(rig, case, out)
        else:
            await _drive_interest(rig, case, out)
    res = al.run_case(go, case['front'])
    if isinstance(res, dict) and res.get('deadlock'):
        out.append((f'C05:{case["front"]}:{case["part"]}:event-loop-ran-dry', 'nothing left to run while the case was waiting'))
    seen, uniq = set(), []
    for k, w in out:
        if k not in seen:
            seen.add(k)
            uniq.append((k, w))
    return uniq


def gen_cases(tier, rng):
    thorough = tier != 'quick'
    lats = [0, 1, 5, 14, 15, 16, 24, 25, 26, 39, 40, 41, 60, 100, 200] if not thorough else list(range(0, 82)) + [200]
    tds = [0, 10, 25, 39] if not thorough else list(range(0, 40, 3))
    # --- data: single Interest, every verdict x latency x arrival
    for front, verdicts in (('v2', V2_VERDICTS + V2_DATA_ONLY), ('v1', V1_VERDICTS)):
        for vname in verdicts:
            for lat in lats:
                for td in tds:
                    yield {'part': 'data', 'front': front, 'mode': 'own', 't_data': td, 'ints': [[vname, lat]]}
        # two / three Interests on the same name, each with its own validator
        acc = 'VR.PASS' if front == 'v2' else 'True'
        rej = 'VR.SILENCE' if front == 'v2' else '0'
        for (va, la), (vb, lb) in itertools.product([(acc, 0), (acc, 10), (acc, 60), (rej, 0), (rej, 10), (rej, 60)], repeat=2):
            yield {'part': 'data', 'front': front, 'mode': 'own', 't_data': 5, 'ints': [[va, la], [vb, lb]]}
        for trio in itertools.product([(acc, 10), (rej, 0), (acc, 60)], repeat=3):
            yield {'part': 'data', 'front': front, 'mode': 'own', 't_data': 5, 'ints': [list(x) for x in trio]}
    for vname in V1_VERDICTS:
        for lat in (0, 10, 60):
            yield {'part': 'data', 'front': 'v1', 'mode': 'app-default', 't_data': 5, 'ints': [[vname, lat]]}
    for vname in V1_DATA_ONLY:
        for lat in (0, 10):
            for mode in ('own', 'app-default'):
                yield {'part': 'data', 'front': 'v1', 'mode': mode, 't_data': 5, 'ints': [[vname, lat]]}
                yield {'part': 'data', 'front': 'v1', 'mode': mode, 't_data': 5, 'ints': [[vname, lat]], 'name_form': 'full'}
    # the same, the Interest naming the Data by its full name (implicit digest): validation is owed all the same
    for front, verdicts in (('v2', V2_VERDICTS + V2_DATA_ONLY), ('v1', V1_VERDICTS)):
        for vname in verdicts:
            for lat in (0, 10, 60):
                yield {'part': 'data', 'front': front, 'mode': 'own', 't_data': 5, 'ints': [[vname, lat]], 'name_form': 'full'}
        acc, rej = ('VR.PASS', 'VR.SILENCE') if front == 'v2' else ('True', '0')
        yield {'part': 'data', 'front': front, 'mode': 'own', 't_data': 5, 'ints': [[acc, 10], [rej, 0]], 'name_form': 'full'}
    for vname in V1_VERDICTS:
        yield {'part': 'data', 'front': 'v1', 'mode': 'app-default', 't_data': 5, 'ints': [[vname, 0]], 'name_form': 'full'}
    for mode in ('lib-default-good', 'lib-default-bad'):
        yield {'part': 'data', 'front': 'v1', 'mode': mode, 't_data': 5, 'ints': [['True', 0]], 'name_form': 'full'}
    for mode in ('lib-default-good', 'lib-default-bad'):
        yield {'part': 'data', 'front': 'v1', 'mode': mode, 't_data': 5, 'ints': [['True', 0]]}
    yield {'part': 'data', 'front': 'v2', 'mode': 'none', 't_data': 5, 'ints': [['VR.PASS', 0]]}
    # --- two different packets, one validator object, one PIT node (with and without an Interest that keeps the node alive)
    for front in ('v2', 'v1'):
        for order in (['good', 'bad'], ['bad', 'good'], ['good', 'good'], ['bad', 'bad'], ['good', 'bad', 'good']):
            for keeper in (True, False):
                for lat in (0, 5):
                    yield {'part': 'data2', 'front': front, 'order': order, 'keeper': keeper, 'latency': lat}
    # --- interests
    forms = [('plain', 'ok'), ('param', 'ok'), ('param', 'bad-param'), ('param', 'bad-digest'), ('param', 'no-digest'),
             ('signed', 'ok'), ('signed', 'bad-param'), ('signed', 'bad-digest'), ('signed', 'bad-sig'),
             ('signed-noparam', 'ok'), ('signed-noparam', 'bad-digest'), ('signed-noparam', 'bad-sig')]
    ilats = [0, 10, 60] if not thorough else [0, 1, 10, 60, 5000]
    for front, verdicts in (('v2', V2_VERDICTS), ('v1', V1_VERDICTS)):
        cfgs = [['none', None, None]]
        cfgs += [['route', v, lat] for v in verdicts for lat in ilats]
        if front == 'v1':
            cfgs = [['lib', None, None]] + [c for c in cfgs if c[0] != 'none'] + [['app', v, lat] for v in verdicts for lat in ilats]
        for form, integ in forms:
            for cfg in cfgs:
                for target in ('/p/x', '/p/q/x'):
                    yield {'part': 'interest', 'front': front, 'form': form, 'integrity': integ, 'validator': cfg,
                           'target': target}
    # --- parameters of zero length without a signature; validators that take longer than the Interest's own lifetime
    for front, verdicts in (('v2', V2_VERDICTS), ('v1', V1_VERDICTS)):
        for integ in ('ok', 'bad-digest'):
            for cfg in [['none', None, None]] + [['route', v, lat] for v in verdicts for lat in (0, 10)]:
                if front == 'v1' and cfg[0] == 'none':
                    continue
                yield {'part': 'interest', 'front': front, 'form': 'param-empty', 'integrity': integ, 'validator': cfg, 'target': '/p/x'}
        for form in ('param', 'signed', 'signed-noparam'):
            for v in verdicts:
                for life, lat in ((20, 60), (20, 20), (1, 10), (50, 49)):
                    yield {'part': 'interest', 'front': front, 'form': form, 'integrity': 'ok', 'validator': ['route', v, lat],
                           'target': '/p/x', 'int_lifetime': life}
    # --- the same Interest cases on a prefix that was attached with another validator, detached and attached again
    for front, verdicts in (('v2', V2_VERDICTS), ('v1', V1_VERDICTS)):
        cfgs = [['route', v, 0] for v in verdicts]
        if front == 'v1':
            cfgs += [['lib', None, None]] + [['app', v, 0] for v in verdicts]
        for form, integ in forms:
            for cfg in cfgs:
                yield {'part': 'interest', 'front': front, 'form': form, 'integrity': integ, 'validator': cfg, 'target': '/p/x',
                       'history': 'reattached'}
    # --- random data cases: 1-3 Interests with arbitrary verdict / latency / arrival
    if True:
        for _ in range(60000 if thorough else 3000):
            front = rng.choice(['v1', 'v2'])
            verdicts = V2_VERDICTS + V2_DATA_ONLY if front == 'v2' else V1_VERDICTS
            yield {'part': 'data', 'front': front, 'mode': 'own', 't_data': rng.randrange(0, 40),
                   'ints': [[rng.choice(verdicts), rng.choice([0, rng.randrange(1, 80)])] for _ in range(rng.randint(1, 3))]}


def case_id(case) -> str:
    return hashlib.sha1(json.dumps(case, sort_keys=True).encode()).hexdigest()[:16]


def run(tier: str, seed: int, shard: tuple) -> dict:
    al.quiet_logging()
    k, n = shard
    rng = random.Random(seed * 1000)          # the same stream in every shard: the case list is partitioned by index
    sink = al.ViolationSink(MODULE)
    distinct, evaluations, samples = set(), 0, []
    for idx, case in enumerate(gen_cases(tier, rng)):
        if idx % n != k:
            continue
        evaluations += 1
        distinct.add(case_id(case))
        if len(samples) < 4 and evaluations % 37 == 0:
            samples.append(case)
        for key, what in run_one(case):
            sink.add(key, what, case, len(json.dumps(case)))
    return {
        'evaluations': evaluations,
        'distinct_nontrivial': len(distinct),
        'rule': "part 'data': {appv2: 5 ValidResult values + 5 values of other types + a validator raising TimeoutError; legacy: 8 truthy/falsy values} x "
                "validator latency (before / at / after the 40 ms deadline) x Data arrival time, 1-3 Interests on one "
                "name each with its own validator, plus default-validator modes, the Interest naming the Data by name or by full name (implicit digest); part 'interest': {plain, "
                "parameterised, signed, signed without parameters} x {digest ok, parameter corrupted, digest corrupted, "
                "digest missing, signature corrupted with digest re-computed} x validator in force {none, route, "
                "application-wide, library default} x verdict x latency x {route /p, nested route /p/q}. Every case "
                "sends a packet through the real app; distinct = sha1(case parameters)",
        'bound': ('quick: full product described in rule with 15 validator latencies x 4 arrival times (data), 3 '
                  'latencies (interest) + 3000 random cases with 1-3 Interests' if tier == 'quick' else
                  'thorough: full product with latencies 0..81,200 ms x 14 arrival times (data), 5 latencies (interest) '
                  '+ 60000 random cases with 1-3 Interests'),
        'exhaustive': False,
        'samples': samples,
        'violations': sink.records(),
    }


def replay(rec: dict):
    al.quiet_logging()
    found = run_one(rec['input'])
    keys = [k for k, _ in found]
    holds = rec.get('key') not in keys if rec.get('key') else not found
    return holds, ('; '.join(f'{k}: {w}' for k, w in found) or 'all contracts hold on this case')
