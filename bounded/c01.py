"""C01 bounded stand-in: Interest/Data encode/decode round trip with exact lengths.

Run-time contracts on the REAL make_interest / make_data / parse_interest / parse_data:

  post_wellformed   the emitted wire is exactly one TLV element (type 5 / 6) whose declared lengths are exact at every
                    level, var-numbers in shortest form, recognised elements once and in order -- judged by the
                    independent strict walker in _packets.py (never by the library's decoder)
  post_wire_fields  the fields read from the wire by the independent walker are the inputs (name, MetaInfo /
                    InterestParam, payload, signature type, signature length; digest component present iff required)
  post_roundtrip    parse_X(wire) returns the same name (+ parameters-digest component when required), the same
                    parameters / MetaInfo and the same payload; need_final_name returns that same name
"""
import hashlib
import json
import struct
import random

from ndn.encoding import make_data, make_interest, parse_data, parse_interest, MetaInfo, InterestParam

from . import _packets as P

MODULE = 'bounded.c01'

RULE = ('cases = (kind, name components+input form, MetaInfo/InterestParam presence combination and values, payload '
        'length or boundary target, signer incl. reserved/actual size) generated deterministically from the seed and '
        'partitioned by index % nshards; a case is non-trivial when a packet was actually built and all three '
        'contracts were evaluated; distinct = distinct case descriptions (repetitions of randomised ECDSA signatures '
        'of one description count once)')
BOUND = ('names of 0..4 (thorough 0..6) components of types {1,2,8,32,50,253,65535}, component lengths 0..300; all 2^3 '
         'MetaInfo (+absent) and 2^6 InterestParam presence combinations; payload absent / 0..300 / within +-12 of the '
         '253 and 65536 boundaries of the payload length, of the outer length before and after signature shrink / 70000; '
         'signers none, DigestSha256, HmacSha256, RSA-1024/2048, ECDSA P-256/384/521, Ed25519, Null and a synthetic '
         'signer reserving S<=252 bytes and writing r in 0..S; reserved S>=253 with r<S is documented as unsupported '
         '(ValueError) and outside the domain')

SIGNER_KINDS = ['none', 'digest', 'hmac', 'rsa1024', 'rsa2048', 'p256', 'p384', 'p521', 'ed25519', 'null']
COMP_TYPES = [1, 2, 8, 32, 50, 253, 65535]


# --------------------------------------------------------------------------------------------------------------
# case description -> concrete inputs
# --------------------------------------------------------------------------------------------------------------

def fill_bytes(n: int, salt: int) -> bytes:
    blk = hashlib.sha256(b'c01' + salt.to_bytes(4, 'big')).digest()
    return (blk * (n // 32 + 1))[:n]


def name_input(spec):
    """spec = {'comps': [hex], 'form': formal|bytes|mixed|str} -> the NonStrictName handed to the library"""
    comps = [bytes.fromhex(h) for h in spec['comps']]
    form = spec.get('form', 'formal')
    if form == 'formal':
        return list(comps)
    if form == 'bytes':
        return P.enc_tlv(P.T_NAME, b''.join(comps))
    simple = [c[0] == 8 and len(c) > 2 and c[2:].isalnum() for c in comps]
    if form == 'str' and all(simple):
        return '/' + '/'.join(c[2:].decode() for c in comps)
    # mixed: simple generic components as text, the others as encoded components
    return [c[2:].decode() if s else c for c, s in zip(comps, simple)]


def meta_input(m):
    if m is None:
        return None
    fbi = bytes.fromhex(m['final_block_id']) if m.get('final_block_id') is not None else None
    return MetaInfo(content_type=m.get('content_type'), freshness_period=m.get('freshness_period'), final_block_id=fbi)


def param_input(p):
    return InterestParam(can_be_prefix=p['can_be_prefix'], must_be_fresh=p['must_be_fresh'], nonce=p['nonce'],
                         lifetime=p['lifetime'], hop_limit=p['hop_limit'],
                         forwarding_hint=[name_input(n) for n in p['forwarding_hint']])


class InputMutated(Exception):
    """the encoder changed an object its caller passed in (the caller keeps using it: the next packet built from the same
    name / parameter object would differ)"""


def _frozen(x):
    if isinstance(x, (bytes, bytearray, memoryview)):
        return bytes(x)
    if isinstance(x, (list, tuple)):
        return tuple(_frozen(y) for y in x)
    if isinstance(x, InterestParam):
        return ('InterestParam', x.can_be_prefix, x.must_be_fresh, x.nonce, x.lifetime, x.hop_limit, _frozen(x.forwarding_hint))
    if isinstance(x, MetaInfo):
        return ('MetaInfo', x.content_type, x.freshness_period, _frozen(x.final_block_id) if x.final_block_id is not None else None)
    return x


class Reentrant:
    """a signer that itself encodes another packet of the same kind each time the encoder calls it (a key store that logs
    with signed packets, a signer that fetches its certificate ...): the packet being built must come out as with the plain
    signer.  'ok': the inner packet is encoded and signed; 'rejected': the inner call is refused (hop limit 300 / a signer
    that fails), which must not leave anything behind either"""

    def __init__(self, inner, kind, mode):
        self.__dict__.update(_inner=inner, _kind=kind, _mode=mode)

    def _other(self):
        try:
            if self._kind == 'data':
                make_data('/c01/inner/packet/of/a/signer', MetaInfo(freshness_period=7), b'inner' * 9,
                          P.make_signer({'kind': 'digest'} if self._mode == 'ok' else {'kind': 'shrink', 'S': 40, 'r': 3}))
            else:
                make_interest('/c01/inner/interest/of/a/signer', InterestParam(hop_limit=64 if self._mode == 'ok' else 300), b'inner',
                              P.make_signer({'kind': 'digest'}))
        except (ValueError, TypeError, struct.error):
            if self._mode == 'ok':
                raise

    def write_signature_info(self, *a, **kw):
        self._other()
        return self._inner.write_signature_info(*a, **kw)

    def get_signature_value_size(self, *a, **kw):
        self._other()
        return self._inner.get_signature_value_size(*a, **kw)

    def write_signature_value(self, *a, **kw):
        self._other()
        return self._inner.write_signature_value(*a, **kw)

    def __getattr__(self, item):
        return getattr(self._inner, item)

    def __setattr__(self, k, v):
        setattr(self._inner, k, v)


def build(case, payload):
    """calls the real encoder; returns (wire_bytes, final_name|None, signer).  The objects handed to the encoder are compared
    with their state before the call."""
    plain = P.make_signer(case['signer'])
    wire, fin = _build(case, payload, Reentrant(plain, case['kind'], case['reentrant']) if case.get('reentrant') and plain is not None
                       else plain)
    return wire, fin, plain


def _build(case, payload, signer):
    name = name_input(case['name'])
    extra = meta_input(case['meta']) if case['kind'] == 'data' else param_input(case['param'])
    before = (_frozen(name), _frozen(extra), _frozen(payload) if payload is not None else None)

    def unchanged():
        after = (_frozen(name), _frozen(extra), _frozen(payload) if payload is not None else None)
        for what, a, b in zip(('name', 'meta_info / interest_param', 'payload'), before, after):
            if a != b:
                raise InputMutated(f'the {what} object passed by the caller was modified by the encoder')
    if case['kind'] == 'data':
        wire = make_data(name, extra, payload, signer)
        unchanged()
        return bytes(wire), None
    if case.get('final_name'):
        wire, fin = make_interest(name, extra, payload, signer, need_final_name=True)
        unchanged()
        return bytes(wire), [bytes(c) for c in fin]
    wire = make_interest(name, extra, payload, signer)
    unchanged()
    return bytes(wire), None


_probe_cache = {}


def resolve_payload(case):
    """-> payload bytes | None.  Boundary targets are resolved by probing the same packet with an empty payload and
    solving for the payload length that puts the targeted length field at B+d."""
    pl = case['payload']
    if pl is None:
        return None
    if 'len' in pl:
        return fill_bytes(pl['len'], case.get('fill', 0))
    base = dict(case)
    base.pop('payload')
    base.pop('rep', None)
    ck = json.dumps(base, sort_keys=True)
    if ck not in _probe_cache:
        wire, _, signer = build(case, b'')
        w = P.walk_data(wire) if case['kind'] == 'data' else P.walk_interest(wire)
        post0 = w['value'][1] - w['value'][0]
        S = signer.get_signature_value_size() if signer is not None else 0
        r0 = len(w['sigvalue']) if w['sigvalue'] is not None else 0
        _probe_cache[ck] = (post0 + (S - r0), S)
    pre0, S = _probe_cache[ck]
    want = pl['B'] + pl['d']
    if pl['target'] == 'outer_post':          # nominal: signer writes r bytes (synthetic signer) -> shrink S - r
        want += S - case['signer'].get('r', S)
    fixed = pre0 - 2                           # everything but the (empty) payload element
    for vs in (1, 3, 5):
        p = want - fixed - 1 - vs
        if p >= 0 and P.var_size(p) == vs:
            return fill_bytes(p, case.get('fill', 0))
    return False                               # unreachable length (gap between encodings): no case


# --------------------------------------------------------------------------------------------------------------
# contracts
# --------------------------------------------------------------------------------------------------------------

def expected_need_digest(case, payload):
    return case['kind'] == 'interest' and (payload is not None or case['signer'] is not None)


def post_wellformed(case, wire):
    try:
        return (P.walk_data(wire) if case['kind'] == 'data' else P.walk_interest(wire)), None
    except P.Malformed as e:
        return None, f'emitted wire is not one well-formed {case["kind"]} element with exact lengths: {e}'


def post_wire_fields(case, payload, w, signer):
    """what a strict reading of the wire gives == the inputs"""
    out = []
    comps = [bytes.fromhex(h) for h in case['name']['comps']]
    if case['kind'] == 'data':
        if w['name'] != comps:
            out.append(('name', f'Name on the wire {[c.hex() for c in w["name"]][:6]} != input'))
        m = case['meta']
        exp_meta = None if m is None else {'content_type': m.get('content_type'), 'freshness_period': m.get('freshness_period'),
                                           'final_block_id': bytes.fromhex(m['final_block_id']) if m.get('final_block_id') is not None else None}
        if w['meta'] != exp_meta:
            out.append(('meta', f'MetaInfo on the wire {w["meta"]} != input {exp_meta}'))
        if w['content'] != payload:
            out.append(('content', f'Content on the wire (len {None if w["content"] is None else len(w["content"])}) != input '
                                   f'(len {None if payload is None else len(payload)})'))
    else:
        nd = expected_need_digest(case, payload)
        got = w['name']
        n_dig = sum(1 for c in got if c[0] == P.T_PARAMS)
        if n_dig != (1 if nd else 0):
            out.append(('digest-presence', f'{n_dig} parameters-digest components on the wire, required={nd}'))
        exp = expected_interest_name(case, comps, w, nd)
        if exp is not None and [c[:2] if c[0] == P.T_PARAMS else c for c in got] != [c[:2] if c[0] == P.T_PARAMS else c for c in exp]:
            out.append(('name', 'Name on the wire differs from input components (+ digest component)'))
        p = case['param']
        exp_fh = [[bytes.fromhex(h) for h in n['comps']] for n in p['forwarding_hint']]
        for k, e in (('can_be_prefix', bool(p['can_be_prefix'])), ('must_be_fresh', bool(p['must_be_fresh'])), ('nonce', p['nonce']),
                     ('lifetime', p['lifetime']), ('hop_limit', p['hop_limit']), ('forwarding_hint', exp_fh)):
            if w[k] != e:
                out.append(('param', f'{k} on the wire {w[k]!r} != input {e!r}'))
        exp_app = payload if payload is not None else (b'' if case['signer'] is not None else None)
        if w['app_param'] != exp_app:
            out.append(('app-param', 'ApplicationParameters on the wire != input'))
    sp = case['signer']
    if sp is None:
        if w['siginfo'] is not None or w['sigvalue'] is not None:
            out.append(('signature-presence', 'unsigned packet carries signature elements'))
    else:
        if w['siginfo'] is None or w['sigvalue'] is None:
            out.append(('signature-presence', 'signed packet lacks SignatureInfo/SignatureValue'))
        else:
            if w['siginfo']['sig_type'] != P.expected_sig_type(sp):
                out.append(('signature-type', f'SignatureType {w["siginfo"]["sig_type"]} != {P.expected_sig_type(sp)}'))
            S = signer.get_signature_value_size()
            n = len(w['sigvalue'])
            if sp['kind'] == 'shrink':
                if n != sp['r']:
                    out.append(('signature-length', f'signer wrote {sp["r"]} of {S} reserved bytes but SignatureValue has length {n}'))
            elif P.family(sp['kind']) != 'ecdsa':
                if n != S:
                    out.append(('signature-length', f'SignatureValue length {n} != {S}'))
            elif not (8 <= n <= S):
                out.append(('signature-length', f'ECDSA SignatureValue length {n} not in 8..{S}'))
    return out


def expected_interest_name(case, comps, w, nd):
    """input components + the digest component when one is required (value taken from the strict reading: SHA-256 of
    ApplicationParameters..end).  None when the wire does not allow computing it."""
    if not nd:
        return comps
    if w['digest_range'] is None:
        return None
    a, b = w['digest_range']
    dig = P.enc_tlv(P.T_PARAMS, hashlib.sha256(w['wire'][a:b]).digest())
    exp = list(comps)
    idx = [i for i, c in enumerate(exp) if c[0] == P.T_PARAMS]
    if idx:
        exp[idx[0]] = dig
    else:
        exp.append(dig)
    return exp


def post_roundtrip(case, payload, wire, w, final_name):
    out = []
    comps = [bytes.fromhex(h) for h in case['name']['comps']]
    if case['kind'] == 'data':
        name, meta, content, _sig = parse_data(wire)
        if [bytes(c) for c in name] != comps:
            out.append(('name', f'parse_data name {[bytes(c).hex() for c in name][:6]} != input'))
        m = case['meta'] or {'content_type': 0}     # absent MetaInfo == default MetaInfo (ContentType BLOB)
        got = (meta.content_type, meta.freshness_period, None if meta.final_block_id is None else bytes(meta.final_block_id))
        exp = (m.get('content_type'), m.get('freshness_period'),
               bytes.fromhex(m['final_block_id']) if m.get('final_block_id') is not None else None)
        if got != exp:
            out.append(('meta', f'parse_data MetaInfo {got} != input {exp}'))
        if (content is None) != (payload is None) or (content is not None and bytes(content) != payload):
            out.append(('content', f'parse_data content (len {None if content is None else len(content)}) != input '
                                   f'(len {None if payload is None else len(payload)})'))
        return out
    name, param, app, _sig = parse_interest(wire)
    nd = expected_need_digest(case, payload)
    exp = expected_interest_name(case, comps, w, nd)
    got = [bytes(c) for c in name]
    if exp is not None and got != exp:
        out.append(('name', f'parse_interest name ({len(got)} comps) != input + digest component ({len(exp)} comps)'))
    if final_name is not None and exp is not None and final_name != exp:
        out.append(('FINAL', f'make_interest(need_final_name=True) returned {b"".join(final_name).hex()[:160]} but the name on the '
                             f'wire / parsed back is {b"".join(exp).hex()[:160]}'))
    p = case['param']
    exp_fh = [[bytes.fromhex(h) for h in n['comps']] for n in p['forwarding_hint']]
    got_fh = [[bytes(c) for c in n] for n in (param.forwarding_hint or [])]
    chk = (('can_be_prefix', bool(param.can_be_prefix), bool(p['can_be_prefix'])),
           ('must_be_fresh', bool(param.must_be_fresh), bool(p['must_be_fresh'])),
           ('nonce', param.nonce, p['nonce']), ('lifetime', param.lifetime, p['lifetime']),
           ('hop_limit', param.hop_limit, p['hop_limit']), ('forwarding_hint', got_fh, exp_fh))
    for k, g, e in chk:
        if g != e:
            out.append(('param', f'parse_interest {k} {g!r} != input {e!r}'))
    exp_app = payload if payload is not None else (b'' if case['signer'] is not None else None)
    if (app is None) != (exp_app is None) or (app is not None and bytes(app) != exp_app):
        out.append(('app-param', f'parse_interest ApplicationParameters (len {None if app is None else len(app)}) != input'))
    return out


def run_case(case):
    """-> (list of (key, what), built: bool)"""
    kind = case['kind']
    fn = 'make_data' if kind == 'data' else 'make_interest'
    pf = 'parse_data' if kind == 'data' else 'parse_interest'
    try:
        payload = resolve_payload(case)
    except P.Malformed as e:
        return [(f'C01:{fn}:not-wellformed', f'probe packet (empty payload) malformed: {e}')], False
    except Exception as e:
        return [(f'C01:{fn}:raises', f'probe packet (empty payload): {type(e).__name__}: {e}')], False
    if payload is False:
        return [], False
    shr = ''
    sp = case['signer']
    if sp is not None and (sp['kind'] == 'shrink' and sp['r'] < sp['S'] or P.family(sp['kind']) == 'ecdsa'):
        shr = ':short-signature'
    try:
        wire, final_name, signer = build(case, payload)
    except Exception as e:
        return [(f'C01:{fn}:raises{shr}', f'{fn} raised {type(e).__name__}: {e}')], False
    viol = []
    w, msg = post_wellformed(case, wire)
    if msg:
        return [(f'C01:{fn}:not-wellformed{shr}', msg + f' (wire starts {wire[:12].hex()}, {len(wire)} bytes)')], True
    for sub, what in post_wire_fields(case, payload, w, signer):
        viol.append((f'C01:{fn}:wire-{sub}', what))
    try:
        for sub, what in post_roundtrip(case, payload, wire, w, final_name):
            if sub == 'FINAL':      # the name returned next to the wire is not the name of the packet
                viol.append(('C01:make_interest:final-name-keeps-caller-digest', what))
            else:
                viol.append((f'C01:{pf}:roundtrip-{sub}', what))
    except Exception as e:
        viol.append((f'C01:{pf}:raises{shr}', f'{pf} raised {type(e).__name__}: {e} on a packet the library emitted'))
    return viol, True


# --------------------------------------------------------------------------------------------------------------
# case generators
# --------------------------------------------------------------------------------------------------------------

def gen_comp(rng, allow_params=True, big=0.08):
    t = rng.choice([8, 8, 8, 8, 1, 32, 50, 253, 65535] + ([2] if allow_params else []))
    if t in (1, 2):
        v = rng.randbytes(32)
    elif t == 50:
        v = P.enc_nni(rng.choice([0, 1, 255, 256, 65535, 65536, 2 ** 32, rng.getrandbits(40)]))
    elif rng.random() < big:
        v = rng.randbytes(rng.choice([252, 253, 254, 300]))
    elif rng.random() < 0.3:
        v = bytes(rng.choice(b'abcdefghijklmnopqrstuvwxyz0123456789') for _ in range(rng.randint(1, 8)))
    else:
        v = rng.randbytes(rng.choice([0, 1, 1, 2, 3, 5, 8, 13]))
    return P.enc_tlv(t, v)


def gen_name(rng, maxc=4, allow_params=True, n=None):
    n = rng.randint(0, maxc) if n is None else n
    comps = [gen_comp(rng, allow_params) for _ in range(n)]
    return {'comps': [c.hex() for c in comps], 'form': rng.choice(['formal', 'formal', 'bytes', 'mixed', 'str'])}


def gen_interest_name(rng, need_digest, maxc=4):
    nm = gen_name(rng, maxc, allow_params=False)
    if need_digest and rng.random() < 0.3:      # placeholder digest component anywhere in the name
        pos = rng.randint(0, len(nm['comps']))
        nm['comps'].insert(pos, P.enc_tlv(P.T_PARAMS, rng.randbytes(32)).hex())
    return nm


SIMPLE_NAME = {'comps': [P.enc_tlv(8, b'a').hex(), P.enc_tlv(8, b'bc').hex()], 'form': 'formal'}
CT_VALUES = [0, 1, 2, 3, 255, 256, 1000]
FP_VALUES = [0, 1, 255, 256, 4000, 65535, 65536, 2 ** 32 - 1, 2 ** 32, 2 ** 63]


def gen_meta(rng, mask):
    """mask bit0 content_type, bit1 freshness_period, bit2 final_block_id; mask None -> no MetaInfo at all"""
    if mask is None:
        return None
    return {'content_type': rng.choice(CT_VALUES) if mask & 1 else None,
            'freshness_period': rng.choice(FP_VALUES) if mask & 2 else None,
            'final_block_id': gen_comp(rng, allow_params=False, big=0).hex() if mask & 4 else None}


def gen_param(rng, mask):
    """bit0 can_be_prefix, bit1 must_be_fresh, bit2 nonce, bit3 lifetime, bit4 hop_limit, bit5 forwarding_hint"""
    fh = []
    if mask & 32:
        fh = [gen_name(rng, 3, allow_params=False, n=rng.randint(0, 3)) for _ in range(rng.randint(1, 3))]
    return {'can_be_prefix': bool(mask & 1), 'must_be_fresh': bool(mask & 2),
            'nonce': rng.choice([0, 1, 0xFFFFFFFF, rng.getrandbits(32)]) if mask & 4 else None,
            'lifetime': rng.choice([0, 1, 255, 256, 4000, 65536, 2 ** 32, 2 ** 40]) if mask & 8 else None,
            'hop_limit': rng.choice([0, 1, 64, 255]) if mask & 16 else None,
            'forwarding_hint': fh}


def signer_spec(kind, rng=None):
    if kind == 'none':
        return None
    sp = {'kind': kind}
    if rng is not None and kind not in ('digest', 'null') and rng.random() < 0.5:
        sp['kl'] = rng.choice(['/K', '/key/loc/KEY/%01', '/' + 'x' * 40, '/a/b/c/d/e/f/g'])
    return sp


def mk(kind, name, extra, payload, signer, rng, **kw):
    c = {'kind': kind, 'name': name, 'payload': payload, 'signer': signer, 'fill': rng.getrandbits(16)}
    c['meta' if kind == 'data' else 'param'] = extra
    if kind == 'interest':
        c['final_name'] = rng.random() < 0.5
    c.update(kw)
    return c


def gen_cases(tier, seed):
    rng = random.Random(seed * 7919 + 17)
    thorough = tier == 'thorough'
    cases = []

    def extra(kind, r=rng):
        return gen_meta(r, r.choice([None] + list(range(8)))) if kind == 'data' else gen_param(r, r.getrandbits(6))

    def nm(kind, payload, signer, r=rng, maxc=4):
        if kind == 'data':
            return gen_name(r, maxc)
        return gen_interest_name(r, payload is not None or signer is not None, maxc)

    # A. every presence combination of the optional fields x signers
    for mask in [None] + list(range(8)):
        for sk in SIGNER_KINDS:
            sp = signer_spec(sk, rng)
            pl = rng.choice([None, {'len': 0}, {'len': rng.randint(1, 40)}])
            cases.append(mk('data', nm('data', pl, sp), gen_meta(rng, mask), pl, sp, rng))
    for mask in range(64):
        for sk in (SIGNER_KINDS if thorough else rng.sample(SIGNER_KINDS, 3)):
            sp = signer_spec(sk, rng)
            pl = rng.choice([None, {'len': 0}, {'len': rng.randint(1, 40)}])
            cases.append(mk('interest', nm('interest', pl, sp), gen_param(rng, mask), pl, sp, rng))
    # B. payload sweep 0..300
    lens = list(range(301)) if thorough else sorted(set(list(range(0, 17)) + list(range(17, 301, 7)) + list(range(246, 262))))
    for ln in lens:
        for kind in ('data', 'interest'):
            for sk in (SIGNER_KINDS if thorough else rng.sample(SIGNER_KINDS, 3)):
                sp = signer_spec(sk, rng)
                pl = {'len': ln}
                cases.append(mk(kind, nm(kind, pl, sp), extra(kind), pl, sp, rng))
    # C. boundaries of the payload length and of the outer length (signer overhead accounted for by probing)
    ds = list(range(-12, 13)) if thorough else [-12, -4, -3, -2, -1, 0, 1, 2, 3, 4, 12]
    for sk in SIGNER_KINDS:
        for kind in ('data', 'interest'):
            for B in (253, 65536):
                for rep in range(3 if thorough else 1):
                    sp = signer_spec(sk, rng)
                    name = nm(kind, {'len': 0}, sp, maxc=2) if B == 253 else nm(kind, {'len': 0}, sp)
                    ex = extra(kind)
                    if B == 253:      # keep the fixed part small enough that the outer length can sit below 253
                        name = {'comps': name['comps'][:1] if len(''.join(name['comps'])) < 80 else [], 'form': name['form']}
                        ex = (gen_meta(rng, rng.choice([None, 1, 2])) if kind == 'data' else gen_param(rng, rng.choice([0, 1, 4, 16])))
                    for d in ds:
                        cases.append(mk(kind, name, ex, {'len': B + d}, sp, rng))
                        cases.append(mk(kind, name, ex, {'target': 'outer_pre', 'B': B, 'd': d}, sp, rng))
    # D. synthetic signer writing r of S reserved bytes; outer length straddling the boundaries before/after shrink
    Ss = [0, 1, 2, 3, 31, 32, 72, 73, 127, 200, 251, 252] if thorough else [0, 1, 2, 32, 72, 127, 252]
    for S in Ss:
        rs = list(range(S + 1)) if thorough else sorted({0, 1, S // 2, max(S - 1, 0), S} & set(range(S + 1)))
        for r in rs:
            for kind in ('data', 'interest'):
                sp = {'kind': 'shrink', 'S': S, 'r': r}
                if rng.random() < 0.5:
                    sp['kl'] = '/syn/key'
                name = SIMPLE_NAME if rng.random() < 0.5 else nm(kind, {'len': 0}, sp, maxc=2)
                if len(''.join(name['comps'])) > 80:
                    name = SIMPLE_NAME
                ex = gen_meta(rng, rng.choice([None, 1, 2])) if kind == 'data' else gen_param(rng, rng.choice([0, 1, 4, 16]))
                cases.append(mk(kind, name, ex, rng.choice([None, {'len': 0}, {'len': rng.randint(1, 30)}]), sp, rng))
                sh = S - r
                for B in (253, 65536):
                    dd = {0, -1, 1, sh - 1, sh, sh + 1, sh // 2} if thorough else {0, sh - 1, sh, sh // 2}
                    for d in sorted(x for x in dd if x >= -1):
                        cases.append(mk(kind, name, ex, {'target': 'outer_pre', 'B': B, 'd': d}, sp, rng))
                    if thorough:
                        for d in (-1, 0, 1):
                            cases.append(mk(kind, name, ex, {'target': 'outer_post', 'B': B, 'd': d}, sp, rng))
    # E. ECDSA: many signatures (variable DER length) at sizes where reserved/actual lengths straddle a boundary
    for sk, reps in (('p256', 50 if thorough else 8), ('p384', 20 if thorough else 3), ('p521', 20 if thorough else 3)):
        for kind in ('data', 'interest'):
            sp = {'kind': sk}
            ex = gen_meta(rng, 2) if kind == 'data' else gen_param(rng, 4)
            for B in (253, 65536):
                for d in range(0, 5):
                    base = mk(kind, SIMPLE_NAME, ex, {'target': 'outer_pre', 'B': B, 'd': d}, sp, rng)
                    for rep in range(reps):
                        cases.append(dict(base, rep=rep))
    # F. 70000-byte payload with every signer
    for sk in SIGNER_KINDS + ['shrink']:
        for kind in ('data', 'interest'):
            sp = signer_spec(sk, rng) if sk != 'shrink' else {'kind': 'shrink', 'S': 72, 'r': 69}
            pl = {'len': 70000}
            cases.append(mk(kind, nm(kind, pl, sp), extra(kind), pl, sp, rng))
    # H. boundaries of the NAME length: the components total T bytes with T around 253 and 65536, and around 253 - 34 and
    #    65536 - 34 (an Interest that needs a digest component gets 34 more bytes appended: the Name's own Length field changes
    #    width because of the appended component); with and without a placeholder already in the name; Data names of the same sizes
    def name_of_total(T, r):
        for lead in (b'a', b'', b'ab', b'abc', b'abcd'):
            first = [P.enc_tlv(8, lead)] if lead or T == 2 else []
            R = T - sum(len(c) for c in first)
            for hdr in (2, 4, 6):
                k = R - hdr
                if k >= 0 and len(P.enc_tlv(8, bytes(k))) == R:
                    return first + [P.enc_tlv(8, r.randbytes(k))]
        return None
    dsn = list(range(-6, 7)) if thorough else [-3, -2, -1, 0, 1, 2]
    for B in (253, 65536):
        for base in (B, B - 34):
            for d in dsn:
                comps = name_of_total(base + d, rng)
                if comps is None:
                    continue
                for form in ('formal', 'bytes'):
                    name = {'comps': [c.hex() for c in comps], 'form': form}
                    for sk in ('none', 'digest', 'hmac') if not thorough else SIGNER_KINDS:
                        sp = signer_spec(sk)
                        for pl in (None, {'len': 0}, {'len': 5}):
                            cases.append(mk('interest', name, gen_param(rng, rng.choice([0, 1, 4, 16])), pl, sp, rng))
                            if pl is not None or sp is not None:
                                ph = dict(name, comps=name['comps'][:1] + [P.enc_tlv(P.T_PARAMS, bytes(32)).hex()] + name['comps'][1:])
                                cases.append(mk('interest', ph, gen_param(rng, 0), pl, sp, rng))
                        cases.append(mk('data', name, gen_meta(rng, rng.choice([None, 2])), {'len': 3}, sp, rng))
    # I. signers that encode another packet while they are being asked (re-entrant use of the encoder)
    for mode in ('ok', 'rejected'):
        for kind in ('data', 'interest'):
            for sk in [k for k in SIGNER_KINDS if k != 'none'] + ['shrink']:
                for rep in range(6 if sk in ('p256', 'p384', 'p521', 'shrink') else 2):
                    sp = signer_spec(sk, rng) if sk != 'shrink' else {'kind': 'shrink', 'S': 72, 'r': rng.choice([0, 1, 40, 70, 71])}
                    pl = rng.choice([None, {'len': 0}, {'len': rng.randint(1, 60)}])
                    cases.append(mk(kind, nm(kind, pl, sp), extra(kind), pl, sp, rng, reentrant=mode, rep=rep))
    # G. random draws over the whole product (names of up to 4 / 6 components, all forms)
    for _ in range(30000 if thorough else 1500):
        kind = rng.choice(['data', 'interest'])
        sk = rng.choice(SIGNER_KINDS + ['shrink'])
        if sk == 'shrink':
            S = rng.choice([1, 5, 32, 72, 100, 252])
            sp = {'kind': 'shrink', 'S': S, 'r': rng.randint(0, S)}
        else:
            sp = signer_spec(sk, rng)
        pl = rng.choice([None, {'len': 0}, {'len': rng.randint(1, 300)}, {'len': rng.randint(1, 300)},
                         {'len': rng.choice([253, 65535, 65536]) + rng.randint(-12, 12)}])
        cases.append(mk(kind, nm(kind, pl, sp, maxc=6 if thorough else 4), extra(kind), pl, sp, rng))
    return cases


# --------------------------------------------------------------------------------------------------------------
# driver
# --------------------------------------------------------------------------------------------------------------

def run(tier: str, seed: int, shard: tuple) -> dict:
    k, n = shard
    col = P.Collector(MODULE)
    cases = gen_cases(tier, seed)
    for i, case in enumerate(cases):
        if i % n != k:
            continue
        viol, built = run_case(case)
        if built:
            col.evaluations += 1
            col.seen({kk: v for kk, v in case.items() if kk not in ('rep',)})
            if len(col.samples) < 4 and i % 97 == k:
                col.samples.append(case)
        for key, what in viol:
            col.add(key, what, {'case': case})
    return col.result(RULE, BOUND)


def replay(rec: dict):
    case = rec['input']['case']
    viol, _ = run_case(case)
    same = [w for kk, w in viol if kk == rec['key']]
    if same:
        return False, same[0]
    if viol:
        return False, f'other clause failed: {viol[0][0]}: {viol[0][1]}'
    return True, 'all C01 contracts hold for this case'
