"""C09 bounded stand-in: name representations (URI text, component list, wire) are mutually consistent.

The reference side is `_codec` (own var-number / TLV codec) plus the small reference model below: a name is a list of
(type, value-bytes) pairs.  Every contract is a post-condition on a call of the real ndn.encoding.Name / Component
functions.

Contracts
  post_component     Component.from_bytes / get_type / get_value / to_number / to_str / to_canonical_uri / from_str
  post_wire          Name.encode / to_bytes / encoded_length == reference wire; Name.decode / from_bytes == components
  post_uri           canonical URI round trip for every name, to_str round trip for names whose typed numbers are
                     canonically encoded, URI -> list -> wire -> list -> URI chain, idempotence of the printers
  post_forms         every accepted input form of the same name (str with/without leading slash, trailing slash,
                     explicit "8=", lower-case / full percent escapes, list of bytes / bytearray / memoryview / str, tuple,
                     generator, wire as bytes / bytearray / memoryview) normalises to the same components
  post_prefix        Name.is_prefix(a, b) == (len(a) <= len(b) and a == b[:len(a)]) in several forms
  post_order         byte-wise comparison of library-produced encoded components / of names (lists of encoded
                     components, and the concatenated name value) == NDN canonical order (type, then length, then
                     value; component-wise, a proper prefix first)
  post_numbers       from_number + the five typed wrappers, shorthand URIs seg= off= v= t= seq=
  post_escape        Component.from_str(Component.escape_str(s)) has value s.encode() for text without '%' and '='
"""
import itertools
import random

from ._codec import enc_var, nni, tlv, Collector, shard_of

MODULE = 'bounded.c09'
ALPHABET = (0x00, 0x2F, 0x25, 0x3D, 0x41, 0x2E, 0x7E, 0xFF)       # 00 / % = A . ~ ff
TYPES = (1, 2, 8, 32, 50, 54, 253, 65535)
NUM_TYPES = {50: 'seg', 52: 'off', 54: 'v', 56: 't', 58: 'seq'}
UNRESERVED = set(b'abcdefghijklmnopqrstuvwxyzABCDEFGHIJKLMNOPQRSTUVWXYZ0123456789-._~')

_LIB = {}


def lib():
    if not _LIB:
        from ndn.encoding import Name, Component
        _LIB.update(Name=Name, Component=Component)
    return _LIB


# --------------------------------------------------------------------------------------------------------------------
# reference model
# --------------------------------------------------------------------------------------------------------------------
def ref_comp(t, v):
    return enc_var(t) + enc_var(len(v)) + bytes(v)


def ref_wire(name):
    return tlv(7, b''.join(ref_comp(t, v) for t, v in name))


def ref_escape(v, lower=False, full=False):
    out = []
    for b in v:
        if b in UNRESERVED and not full:
            out.append(chr(b))
        else:
            out.append(('%%%02x' if lower else '%%%02X') % b)
    return ''.join(out)


def ref_canonical_comp_uri(t, v, **kw):
    return ('' if t == 8 else f'{t}=') + ref_escape(v, **kw)


def ref_canonical_uri(name):
    s = '/' + '/'.join(ref_canonical_comp_uri(t, v) for t, v in name)
    if name and name[-1] == (8, b''):
        s += '/'
    return s


def is_canonical_number(v):
    return len(v) in (1, 2, 4, 8) and nni(int.from_bytes(v, 'big')) == v


def ref_alt_comp_uri(t, v):
    """URI with naming-convention shorthands (what to_str is documented to print)"""
    if t == 1:
        return 'sha256digest=' + v.hex()
    if t == 2:
        return 'params-sha256=' + v.hex()
    if t in NUM_TYPES:
        return f'{NUM_TYPES[t]}={int.from_bytes(v, "big")}'
    return ref_canonical_comp_uri(t, v)


def to_str_roundtrips(name):
    return all(t not in NUM_TYPES or is_canonical_number(v) for t, v in name)


def canon_key(name):
    return tuple((t, len(v), v) for t, v in name)


# --------------------------------------------------------------------------------------------------------------------
# contracts; each returns a list of (key, what)
# --------------------------------------------------------------------------------------------------------------------
def _reachable_ids(a):
    ids = set()
    for x in a:
        ids.add(id(x))
        if isinstance(x, (list, tuple)):
            ids.update(id(y) for y in x)
            ids.update(id(y.obj) for y in x if isinstance(y, memoryview))
        if isinstance(x, memoryview):
            ids.add(id(x.obj))
    return ids


def _scribble(r, keep):
    """overwrite what a call returned (as a caller may): a new list gets a junk element, byte strings that the call created
    (not the caller's own argument objects, whose ids are in `keep`) get their last byte flipped"""
    if isinstance(r, tuple):
        for y in r:
            _scribble(y, keep)
        return
    if isinstance(r, list) and id(r) not in keep:
        for y in r:
            if isinstance(y, bytearray) and id(y) not in keep and len(y):
                y[-1] ^= 0xFF
            elif isinstance(y, memoryview) and not y.readonly and id(y.obj) not in keep and len(y):
                y[-1] ^= 0xFF
        r.append(b'\x08\x04junk')
    elif isinstance(r, bytearray) and id(r) not in keep and len(r):
        r[-1] ^= 0xFF


def _call(fn, *a):
    """run a library function; an exception is an outcome that the contract judges.  The function is called TWICE with the same
    arguments; what the first call returned is scribbled over in between and the result of the second call is the one that
    is judged - a result cached and handed out again (shared mutable state between calls) shows as a wrong second answer."""
    try:
        first = fn(*a)
    except Exception as e:
        return ('exc', f'{type(e).__name__}: {e}'[:100])
    try:
        _scribble(first, _reachable_ids(a))
    except Exception:   # noqa - read-only results cannot be scribbled
        pass
    try:
        return ('ok', fn(*a))
    except Exception as e:
        return ('exc', f'second call with the same arguments: {type(e).__name__}: {e}'[:100])


_RECV = bytearray(9000)          # one fixed receive buffer (never resized: views into it may be alive)


def _bl(x):
    return [bytes(c) for c in x]


def post_component(t, v):
    Cm = lib()['Component']
    bad = []
    ref = ref_comp(t, v)
    r = _call(Cm.from_bytes, v, t)
    if r != ('ok', bytearray(ref)):
        bad.append(('C09:component-from_bytes', f'from_bytes({v!r},{t}) -> {r}, expected {ref.hex()}'))
    for name, fn, exp in (('get_type', Cm.get_type, t), ('get_value', lambda c: bytes(Cm.get_value(c)), v),
                          ('to_number', Cm.to_number, int.from_bytes(v, 'big')),
                          ('to_canonical_uri', Cm.to_canonical_uri, ref_canonical_comp_uri(t, v)),
                          ('to_str', Cm.to_str, ref_alt_comp_uri(t, v))):
        r = _call(fn, ref)
        if r != ('ok', exp):
            bad.append((f'C09:component-{name}', f'{name}({ref.hex()}) -> {r}, expected {exp!r}'))
    # text -> component, all accepted spellings
    forms = {'canonical': ref_canonical_comp_uri(t, v), 'lower': ref_canonical_comp_uri(t, v, lower=True),
             'full': ref_canonical_comp_uri(t, v, full=True), 'explicit-type': f'{t}=' + ref_escape(v)}
    if t not in NUM_TYPES or is_canonical_number(v):
        forms['shorthand'] = ref_alt_comp_uri(t, v)
    for fname, s in forms.items():
        r = _call(Cm.from_str, s)
        if r != ('ok', bytearray(ref)):
            bad.append((f'C09:component-from_str:{fname}', f'from_str({s!r}) -> {r}, expected {ref.hex()}'))
    return bad


def post_name(name):
    """wire / URI / forms contracts for one reference name (list of (t, v))"""
    N, Cm = lib()['Name'], lib()['Component']
    bad = []
    comps = [ref_comp(t, v) for t, v in name]
    wire = ref_wire(name)
    add = lambda key, what: bad.append((key, what))

    def expect(key, r, exp, descr):
        if r[0] != 'ok':
            add(key, f'{descr} raised {r[1]}')
            return False
        got = r[1]
        if isinstance(exp, list):
            try:
                got = _bl(got)
            except TypeError:
                pass
        elif isinstance(exp, bytes):
            got = bytes(got)
        if got != exp:
            add(key, f'{descr} -> {got!r:.100}, expected {exp!r:.100}')
            return False
        return True

    # ---- list -> wire
    expect('C09:name-to_bytes', _call(N.to_bytes, comps), wire, 'to_bytes(list)')
    expect('C09:name-encode', _call(N.encode, comps), wire, 'encode(list)')
    expect('C09:name-encoded_length', _call(N.encoded_length, comps), len(wire), 'encoded_length(list)')
    buf = bytearray(b'\xAA' * (len(wire) + 5))
    r = _call(N.encode, comps, buf, 2)
    if r[0] != 'ok' or bytes(buf) != b'\xAA\xAA' + wire + b'\xAA\xAA\xAA':
        add('C09:name-encode-into-buffer', f'encode(list, buf, 2) -> {r[0]}, buffer {bytes(buf).hex()[:80]}')
    # ---- wire -> list
    expect('C09:name-from_bytes', _call(N.from_bytes, wire), comps, 'from_bytes(wire)')
    # the same through ONE receive buffer that serves every name of this process (overwritten in place, as an application does)
    prev = ref_wire(list(name) + [(8, b'previous packet')])
    if len(prev) + 3 <= len(_RECV):
        _RECV[3:3 + len(prev)] = prev
        _call(N.decode, _RECV, 3)             # the buffer held another name a moment ago, and it was decoded from there
        _RECV[3:3 + len(wire)] = wire
        r = _call(N.decode, _RECV, 3)
        if r[0] != 'ok' or _bl(r[1][0]) != comps or r[1][1] != len(wire):
            add('C09:name-decode-reused-buffer', f'decode(reused receive buffer, 3) -> {r!r:.120}, expected the components of THIS name')
        expect('C09:name-from_bytes-reused-buffer', _call(N.from_bytes, memoryview(_RECV)[3:3 + len(wire)]), comps,
               'from_bytes(view of the reused buffer)')
    r = _call(N.decode, wire + b'\x15\x00', 0)
    if r[0] != 'ok' or _bl(r[1][0]) != comps or r[1][1] != len(wire):
        add('C09:name-decode', f'decode(wire+trailer) -> {r!r:.120}, expected components and consumed={len(wire)}')
    r = _call(N.decode, b'\x00\x00\x00' + wire, 3)
    if r[0] != 'ok' or _bl(r[1][0]) != comps or r[1][1] != len(wire):
        add('C09:name-decode-offset', f'decode(pad+wire, 3) -> {r!r:.120}')
    # ---- list -> URI -> list (canonical form for every name)
    cu = ref_canonical_uri(name)
    expect('C09:name-to_canonical_uri', _call(N.to_canonical_uri, comps), cu, 'to_canonical_uri(list)')
    expect('C09:canonical-uri-roundtrip', _call(N.from_str, cu), comps, f'from_str({cu!r})')
    # URI -> list -> wire -> list -> URI
    r = _call(lambda: N.to_canonical_uri(N.from_bytes(N.to_bytes(N.from_str(cu)))))
    expect('C09:uri-list-wire-list-uri', r, cu, f'canonical chain from {cu!r}')
    # ---- to_str (shorthands) round trip
    r = _call(N.to_str, comps)
    if r[0] != 'ok':
        add('C09:name-to_str', f'to_str raised {r[1]}')
    else:
        s = r[1]
        exp_s = '/' + '/'.join(ref_alt_comp_uri(t, v) for t, v in name) + ('/' if name and name[-1] == (8, b'') else '')
        if s != exp_s:
            add('C09:name-to_str', f'to_str -> {s!r:.100}, expected {exp_s!r:.100}')
        if to_str_roundtrips(name):
            if expect('C09:to_str-roundtrip', _call(N.from_str, s), comps, f'from_str(to_str) {s!r}'):
                expect('C09:to_str-idempotent', _call(lambda: N.to_str(N.from_str(s))), s, 'to_str(from_str(s))')
                r2 = _call(lambda: N.to_str(N.from_bytes(N.to_bytes(N.from_str(s)))))
                expect('C09:uri-list-wire-list-uri', r2, s, f'shorthand chain from {s!r}')
    # ---- accepted input forms
    forms = {'list-bytes': list(comps), 'list-bytearray': [bytearray(c) for c in comps],
             'list-memoryview': [memoryview(c) for c in comps], 'tuple': tuple(comps),
             'wire-bytes': wire, 'wire-bytearray': bytearray(wire), 'wire-memoryview': memoryview(wire),
             'str-canonical': cu,
             'list-str': [ref_canonical_comp_uri(t, v) for t, v in name],
             'list-mixed': [ref_canonical_comp_uri(t, v) if i % 2 else ref_comp(t, v) for i, (t, v) in enumerate(name)],
             'str-lower-escapes': '/' + '/'.join(ref_canonical_comp_uri(t, v, lower=True) for t, v in name)
                                  + ('/' if name and name[-1] == (8, b'') else ''),
             'str-explicit-types': '/' + '/'.join(f'{t}=' + ref_escape(v) for t, v in name)}
    if name and ref_canonical_comp_uri(*name[0]) != '':
        forms['str-no-leading-slash'] = cu[1:]
    if name and ref_canonical_comp_uri(*name[-1]) != '':
        forms['str-trailing-slash'] = cu + '/'
    for fname, form in forms.items():
        expect(f'C09:normalize:{fname}', _call(N.normalize, form), comps, f'normalize({fname})')
        if fname in ('str-canonical', 'list-str', 'wire-memoryview', 'tuple', 'list-mixed', 'wire-bytearray'):
            expect(f'C09:to_bytes:{fname}', _call(N.to_bytes, form), wire, f'to_bytes({fname})')
    expect('C09:normalize:generator', _call(lambda: N.normalize(c for c in comps)), comps, 'normalize(generator)')
    expect('C09:to_canonical_uri:wire', _call(N.to_canonical_uri, wire), cu, 'to_canonical_uri(wire)')
    expect('C09:to_canonical_uri:str', _call(N.to_canonical_uri, cu), cu, 'to_canonical_uri(str)')
    return bad


def post_prefix(a, b):
    N = lib()['Name']
    bad = []
    exp = len(a) <= len(b) and a == b[:len(a)]
    ca, cb = [ref_comp(*c) for c in a], [ref_comp(*c) for c in b]
    for fname, fa, fb in (('list/list', ca, cb), ('wire/list', ref_wire(a), cb), ('str/wire', ref_canonical_uri(a), ref_wire(b)),
                          ('memoryview/str', [memoryview(c) for c in ca], ref_canonical_uri(b)),
                          # every accepted list form: URI-text components and mixed lists on either side
                          ('list-str/list', [ref_canonical_comp_uri(t, v) for t, v in a], cb),
                          ('list/list-mixed', ca, [ref_canonical_comp_uri(t, v) if i % 2 else ref_comp(t, v)
                                                   for i, (t, v) in enumerate(b)]),
                          ('tuple-str/str', tuple(ref_canonical_comp_uri(t, v) for t, v in a), ref_canonical_uri(b)),
                          # both names in wire form (bytes / bytearray / memoryview)
                          ('wire/wire', ref_wire(a), ref_wire(b)),
                          ('bytearray/memoryview', bytearray(ref_wire(a)), memoryview(ref_wire(b)))):
        r = _call(N.is_prefix, fa, fb)
        if r != ('ok', exp):
            bad.append(('C09:is_prefix', f'is_prefix[{fname}]({ref_canonical_uri(a)}, {ref_canonical_uri(b)}) -> {r}, '
                                         f'component-wise equality says {exp}'))
    return bad


def post_order_components(items):
    """items: list of (t, v). library-produced encodings sorted as bytes == canonical order"""
    Cm = lib()['Component']
    enc = [(bytes(Cm.from_bytes(v, t)), (t, len(v), v)) for t, v in items]
    by_bytes = sorted(enc, key=lambda e: e[0])
    by_canon = sorted(enc, key=lambda e: e[1])
    for x, y in zip(by_bytes, by_canon):
        if x[1] != y[1]:
            return [('C09:order-components', f'byte order puts {x[0].hex()[:40]} where canonical order has {y[0].hex()[:40]}')]
    # library objects themselves (bytearray) must be comparable the same way
    lst = [Cm.from_bytes(v, t) for t, v in items[:2000]]
    if [bytes(c) for c in sorted(lst)] != sorted(bytes(c) for c in lst):
        return [('C09:order-components', 'sorting the bytearray objects differs from sorting their bytes')]
    return []


def post_order_names(names):
    N, Cm = lib()['Name'], lib()['Component']
    prod = []
    for nm in names:
        try:
            fn = N.from_str(ref_canonical_uri(nm))           # library-produced FormalName (list of bytearray)
        except Exception as e:
            return [('C09:canonical-uri-not-parsed', f'Name.from_str({ref_canonical_uri(nm)!r}) raised {type(e).__name__}: {e}')]
        prod.append((fn, b''.join(bytes(c) for c in fn), canon_key(nm)))
    a = sorted(prod, key=lambda e: e[0])                     # list-of-components comparison
    b = sorted(prod, key=lambda e: e[1])                     # concatenated name value, byte-wise
    c = sorted(prod, key=lambda e: e[2])                     # NDN canonical order
    for x, y, z in zip(a, b, c):
        if x[2] != z[2]:
            return [('C09:order-names-component-lists', f'list order has {x[1].hex()[:40]}, canonical order {z[1].hex()[:40]}')]
        if y[2] != z[2]:
            return [('C09:order-names-value-bytes', f'byte order has {y[1].hex()[:40]}, canonical order {z[1].hex()[:40]}')]
    return []


BOUNDARY_NUMBERS = (0, 1, 0xFC, 0xFD, 0xFE, 0xFF, 0x100, 0x101, 0xFFFF, 0x10000, 0x10001, 0xFFFFFFFE, 0xFFFFFFFF,
                    0x100000000, 0x100000001, (1 << 63), (1 << 64) - 2, (1 << 64) - 1)


def post_numbers(t, n):
    Cm, N = lib()['Component'], lib()['Name']
    bad = []
    ref = ref_comp(t, nni(n))
    wrappers = {50: Cm.from_segment, 52: Cm.from_byte_offset, 54: Cm.from_version, 56: Cm.from_timestamp,
                58: Cm.from_sequence_num}
    for fname, r in (('from_number', _call(Cm.from_number, n, t)), ('typed-wrapper', _call(wrappers[t], n))):
        if r != ('ok', bytearray(ref)):
            bad.append((f'C09:number-{fname}', f'{fname}({n}, type {t}) -> {r}, expected {ref.hex()}'))
    s = f'{NUM_TYPES[t]}={n}'
    for fname, r, exp in (('to_str', _call(Cm.to_str, ref), s), ('from_str', _call(Cm.from_str, s), bytearray(ref)),
                          ('to_number', _call(Cm.to_number, ref), n),
                          ('name-roundtrip', _call(lambda: N.to_str(N.from_str(f'/a/{s}/{s}'))), f'/a/{s}/{s}'),
                          ('name-from_str', _call(lambda: _bl(N.from_str(f'/{s}/b'))), [ref, ref_comp(8, b'b')])):
        if r != ('ok', exp):
            bad.append((f'C09:number-{fname}', f'{fname} for {s} -> {r!r:.100}, expected {exp!r:.80}'))
    return bad


def post_escape(s):
    Cm, N = lib()['Component'], lib()['Name']
    bad = []
    exp = ref_comp(8, s.encode('utf-8'))
    r = _call(lambda: bytes(Cm.from_str(Cm.escape_str(s))))
    if r != ('ok', exp):
        bad.append(('C09:escape_str', f'from_str(escape_str({s!r})) -> {r!r:.100}, expected {exp.hex()[:60]}'))
    if '/' not in s:
        for fname, form in (('str', '/x/' + s), ('list-str', ['x', s])):
            if fname == 'str' and s == '':
                continue
            r = _call(lambda: _bl(N.normalize(form)))
            if r != ('ok', [ref_comp(8, b'x'), exp]):
                bad.append((f'C09:normalize-text:{fname}', f'normalize({form!r}) -> {r!r:.100}'))
    return bad


def post_type_range(t):
    Cm = lib()['Component']
    r = _call(Cm.from_bytes, b'v', t)
    legal = 1 <= t <= 65535
    if legal != (r[0] == 'ok') or (not legal and not r[1].startswith('ValueError')):
        return [('C09:component-type-range', f'from_bytes(b"v", {t}) -> {r}; types 1..65535 are legal, others ValueError')]
    s = _call(Cm.from_str, f'{t}=v')
    if legal != (s[0] == 'ok') or (not legal and not s[1].startswith('ValueError')):
        return [('C09:component-type-range', f'from_str("{t}=v") -> {s}')]
    return []


# --------------------------------------------------------------------------------------------------------------------
# domains
# --------------------------------------------------------------------------------------------------------------------
def all_values(maxlen=3):
    for n in range(maxlen + 1):
        for tup in itertools.product(ALPHABET, repeat=n):
            yield bytes(tup)


def all_components():
    """the full 8 types x 585 values = 4680 components"""
    vals = list(all_values())
    return [(t, v) for t in TYPES for v in vals]


def thin_pool(size):
    """deterministic sub-pool of the 4680 components: every type, lengths 0 and 1 complete, then strided"""
    comps = all_components()
    small = [(t, v) for t, v in comps if len(v) <= 1]                  # 8 * 9 = 72
    rest = [c for c in comps if len(c[1]) > 1]
    step = max(1, len(rest) // max(1, size - len(small)))
    return (small + rest[::step])[:size] if size >= len(small) else small[::max(1, len(small) // size)][:size]


def random_name(rng, maxc=8):
    name = []
    for _ in range(rng.randrange(0, maxc + 1)):
        r = rng.random()
        if r < 0.35:
            t = 8
        elif r < 0.7:
            t = rng.choice((1, 2, 32, 50, 52, 54, 56, 58, 252, 253, 254, 65535, 7, 9, 0xFC, 0xFD, 0x100))
        else:
            t = rng.randrange(1, 65536)
        if t in NUM_TYPES and rng.random() < 0.7:
            v = nni(rng.choice(BOUNDARY_NUMBERS) if rng.random() < 0.5 else rng.randrange(1 << rng.choice((8, 16, 32, 64))))
        else:
            r2 = rng.random()
            ln = rng.choice((252, 253, 300)) if r2 < 0.01 else rng.randrange(0, 41) if r2 < 0.15 else \
                rng.choice((0, 0, 1, 1, 2, 3, 5, 8, 16, 32))
            v = bytes(rng.choice(ALPHABET) if rng.random() < 0.3 else rng.randrange(256) for _ in range(ln))
        name.append((t, v))
    return name


TEXTS = ['', 'a', 'A b', 'Kraus Bölter', 'Σπυρίδων', 'Алек', '名前', 'tab\there', 'new\nline', 'sl/ash', '~.-_', 'q?x#y',
         '\x00', '\x7f', 'ÿ', '\U0001F600', 'a:b@c', '[]{}', '"\'', '+&,;', '..', '...', '.']


def order_tasks(tier, seed):
    comps = all_components()
    p3 = thin_pool(20 if tier == 'quick' else 56)
    long_vals = [bytes([b]) * ln for ln in (252, 253, 254, 65535, 65536) for b in (0, 0xFF)]
    return {
        'components-exhaustive': lambda: post_order_components(
            comps + [(t, v) for t in (1, 8, 252, 253, 65535) for v in long_vals]),
        'names-pairs': lambda: post_order_names(
            [list(x) for r in range(0, 3) for x in itertools.product(thin_pool(120), repeat=r)]),
        'names-triples': lambda: post_order_names([list(x) for r in range(0, 4) for x in itertools.product(p3, repeat=r)]),
        'components-random': lambda: post_order_components(
            [c for j in range(3000) for c in random_name(random.Random(seed + 7 + j), 3)]),
        'names-random': lambda: post_order_names([random_name(random.Random(seed * 31 + j), 8) for j in range(6000)])}


RULE = ('cases = reference names (lists of (type, value)) / components / name pairs / numbers / texts; every case runs the '
        'real Name.* / Component.* functions and compares with the reference codec; non-trivial = at least one component '
        '(or a number / text case); distinct by 64-bit hash of the reference name')


def run(tier='quick', seed=0, shard=(0, 1)):
    k, n = shard
    col = Collector(MODULE)
    rng = random.Random(seed * 1000 + k)
    cap = max(1, 5 // n)
    per_key = {}

    def report(found, inp):
        for key, what in found:
            c = per_key.get(key, 0)
            per_key[key] = c + 1
            if c < cap:
                col.violate(key, what, inp)

    def name_inp(nm):
        return {'kind': 'name', 'name': [[t, v.hex()] for t, v in nm]}

    idx = 0
    # 1. exhaustive: all 4680 single components (component contracts + one-component names)
    comps = all_components()
    for t, v in comps:
        if shard_of(idx, shard):
            report(post_component(t, v), {'kind': 'component', 'type': t, 'value': v.hex()})
            report(post_name([(t, v)]), name_inp([(t, v)]))
            col.case(True, 'c1', t, v)
        idx += 1
    # 2. names of 0, 2 and 3 components over thinned pools (complete products of the pools)
    p2 = thin_pool(128 if tier == 'quick' else 400)
    p3 = thin_pool(20 if tier == 'quick' else 56)
    if shard_of(idx, shard):
        report(post_name([]), name_inp([]))
        col.case(False, 'empty')
    idx += 1
    for pool, r in ((p2, 2), (p3, 3)):
        for nm in itertools.product(pool, repeat=r):
            if shard_of(idx, shard):
                nm = list(nm)
                report(post_name(nm), name_inp(nm))
                col.case(True, 'n', *[x for t, v in nm for x in (t, v)])
            idx += 1
    # 3. deterministic stride through the full 4680^2 / 4680^3 products
    n_stride = 10000 if tier == 'quick' else 400000
    M = len(comps)
    for r, total in ((2, M ** 2), (3, M ** 3)):
        step = total // n_stride
        step += 1 - (step % 2)                                         # odd stride
        for j in range(n_stride):
            if shard_of(idx, shard):
                q = (j * step + 12345) % total
                nm = []
                for _ in range(r):
                    nm.append(comps[q % M])
                    q //= M
                report(post_name(nm), name_inp(nm))
                col.case(True, 'n', *[x for t, v in nm for x in (t, v)])
            idx += 1
    # 4. typed numbers at every width boundary
    for t in NUM_TYPES:
        for num in BOUNDARY_NUMBERS:
            if shard_of(idx, shard):
                report(post_numbers(t, num), {'kind': 'number', 'type': t, 'number': num})
                col.case(True, 'num', t, num)
            idx += 1
    # 5. prefix test: all ordered pairs of a small exhaustive family + random pairs
    fam = [list(x) for r in range(0, 3) for x in itertools.product(thin_pool(9)[:9], repeat=r)]   # 1 + 9 + 81 names
    for a in fam:
        for b in fam:
            if shard_of(idx, shard):
                report(post_prefix(a, b), {'kind': 'prefix', 'a': name_inp(a)['name'], 'b': name_inp(b)['name']})
                col.case(bool(a or b), 'pfx', repr(a), repr(b))
            idx += 1
    # 5b. prefix pairs whose encoded sizes lie on different sides of a Length boundary (252 | 253, 65535 | 65536)
    big = []
    for extra in (0, 1, 240, 246, 247, 248, 249, 250, 251, 252, 253, 254, 300):
        big.append([(8, b'a')] + ([(8, b'x' * extra)] if extra else []))
        big.append([(8, b'a'), (8, b'b')] + ([(8, b'y' * extra)] if extra else []))
    big += [[(8, b'a'), (8, b'z' * 65529)], [(8, b'a'), (8, b'z' * 65530)], [(8, b'a'), (8, b'z' * 65540)], [(8, b'a')], []]
    for a in big:
        for b in big:
            if len(a) <= 3 and shard_of(idx, shard):
                report(post_prefix(a, b), {'kind': 'prefix', 'a': name_inp(a)['name'], 'b': name_inp(b)['name']})
                col.case(True, 'pfx-big', len(ref_wire(a)), len(ref_wire(b)))
            idx += 1
    # 6. random names <= 8 components (+ prefix pairs derived from them)
    n_rand = 16000 if tier == 'quick' else 600000
    for j in range(k, n_rand, n):
        nm = random_name(rng)
        report(post_name(nm), name_inp(nm))
        col.case(bool(nm), 'n', *[x for t, v in nm for x in (t, v)])
        if j % 3 == 0:
            cut = rng.randrange(0, len(nm) + 1)
            other = nm[:cut] + (random_name(rng, 2) if rng.random() < 0.5 else [])
            if other and rng.random() < 0.3:
                i = rng.randrange(len(other))
                t, v = other[i]
                other[i] = (t, v + b'\x00') if rng.random() < 0.5 else (t % 65535 + 1, v)
            for a, b in ((other, nm), (nm, other)):
                report(post_prefix(a, b), {'kind': 'prefix', 'a': name_inp(a)['name'], 'b': name_inp(b)['name']})
                col.case(True, 'pfx', repr(a), repr(b))
    # 7. escape_str on texts, type-range of from_bytes
    for s in TEXTS + [''.join(chr(rng.choice((rng.randrange(32, 127), rng.randrange(0x80, 0x800), rng.randrange(0x4E00, 0x4F00))))
                              for _ in range(rng.randrange(1, 8))).replace('%', 'p').replace('=', 'e')
                      for _ in range(200)]:
        if '%' in s or '=' in s:
            continue
        if shard_of(idx, shard):
            report(post_escape(s), {'kind': 'text', 'text': s})
            col.case(True, 'txt', s)
        idx += 1
    for t in (-1, 0, 1, 65535, 65536, 1 << 32):
        if shard_of(idx, shard):
            report(post_type_range(t), {'kind': 'type-range', 'type': t})
            col.case(True, 'tr', t)
        idx += 1
    # 8. order tasks (each is one whole-set sort; tasks are spread over the shards)
    for name_, task in sorted(order_tasks(tier, seed).items()):
        if shard_of(idx, shard):
            report(task(), {'kind': 'order', 'task': name_, 'seed': seed, 'tier': tier})
            col.case(True, 'order', name_)
        idx += 1
    col.sample({'name': ref_canonical_uri([(8, b'A'), (50, b'\x00'), (65535, b'\xff/')]),
                'wire_hex': ref_wire([(8, b'A'), (50, b'\x00'), (65535, b'\xff/')]).hex()})
    bound = (f'components: all 8 types x 585 values (alphabet of 8 bytes, length 0..3) = 4680, exhaustive; names of 2 / 3 '
             f'components: complete products of deterministic sub-pools of {len(p2)} / {len(p3)} components (THINNED: the full '
             f'4680^2 / 4680^3 products are only strided, {n_stride} names each); 5 typed shorthands x {len(BOUNDARY_NUMBERS)} '
             f'boundary numbers; is_prefix on all {len(fam)}^2 pairs of a 91-name family; {n_rand} random names <= 8 components '
             f'(types 1..65535, values <= 300 bytes); whole-set order checks (4700 components incl. 252/253/65535/65536-byte '
             f'values, ~14k + ~14k + 6000 names)')
    return col.result(RULE, bound, exhaustive=False)


def replay(rec):
    inp = rec['input']
    kind = inp['kind']
    nm = lambda l: [(t, bytes.fromhex(v)) for t, v in l]
    if kind == 'component':
        found = post_component(inp['type'], bytes.fromhex(inp['value']))
    elif kind == 'name':
        found = post_name(nm(inp['name']))
    elif kind == 'number':
        found = post_numbers(inp['type'], inp['number'])
    elif kind == 'prefix':
        found = post_prefix(nm(inp['a']), nm(inp['b']))
    elif kind == 'text':
        found = post_escape(inp['text'])
    elif kind == 'type-range':
        found = post_type_range(inp['type'])
    else:
        found = order_tasks(inp.get('tier', 'quick'), inp.get('seed', 0))[inp['task']]()
    mine = [w for kk, w in found if kk == rec['key']]
    return (False, mine[0]) if mine else (True, 'contract holds for this input')
