"""C13 - ill-formed schemas and models are rejected; accepted models always terminate (bounded stand-in).

Contracts (from the statement and docs/src/lvs/binary-format.rst "Sanity Check"):
  post_static_error   compile_lvs(text) + Checker(model, fns) raises the documented schema error (SemanticError; the
                      model error LvsModelError is accepted as the same family) for a schema with ONE injected static
                      error: undefined rule (in a name pattern / as signer), temporary rule referenced (name / signer),
                      cyclic rule references, cyclic signing relation, constraint on / option or argument mentioning a
                      pattern that occurs nowhere, temporary pattern used as a constraint value.
  post_wellformed     an error-free schema in which no name pattern is (transitively) its own signer compiles, is
                      accepted by Checker(...) and by Checker.load(checker.save()).
  post_corrupt        a compiled model with ONE corrupted field: if it breaks a documented sanity rule (judged by
                      `broken_rules`, an independent re-statement of the six documented rules) Checker(model) and
                      Checker.load(bytes) raise LvsModelError; otherwise they raise LvsModelError/SemanticError or
                      accept, and on an accepted model step-bounded match/check terminate (no RecursionError, no
                      step-budget overrun).
"""
from __future__ import annotations

import copy
import random

from . import _lvs as L

MODULE = 'bounded.c13'
RULE = ('(a) generated error-free schemas with ONE static error injected at EVERY position (every definition x every '
        'component slot / signer slot / constraint-set / term / option / argument slot, 8 error kinds); (b) generated '
        'error-free schemas without own-signer cycles; (c) compiled models with EVERY single-field corruption of version, '
        'start id, node ids, parent links, edge destinations/values/tags, signer entries, constraint options; a case = '
        'one injected schema / one schema / one corrupted model; all are non-trivial; distinct = hash(text) resp. '
        'hash(model bytes or description)')
BOUND = ('quick 64 base schemas for injection + 400 positive schemas + 40 models for corruption; thorough x12; '
         'step budget 100000 lines per query on accepted corrupted models')

N = {'quick': (64, 400, 40), 'thorough': (800, 6000, 480)}
VERSION = 0x00011000        # docs/src/lvs/binary-format.rst: "This page describes version 0x00011000"


def lvs():
    L.cache_lark()
    import ndn.app_support.light_versec as m
    from ndn.app_support.light_versec import binary as bny
    return m, bny


def error_family():
    m, _ = lvs()
    return (m.SemanticError, m.LvsModelError)


# ------------------------------------------------------------------------------------------------- (a) injection

def defs_referencing(schema):
    """rule id -> set of rule ids it references transitively (by name pattern)"""
    direct = {}
    for r in schema['rules']:
        direct.setdefault(r['id'], set()).update(it[1] for it in r['items'] if it[0] == 'ref')
    clo = {k: set(v) for k, v in direct.items()}
    changed = True
    while changed:
        changed = False
        for k in clo:
            for v in list(clo[k]):
                new = clo.get(v, set()) - clo[k]
                if new:
                    clo[k] |= new
                    changed = True
    return clo


def signers_closure(schema):
    direct = {}
    for r in schema['rules']:
        direct.setdefault(r['id'], set()).update(r['signers'])
    clo = {k: set(v) for k, v in direct.items()}
    changed = True
    while changed:
        changed = False
        for k in clo:
            for v in list(clo[k]):
                new = clo.get(v, set()) - clo[k]
                if new:
                    clo[k] |= new
                    changed = True
    return clo


def injections(schema):
    """yield (kind, position description, mutated schema)"""
    rules = schema['rules']

    def clone():
        return copy.deepcopy(schema)
    has_temp_rule = any(L.is_temp(r['id']) for r in rules)
    temp_rule_id = next((r['id'] for r in rules if L.is_temp(r['id'])), '#_tmp')

    def with_temp_rule(s):
        if not has_temp_rule:
            s['rules'].append({'id': '#_tmp', 'items': [['lit', 'a']], 'cons': [], 'signers': []})
        return s
    refclo = defs_referencing(schema)
    sigclo = signers_closure(schema)
    ids = sorted({r['id'] for r in rules if not L.is_temp(r['id'])})
    for i, r in enumerate(rules):
        n = len(r['items'])
        # --- rule references inside the name pattern: insertion at every slot, replacement of every component
        slots = [('ins', p) for p in range(n + 1)] + [('rep', p) for p in range(n)]
        for how, p in slots:
            def put(s, ref):
                it = s['rules'][i]['items']
                if how == 'ins':
                    it.insert(p, ['ref', ref])
                else:
                    it[p] = ['ref', ref]
                s['rules'][i].pop('lead_slash', None) if p == 0 else None
                return s
            yield 'undefined-rule-in-name', 'def %d %s %d' % (i, how, p), put(clone(), '#undefined')
            yield 'temporary-rule-in-name', 'def %d %s %d' % (i, how, p), put(with_temp_rule(clone()), temp_rule_id)
            if not L.is_temp(r['id']):
                yield 'cyclic-reference', 'def %d %s %d self' % (i, how, p), put(clone(), r['id'])
                # close a cycle through every rule that already (transitively) references this one
                for x in ids:
                    if x != r['id'] and r['id'] in refclo.get(x, set()):
                        yield 'cyclic-reference', 'def %d %s %d via %s' % (i, how, p, x), put(clone(), x)
        # two-rule cycles created from scratch: this definition refers to y, (first definition of) y refers back
        if not L.is_temp(r['id']):
            for y in ids:
                if y == r['id'] or y in refclo.get(r['id'], set()) or r['id'] in refclo.get(y, set()):
                    continue
                j = next(k for k, q in enumerate(rules) if q['id'] == y)
                for p in (0, n):
                    s = clone()
                    s['rules'][i]['items'].insert(p, ['ref', y])
                    s['rules'][i].pop('lead_slash', None)
                    s['rules'][j]['items'].append(['ref', r['id']])
                    yield 'cyclic-reference', 'def %d <-> def %d at %d' % (i, j, p), s
        # --- signers
        for p in range(len(r['signers']) + 1):
            s = clone()
            s['rules'][i]['signers'].insert(p, '#undefined')
            yield 'undefined-signer', 'def %d signer slot %d' % (i, p), s
            s = with_temp_rule(clone())
            s['rules'][i]['signers'].insert(p, temp_rule_id)
            yield 'temporary-rule-as-signer', 'def %d signer slot %d' % (i, p), s
            if not L.is_temp(r['id']):
                s = clone()
                s['rules'][i]['signers'].insert(p, r['id'])
                yield 'cyclic-signing', 'def %d signer slot %d self' % (i, p), s
                for x in ids:
                    if x != r['id'] and r['id'] in sigclo.get(x, set()):
                        s = clone()
                        s['rules'][i]['signers'].insert(p, x)
                        yield 'cyclic-signing', 'def %d signer slot %d via %s' % (i, p, x), s
        if not L.is_temp(r['id']):
            for y in ids:
                if y == r['id'] or y in sigclo.get(r['id'], set()) or r['id'] in sigclo.get(y, set()):
                    continue
                j = next(k for k, q in enumerate(rules) if q['id'] == y)
                s = clone()
                s['rules'][i]['signers'].append(y)
                s['rules'][j]['signers'].append(r['id'])
                yield 'cyclic-signing', 'def %d <-> def %d' % (i, j), s
        # --- constraints
        own_pats = [it[1] for it in r['items'] if it[0] == 'pat']
        bad_values = [('option-pattern-nowhere', ['pat', 'nowhere']),
                      ('argument-pattern-nowhere', ['fn', '$eq', [['pat', 'nowhere']]]),
                      ('argument-pattern-nowhere', ['fn', '$eq', [['lit', 'a'], ['pat', 'nowhere']]]),
                      ('temporary-pattern-as-value', ['pat', '_']),
                      ('temporary-pattern-as-value', ['pat', own_pats[0] if own_pats and own_pats[0].startswith('_')
                                                      else '_t']),
                      ('temporary-pattern-as-argument', ['fn', '$eq', [['pat', '_t']]])]
        for ci in range(len(r['cons']) + 1):
            # a whole new constraint set at slot ci
            for tgt in ('nowhere', '_nowhere'):
                s = clone()
                s['rules'][i]['cons'].insert(ci, [[tgt, [['lit', 'a']]]])
                yield 'constraint-on-pattern-nowhere', 'def %d new set %d on %s' % (i, ci, tgt), s
            if own_pats:
                for kind, val in bad_values:
                    s = clone()
                    s['rules'][i]['cons'].insert(ci, [[own_pats[0], [copy.deepcopy(val)]]])
                    yield kind, 'def %d new set %d' % (i, ci), s
        for ci, cs in enumerate(r['cons']):
            for ti in range(len(cs) + 1):
                for tgt in ('nowhere', '_nowhere'):
                    s = clone()
                    s['rules'][i]['cons'][ci].insert(ti, [tgt, [['lit', 'a']]])
                    yield 'constraint-on-pattern-nowhere', 'def %d set %d term slot %d on %s' % (i, ci, ti, tgt), s
            for ti, term in enumerate(cs):
                for oi in range(len(term[1]) + 1):
                    for kind, val in bad_values:
                        s = clone()
                        s['rules'][i]['cons'][ci][ti][1].insert(oi, copy.deepcopy(val))
                        yield kind, 'def %d set %d term %d option slot %d' % (i, ci, ti, oi), s
                for oi, op in enumerate(term[1]):
                    if op[0] == 'fn':
                        for ai in range(len(op[2]) + 1):
                            for kind, val in (('argument-pattern-nowhere', ['pat', 'nowhere']),
                                              ('temporary-pattern-as-argument', ['pat', '_'])):
                                s = clone()
                                s['rules'][i]['cons'][ci][ti][1][oi][2].insert(ai, val)
                                yield kind, 'def %d set %d term %d option %d arg slot %d' % (i, ci, ti, oi, ai), s


def compile_and_build(text):
    m, _ = lvs()
    m.compile_lvs(text)                  # (never a first compilation only: the text is compiled twice, the second model is used)
    model = m.compile_lvs(text)
    ck = m.Checker(model, L.lib_fns())
    return ck


def post_static_error(kind, text):
    """-> None | (key, what)"""
    try:
        compile_and_build(text)
    except error_family():
        return None
    except RecursionError as e:
        return ('C13:static-error-recursionerror:' + kind, 'schema with %s ends in RecursionError' % kind)
    except Exception as e:   # noqa
        return ('C13:static-error-wrong-exception:' + kind,
                'schema with %s raises %s instead of the documented schema error' % (kind, type(e).__name__))
    return ('C13:static-error-accepted:' + kind, 'schema with %s compiles and the checker is built without error' % kind)


# ------------------------------------------------------------------------------------------------- (b) well-formed

def post_wellformed(schema, text):
    m, _ = lvs()
    try:
        ck = compile_and_build(text)
    except Exception as e:   # noqa
        if type(e).__name__ == 'SemanticError' and 'never occurs before' in str(e) and L.uses_foreign_pattern(schema):
            return ('C13:pattern-of-other-rule-rejected',
                    'error-free schema rejected (%s): a constraint mentions a named pattern that does occur in the '
                    'schema, but only in rules the compiler numbers after this one' % (e,))
        return ('C13:wellformed-schema-rejected', 'error-free schema without own-signer cycle rejected: %r' % (e,))
    try:
        m.Checker.load(ck.save(), L.lib_fns())
    except Exception as e:   # noqa
        return ('C13:saved-model-rejected-by-loader', 'load(save()) of an accepted model raises %r' % (e,))
    return None


# ------------------------------------------------------------------------------------------------- (c) corruption

def broken_rules(model) -> list[str]:
    """independent re-statement of the documented sanity rules (binary-format.rst)"""
    out = []
    n = len(model.nodes)
    if model.version is None or model.version != VERSION:
        out.append('version')
    for idx, node in enumerate(model.nodes):
        if node.id != idx:
            out.append('node-id')
        for e in list(node.v_edges) + list(node.p_edges):
            if e.dest is None or not (0 <= e.dest < n):
                out.append('edge-dest')
            elif model.nodes[e.dest].parent != idx:
                out.append('parent')
        for k in node.sign_cons:
            if k is None or not (0 <= k < n):
                out.append('signer-id')
        for pe in node.p_edges:
            for c in pe.cons_sets:
                for o in c.options:
                    cnt = [o.value is not None and len(o.value) > 0, o.tag is not None, o.fn is not None].count(True)
                    if cnt != 1:
                        out.append('option-shape')
    return out


def corruptions(model):
    """yield (description, function mutating a deep copy in place)"""
    _, bny = lvs()
    n = len(model.nodes)

    def setter(path_fn, attr, val):
        def f(mm):
            setattr(path_fn(mm), attr, val)
        return f
    for v in (None, 0, VERSION - 1, VERSION + 1, 0xFFFFFFFF):
        yield 'version=%r' % v, setter(lambda mm: mm, 'version', v)
    for v in [None, n, n + 5] + [j for j in range(n) if j != model.start_id]:
        yield 'start_id=%r' % v, setter(lambda mm: mm, 'start_id', v)
    for v in (0, n + 100):
        yield 'named_pattern_cnt=%r' % v, setter(lambda mm: mm, 'named_pattern_cnt', v)
    for i, node in enumerate(model.nodes):
        for v in {None, (i + 1) % (n + 1), n, 0} - {i}:
            yield 'nodes[%d].id=%r' % (i, v), setter(lambda mm, i=i: mm.nodes[i], 'id', v)
        for v in [None] + list(range(n + 1)):
            if v != node.parent:
                yield 'nodes[%d].parent=%r' % (i, v), setter(lambda mm, i=i: mm.nodes[i], 'parent', v)
        for kind in ('v_edges', 'p_edges'):
            for ei, e in enumerate(getattr(node, kind)):
                for v in [None, n, n + 3] + [j for j in range(n) if j != e.dest]:
                    yield 'nodes[%d].%s[%d].dest=%r' % (i, kind, ei, v), \
                        setter(lambda mm, i=i, kind=kind, ei=ei: getattr(mm.nodes[i], kind)[ei], 'dest', v)
                if kind == 'v_edges':
                    for v in (None, b''):
                        yield 'nodes[%d].v_edges[%d].value=%r' % (i, ei, v), \
                            setter(lambda mm, i=i, ei=ei: mm.nodes[i].v_edges[ei], 'value', v)
                else:
                    for v in (None, 0, 1, n + 50):
                        if v != e.tag:
                            yield 'nodes[%d].p_edges[%d].tag=%r' % (i, ei, v), \
                                setter(lambda mm, i=i, ei=ei: mm.nodes[i].p_edges[ei], 'tag', v)
                    for ci, c in enumerate(e.cons_sets):
                        for oi, o in enumerate(c.options):
                            def opt(mm, i=i, ei=ei, ci=ci, oi=oi):
                                return mm.nodes[i].p_edges[ei].cons_sets[ci].options[oi]
                            base = 'nodes[%d].p_edges[%d].cons[%d].opt[%d]' % (i, ei, ci, oi)
                            if o.value is None:
                                yield base + '.value+=', setter(opt, 'value', b'\x08\x01a')
                            else:
                                yield base + '.value=None', setter(opt, 'value', None)
                                yield base + ".value=b''", setter(opt, 'value', b'')
                            if o.tag is None:
                                yield base + '.tag+=', setter(opt, 'tag', 1)
                            else:
                                yield base + '.tag=None', setter(opt, 'tag', None)
                            if o.fn is None:
                                def addfn(mm, opt=opt):
                                    f = bny.UserFnCall()
                                    f.fn_id = '$eq'
                                    f.args = []
                                    opt(mm).fn = f
                                yield base + '.fn+=', addfn
                            else:
                                yield base + '.fn=None', setter(opt, 'fn', None)

                                def nofnid(mm, opt=opt):
                                    opt(mm).fn.fn_id = None
                                yield base + '.fn.fn_id=None', nofnid
        for si, k in enumerate(node.sign_cons):
            for v in [n, n + 7] + [j for j in range(n) if j != k]:
                def setsig(mm, i=i, si=si, v=v):
                    mm.nodes[i].sign_cons[si] = v
                yield 'nodes[%d].sign_cons[%d]=%r' % (i, si, v), setsig
        for v in [n, n + 7] + list(range(n)):
            if v not in node.sign_cons:
                def addsig(mm, i=i, v=v):
                    mm.nodes[i].sign_cons = list(mm.nodes[i].sign_cons) + [v]
                yield 'nodes[%d].sign_cons+=%r' % (i, v), addsig


def probe_names(model):
    """names used for the termination clause: names of length 1..3 over the first two literal components of the
    ORIGINAL model and a fresh component (every one is a prefix of / a deviation from some rule), thinned to <= 14"""
    comps = []
    for node in model.nodes:
        for ve in node.v_edges:
            b = bytes(ve.value)
            if b not in comps:
                comps.append(b)
    comps = comps[:2] + [L.lit_bytes('zz')]
    names = [nm for nm in L.all_names(comps, 3, 1)]
    return names[:3] + names[3:12:2] + names[12::5]


def post_corrupt(desc, cm, names, budget=100000):
    """-> list of (key, what).  cm = corrupted model object."""
    m, bny = lvs()
    out = []
    broken = broken_rules(cm)
    accepted = []
    try:
        wire = bytes(cm.encode())
    except Exception:   # noqa - a corrupted OBJECT that cannot be serialised has no binary form; test the object only
        wire = None
    builders = [('Checker(model)', lambda: m.Checker(cm, L.lib_fns()))]
    if wire is not None:
        builders.append(('Checker.load(bytes)', lambda: m.Checker.load(wire, L.lib_fns())))
    field = desc.split('=')[0].split('.')[-1].split('[')[0].rstrip('+')
    for how, mk in builders:
        st, val = L.run_guarded(mk)
        if st == 'hang':
            out.append(('C13:load-does-not-terminate:' + field, '%s hangs on %s' % (how, desc)))
            continue
        if st == 'exc':
            if isinstance(val, m.LvsModelError):
                continue
            if isinstance(val, RecursionError):
                out.append(('C13:load-recursionerror',
                            '%s ends in RecursionError instead of LvsModelError (%s, broken rules: %s)'
                            % (how, desc, sorted(set(broken)))))
                continue
            if isinstance(val, m.SemanticError) and not broken:
                continue            # a signing cycle introduced by the corruption: the documented schema error
            if isinstance(val, m.SemanticError):
                out.append(('C13:broken-model-wrong-exception:SemanticError',
                            '%s raises SemanticError, not LvsModelError, for a model breaking %s (%s)'
                            % (how, sorted(set(broken)), desc)))
                continue
            out.append(('C13:load-wrong-exception:%s:%s' % (type(val).__name__, field),
                        '%s raises %s instead of LvsModelError (%s, broken rules: %s)'
                        % (how, type(val).__name__, desc, sorted(set(broken)))))
            continue
        if broken:
            out.append(('C13:broken-model-accepted:' + '+'.join(sorted(set(broken))),
                        '%s accepts a model that breaks the documented rule(s) %s (%s)' % (how, sorted(set(broken)), desc)))
            continue
        accepted.append((how, val))
    for how, ck in accepted[:1]:
        bad = None
        for nm in names:
            st, val = L.run_bounded(lambda: sum(1 for _ in ck.match(list(nm))), budget)
            if st == 'steps' or (st == 'exc' and isinstance(val, RecursionError)):
                bad = 'match(%s)' % (L.name_hex(nm),)
                break
        if bad is None:
            for nm in names[::2]:
                for key in names[1::3]:
                    st, val = L.run_bounded(lambda: ck.check(list(nm), list(key)), budget)
                    if st == 'steps' or (st == 'exc' and isinstance(val, RecursionError)):
                        bad = 'check(%s, %s)' % (L.name_hex(nm), L.name_hex(key))
                        break
                if bad:
                    break
        if bad:
            what = 'root-parent' if desc.startswith('nodes[0].parent') else field
            out.append(('C13:query-does-not-terminate:' + what,
                        '%s on the ACCEPTED model (%s; no documented sanity rule broken) %s'
                        % (bad, desc, 'exceeds the step budget' if st == 'steps' else 'ends in RecursionError')))
    return out


# ------------------------------------------------------------------------------------------------- driver

def base_schema(seed, idx, part):
    rng = random.Random(seed * 1000003 + idx * 15485863 + 13 + part)
    if idx % 2 == 0:
        return L.gen_sign_schema(rng)
    return L.gen_schema(rng, max_rules=4 if part == 0 else 6, signing=True, foreign_pats=(part == 1 and idx % 4 == 1))


def run(tier: str, seed: int, shard: tuple[int, int]) -> dict:
    k, n = shard
    m, bny = lvs()
    viol = L.Violations(MODULE)
    seen = set()
    evaluations = 0
    samples = []
    n_inj, n_pos, n_cor = N.get(tier, N['quick'])
    # (a) static errors
    for idx in range(n_inj):
        if idx % n != k:
            continue
        schema = base_schema(seed, idx, 0)
        for kind, pos, s2 in injections(schema):
            text = L.render(s2)
            h = L.case_hash('inj', text)
            if h in seen:
                continue
            seen.add(h)
            evaluations += 1
            r = post_static_error(kind, text)
            if r:
                viol.add(r[0], r[1], {'part': 'inject', 'kind': kind, 'pos': pos, 'text': text})
        if len(samples) < 2:
            samples.append({'base': L.render(schema)})
    # (b) well-formed
    for idx in range(n_pos):
        if idx % n != k:
            continue
        schema = base_schema(seed, idx, 1)
        if L.static_errors(schema):
            raise AssertionError('generator produced a schema with static errors: %s' % L.render(schema))
        if L.own_signer_cycle(schema):
            continue
        text = L.render(schema)
        seen.add(L.case_hash('pos', text))
        evaluations += 1
        r = post_wellformed(schema, text)
        if r:
            viol.add(r[0], r[1], {'part': 'wellformed', 'schema': L.schema_json(schema), 'text': text})
    # (c) corrupted models
    for idx in range(n_cor):
        if idx % n != k:
            continue
        schema = base_schema(seed, idx, 2)
        text = L.render(schema)
        try:
            model = m.compile_lvs(text)
            m.Checker(model, L.lib_fns())
        except Exception:   # noqa - (b) reports rejected well-formed schemas; here we only need compiled models
            continue
        if len(model.nodes) > 14:
            continue
        names = probe_names(model)
        for desc, mut in corruptions(model):
            cm = copy.deepcopy(model)
            mut(cm)
            evaluations += 1
            seen.add(L.case_hash('cor', text, desc))
            for key, what in post_corrupt(desc, cm, names):
                viol.add(key, what, {'part': 'corrupt', 'text': text, 'desc': desc})
        if len(samples) < 4:
            samples.append({'model_of': text, 'nodes': len(model.nodes)})
    return {'evaluations': evaluations, 'distinct_nontrivial': len(seen), 'rule': RULE, 'bound': BOUND,
            'exhaustive': False, 'samples': samples, 'violations': viol.list()}


def replay(rec: dict) -> tuple[bool, str]:
    inp = rec['input']
    m, _ = lvs()
    want = rec.get('key')
    if inp['part'] == 'inject':
        r = post_static_error(inp['kind'], inp['text'])
        return (r is None, 'documented error raised' if r is None else '%s: %s' % r)
    if inp['part'] == 'wellformed':
        r = post_wellformed(inp['schema'], inp['text'])
        return (r is None, 'accepted' if r is None else '%s: %s' % r)
    model = m.compile_lvs(inp['text'])
    names = probe_names(model)
    for desc, mut in corruptions(model):
        if desc == inp['desc']:
            cm = copy.deepcopy(model)
            mut(cm)
            res = post_corrupt(desc, cm, names)
            hit = [r for r in res if want is None or r[0] == want]
            if hit:
                return False, '; '.join('%s: %s' % r for r in hit)
            return True, 'contract holds for this corruption'
    return True, 'corruption %r not applicable to the model compiled now' % inp['desc']
