"""C02 bounded stand-in: signed portion, parameters digest, tamper detection.

Run-time contracts on the REAL make_data / make_interest (with a recording Signer), parse_data / parse_interest and
the verifiers / checkers of ndn.security.validator.  "NDN-specified signed portion" and "ApplicationParameters to the
end of the Interest" are computed by the independent strict walker of _packets.py, never by the library.

  post_signer_input      bytes handed to Signer.write_signature_value == signed portion of the emitted wire; the value
                         buffer has exactly the reserved size; what the signer wrote is the SignatureValue on the wire
  post_reported_ranges   SignaturePtrs after parsing: signature_covered_part == signed portion, signature_value_buf ==
                         SignatureValue, digest_covered_part == ApplicationParameters..end, digest_value_buf == digest
  post_accepts_genuine   verify_* / *Checker / sha256_digest_checker / params_sha256_checker accept the emitted packet
  post_rejects_tampered  single-byte substitutions in [signed portion, SignatureValue element], truncations and
                         TLV-level edits that change signed portion or signature value: parser rejects or verifier says no
  post_params_digest_iff params_sha256_checker(parsed) == (digest component == SHA-256(ApplicationParameters..end))
"""
import copy
import hashlib
import random

from ndn.encoding import make_data, make_interest, parse_data, parse_interest
from ndn.security import sha256_digest_checker, params_sha256_checker

from . import _packets as P
from . import c01

MODULE = 'bounded.c02'

RULE = ('cases = packet description as in C01 (kind, name, parameters, payload length / boundary target, signer) x '
        'mutation (none | substitution(pos,value) | raw truncation(k) | truncation with outer length repaired(k) | named '
        'TLV-level edit); generated deterministically from the seed, packets partitioned by index % nshards; every '
        '(packet, mutation) pair that was built, parsed/judged counts once; distinct = distinct (packet description, '
        'mutation) pairs')
BOUND = ('packets: C01 domain restricted to names of 0..3 components, payload absent / 0..300 / around the 253 and 65536 '
         'boundaries / 70000, signers DigestSha256, HmacSha256, RSA-1024/2048, ECDSA P-256/384/521, Ed25519 (accept + '
         'tamper clauses), Null and synthetic short-writing signer (range clauses only), unsigned Interests with '
         'ApplicationParameters (digest clause); per packet: quick ~24 sampled substitution positions incl. every range '
         'border, 6 raw + 6 repaired truncations, every applicable one of 22 TLV-level edits; thorough up to 300 positions '
         '(all for small packets) x 2 values, 40+40 truncations.  "Not accepted" for forged packets rests on the primitives; '
         'what is checked is that every byte of the signed portion / signature value influences the verdict')

VERIFIED_KINDS = ['digest', 'hmac', 'rsa1024', 'rsa2048', 'p256', 'p384', 'p521', 'ed25519']
UNKNOWN = [P.T_UNKNOWN_NONCRIT, b'\x00']


# --------------------------------------------------------------------------------------------------------------
# building and judging
# --------------------------------------------------------------------------------------------------------------

def build(case, payload):
    inner = P.make_signer(case['signer'])
    rec = P.RecordingSigner(inner) if inner is not None else None
    name = c01.name_input(case['name'])
    if case['kind'] == 'data':
        wire = make_data(name, c01.meta_input(case['meta']), payload, rec)
    else:
        wire = make_interest(name, c01.param_input(case['param']), payload, rec)
    return bytes(wire), rec


def walk(kind, wire, strict):
    return P.walk_data(wire, strict) if kind == 'data' else P.walk_interest(wire, strict)


def parse(kind, wire):
    return parse_data(wire) if kind == 'data' else parse_interest(wire)


def verdicts(case, loop, name, ptrs):
    """-> list of (verifier name, outcome) where outcome is True / False / ('raised', text)"""
    sk = case['signer']['kind']
    fam = P.family(sk)
    out = []

    def call(label, fn):
        try:
            out.append((label, bool(fn())))
        except Exception as e:            # a verifier that raises has not accepted, but it has not answered either
            out.append((label, ('raised', f'{type(e).__name__}: {e}')))

    if fam in ('digest', 'digest_i'):
        call('sha256_digest_checker', lambda: loop.run(sha256_digest_checker(name, ptrs)))
        # the same check through ONE composed verifier object that serves every packet of this process
        call('union_checker(sha256_digest_checker) [reused]', lambda: loop.run(_composed('digest')(name, ptrs)))
    else:
        call(f'verify_{fam}', lambda: P.lib_verify(sk, ptrs))
        chk = P.lib_checker(sk, P.expected_kl(case['signer']))
        call({'rsa': 'RsaChecker', 'ecdsa': 'EccChecker', 'hmac': 'HmacChecker', 'ed25519': 'Ed25519Checker'}[fam],
             lambda: loop.run(chk(name, ptrs)))
    return out


def post_union_failure(loop, parsed):
    """a composed verifier one of whose members FAILS (raises: key source down, key bits unusable ...) has not accepted the packet:
    it may raise or answer False, never True - whatever the other members say and in whatever order they are listed"""
    from ndn.security.validator.digest_validator import union_checker

    async def failing(name, sig):
        raise RuntimeError('key source unavailable')

    async def accepting(name, sig):
        return True
    name, ptrs = parsed[0], parsed[-1]
    out = []
    for label, members in (('failing member first', (failing, accepting)), ('failing member last', (accepting, failing))):
        try:
            r = loop.run(union_checker(*members)(name, ptrs))
        except Exception:   # noqa - an error is not an acceptance
            continue
        if r:
            out.append(('C02:union_checker:accepts-although-a-member-failed',
                        f'union_checker({label}) answered {r!r} although one of its checkers raised'))
    return out


_COMPOSED = {}


def _composed(kind):
    from ndn.security.validator.digest_validator import union_checker
    if kind not in _COMPOSED:
        _COMPOSED[kind] = union_checker(sha256_digest_checker)
    return _COMPOSED[kind]


def cat_views(parts):
    return b''.join(bytes(p) for p in (parts or []))


# --------------------------------------------------------------------------------------------------------------
# contracts on the genuine packet
# --------------------------------------------------------------------------------------------------------------

def post_signer_input(case, w, rec):
    fn = 'make_data' if case['kind'] == 'data' else 'make_interest'
    out = []
    if len(rec.calls) != 1:
        return [(f'C02:{fn}:signer-called-once', f'write_signature_value called {len(rec.calls)} times')]
    c = rec.calls[0]
    spec = P.cat(w['wire'], w['signed_ranges'])
    if c['covered'] != spec:
        out.append((f'C02:{fn}:signer-input', f'signer was handed {len(c["covered"])} bytes {c["covered"][:24].hex()}.. but the '
                                              f'NDN signed portion of the emitted packet is {len(spec)} bytes {spec[:24].hex()}..'))
    if c['buf_len'] != rec.reserved:
        out.append((f'C02:{fn}:signature-buffer', f'value buffer of {c["buf_len"]} bytes for a reserved size of {rec.reserved}'))
    if c['written'] is not None and w['sigvalue'] != c['written']:
        out.append((f'C02:{fn}:signature-value-on-wire', f'signer wrote {len(c["written"])} bytes, SignatureValue on the wire has '
                                                         f'{len(w["sigvalue"])} bytes / differs'))
    return out


def post_reported_ranges(case, w, parsed):
    pf = 'parse_data' if case['kind'] == 'data' else 'parse_interest'
    out = []
    ptrs = parsed[3]
    if case['signer'] is not None:
        spec = P.cat(w['wire'], w['signed_ranges'])
        got = cat_views(ptrs.signature_covered_part)
        if got != spec:
            out.append((f'C02:{pf}:covered-part', f'signature_covered_part is {len(got)} bytes {got[:24].hex()}.. but the signed portion '
                                                  f'is {len(spec)} bytes {spec[:24].hex()}..'))
        if ptrs.signature_value_buf is None or bytes(ptrs.signature_value_buf) != w['sigvalue']:
            out.append((f'C02:{pf}:signature-value-buf', 'signature_value_buf is not the SignatureValue of the packet'))
    if case['kind'] == 'interest' and w['digest_range'] is not None:
        a, b = w['digest_range']
        got = cat_views(ptrs.digest_covered_part)
        if got != w['wire'][a:b]:
            out.append((f'C02:{pf}:digest-covered-part', f'digest_covered_part is {len(got)} bytes, ApplicationParameters..end is {b - a}'))
        c, d = w['digest_comps'][0]
        if ptrs.digest_value_buf is None or bytes(ptrs.digest_value_buf) != w['wire'][c:d]:
            out.append((f'C02:{pf}:digest-value-buf', 'digest_value_buf is not the value of the ParametersSha256DigestComponent'))
    return out


def post_accepts_genuine(case, w, loop, parsed):
    out = []
    name, ptrs = parsed[0], parsed[3]
    sp = case['signer']
    if sp is not None and sp['kind'] in VERIFIED_KINDS + ['digest_i']:
        if not P.own_verify(sp['kind'], P.cat(w['wire'], w['signed_ranges']), w['sigvalue']):
            out.append((f'C02:make_{case["kind"]}:signature-does-not-verify',
                        'SignatureValue does not verify (primitives used directly) over the NDN signed portion'))
        for label, res in verdicts(case, loop, name, ptrs):
            if res is not True:
                out.append((f'C02:{label}:rejects-genuine', f'{label} -> {res} on the packet just produced with the matching signer'))
        if P.family(sp['kind']) not in ('digest', 'digest_i'):
            try:
                if P.lib_verify(sp['kind'], ptrs, wrong_key=True):
                    out.append((f'C02:verify_{P.family(sp["kind"])}:accepts-wrong-key', 'verifier accepts under a different key'))
            except Exception as e:
                out.append((f'C02:verify_{P.family(sp["kind"])}:raises', f'{type(e).__name__}: {e} with a different key'))
    if case['kind'] == 'interest' and w['digest_range'] is not None:
        exp = P.expected_params_ok(w)
        if not exp:
            out.append(('C02:make_interest:digest-component-value', 'digest component of the emitted Interest != SHA-256(ApplicationParameters..end)'))
        got = loop.run(params_sha256_checker(name, ptrs))
        if bool(got) != exp:
            out.append(('C02:params_sha256_checker:iff', f'checker -> {got} on the genuine Interest, recomputed SHA-256 match = {exp}'))
    return out


# --------------------------------------------------------------------------------------------------------------
# mutations
# --------------------------------------------------------------------------------------------------------------

def apply_mut(kind, wire: bytes, mut):
    """-> mutated wire or None when not applicable"""
    t = mut['type']
    if t == 'sub':
        if mut['pos'] >= len(wire) or wire[mut['pos']] == mut['val']:
            return None
        b = bytearray(wire)
        b[mut['pos']] = mut['val']
        return bytes(b)
    if t == 'trunc':
        return wire[:mut['k']] if mut['k'] < len(wire) else None
    if t == 'trunc_fix':
        typ, vo, ve = P.rd_elem(wire, 0, len(wire))
        if vo + mut['k'] >= ve:
            return None
        return P.enc_tlv(typ, wire[vo:vo + mut['k']])
    if t == 'edit':
        return apply_edit(kind, wire, mut['name'], mut.get('redigest', True))
    raise ValueError(t)


def _redigest(kind, wire):
    """what an attacker would do after editing an Interest: recompute the parameters digest"""
    try:
        w = P.walk_interest(wire, strict=False)
    except P.Malformed:
        return wire
    if len(w['digest_comps']) != 1:
        return wire
    if w['digest_range'] is not None:
        a, b = w['digest_range']
    elif P.T_ISIGINFO in w['elems']:       # no ApplicationParameters: hash what is left after the plain Interest fields
        a, b = w['elems'][P.T_ISIGINFO][0], w['value'][1]
    else:
        return wire
    c, d = w['digest_comps'][0]
    return wire[:c] + hashlib.sha256(wire[a:b]).digest() + wire[d:]


DATA_EDITS = ['insert-unknown-in-signed-region', 'insert-unknown-in-siginfo', 'insert-unknown-in-metainfo', 'drop-metainfo',
              'drop-content', 'name-append', 'name-drop-last', 'content-append-byte', 'sigtype-change', 'keylocator-rename',
              'sigvalue-append-zero', 'sigvalue-drop-last', 'sigvalue-empty', 'sigvalue-remove-element', 'swap-meta-content',
              'move-content-byte-into-name', 'sigvalue-strip-leading-zero', 'sigvalue-prepend-zero']
INTEREST_EDITS = ['insert-unknown-after-appparams', 'insert-unknown-in-siginfo', 'insert-unknown-before-sigvalue', 'name-append',
                  'name-drop-first', 'appparam-append-byte', 'sigtype-change', 'keylocator-rename', 'sigvalue-append-zero',
                  'sigvalue-drop-last', 'sigvalue-empty', 'sigvalue-remove-element', 'append-unknown-at-end',
                  'drop-appparams', 'sigvalue-strip-leading-zero', 'sigvalue-prepend-zero', 'drop-appparams-digest-of-nothing']


def apply_edit(kind, wire, name, redigest=True):
    tree = P.to_tree(wire, 0, len(wire))
    top = tree[0]
    T = {'data': dict(si=P.T_SIGINFO, sv=P.T_SIGVAL, pl=P.T_CONTENT), 'interest': dict(si=P.T_ISIGINFO, sv=P.T_ISIGVAL, pl=P.T_APP)}[kind]
    nm, si, sv, pl = P.child(top, P.T_NAME), P.child(top, T['si']), P.child(top, T['sv']), P.child(top, T['pl'])
    i_sv, i_si, i_pl = P.child_index(top, T['sv']), P.child_index(top, T['si']), P.child_index(top, T['pl'])
    ok = False
    if name == 'insert-unknown-in-signed-region' and i_sv is not None:
        top[1].insert(1 + (len(wire) % i_sv if i_sv > 0 else 0), copy.deepcopy(UNKNOWN))
        ok = True
    elif name == 'insert-unknown-after-appparams' and i_pl is not None and i_sv is not None:
        top[1].insert(i_pl + 1, copy.deepcopy(UNKNOWN))
        ok = True
    elif name == 'insert-unknown-before-sigvalue' and i_sv is not None and i_pl is not None:
        top[1].insert(i_sv, copy.deepcopy(UNKNOWN))
        ok = True
    elif name == 'insert-unknown-in-siginfo' and si is not None and i_sv is not None:
        si[1].append(copy.deepcopy(UNKNOWN))
        ok = True
    elif name == 'insert-unknown-in-metainfo' and P.child(top, P.T_META) is not None and i_sv is not None:
        P.child(top, P.T_META)[1].append(copy.deepcopy(UNKNOWN))
        ok = True
    elif name == 'drop-metainfo' and P.child(top, P.T_META) is not None and i_sv is not None:
        del top[1][P.child_index(top, P.T_META)]
        ok = True
    elif name == 'drop-content' and pl is not None and i_sv is not None:
        del top[1][i_pl]
        ok = True
    elif name == 'drop-appparams' and pl is not None:
        del top[1][i_pl]
        ok = True
    elif name == 'drop-appparams-digest-of-nothing' and kind == 'interest' and pl is not None \
            and any(c[0] == P.T_PARAMS for c in nm[1]):
        # no ApplicationParameters (nor anything after them) is left, and the digest component is SHA-256 of NO bytes
        top[1][:] = [e for e in top[1] if e[0] not in (P.T_APP, P.T_ISIGINFO, P.T_ISIGVAL)]
        for c in nm[1]:
            if c[0] == P.T_PARAMS:
                c[1] = hashlib.sha256(b'').digest()
        redigest = False
        ok = True
    elif name == 'name-append' and i_sv is not None:
        nm[1].append([8, b'evil'])
        ok = True
    elif name == 'name-drop-last' and i_sv is not None and nm[1]:
        nm[1].pop()
        ok = True
    elif name == 'name-drop-first' and i_sv is not None and any(c[0] != P.T_PARAMS for c in nm[1]):
        del nm[1][[c[0] != P.T_PARAMS for c in nm[1]].index(True)]
        ok = True
    elif name in ('content-append-byte', 'appparam-append-byte') and pl is not None and (i_sv is not None or kind == 'interest'):
        pl[1] = pl[1] + b'\x00'
        ok = True
    elif name == 'move-content-byte-into-name' and pl is not None and i_sv is not None and pl[1] and nm[1] and nm[1][-1][0] not in (1, 2):
        nm[1][-1][1] = nm[1][-1][1] + pl[1][:1]
        pl[1] = pl[1][1:]
        ok = True
    elif name == 'sigtype-change' and si is not None and i_sv is not None and P.child(si, P.T_SIGTYPE) is not None:
        st = P.child(si, P.T_SIGTYPE)
        st[1] = bytes([(st[1][-1] + 1) % 6]) if len(st[1]) == 1 else b'\x00'
        ok = True
    elif name == 'keylocator-rename' and si is not None and i_sv is not None and P.child(si, P.T_KL) is not None \
            and P.child(P.child(si, P.T_KL), P.T_NAME) is not None:
        P.child(P.child(si, P.T_KL), P.T_NAME)[1].append([8, b'x'])
        ok = True
    elif name == 'sigvalue-append-zero' and sv is not None:
        sv[1] = sv[1] + b'\x00'
        ok = True
    elif name == 'sigvalue-drop-last' and sv is not None and sv[1]:
        sv[1] = sv[1][:-1]
        ok = True
    elif name == 'sigvalue-strip-leading-zero' and sv is not None and len(sv[1]) > 1 and sv[1][0] == 0:
        sv[1] = sv[1][1:]
        ok = True
    elif name == 'sigvalue-prepend-zero' and sv is not None and sv[1]:
        sv[1] = b'\x00' + sv[1]
        ok = True
    elif name == 'sigvalue-empty' and sv is not None and sv[1]:
        sv[1] = b''
        ok = True
    elif name == 'sigvalue-remove-element' and sv is not None:
        del top[1][i_sv]
        ok = True
    elif name == 'swap-meta-content' and P.child(top, P.T_META) is not None and pl is not None and i_sv is not None:
        i_m = P.child_index(top, P.T_META)
        top[1][i_m], top[1][i_pl] = top[1][i_pl], top[1][i_m]
        ok = True
    elif name == 'append-unknown-at-end':
        top[1].append(copy.deepcopy(UNKNOWN))
        ok = True
    if not ok:
        return None
    out = P.ser(tree)
    if kind == 'interest' and redigest:
        out = _redigest(kind, out)
    return out


def sig_identity(kind, wire):
    """((signed portion bytes, signature value), walk, None) under the strict reading, or (None, None, Malformed)"""
    try:
        w = walk(kind, wire, strict=False)
    except P.Malformed as e:
        return None, None, e
    return (P.cat(w['wire'], w['signed_ranges']), w['sigvalue']), w, None


def judge(case, orig_id, loop, mutated, mut):
    """post_rejects_tampered + post_params_digest_iff on one mutated packet -> list of (key, what)"""
    kind = case['kind']
    pf = 'parse_data' if kind == 'data' else 'parse_interest'
    out = []
    try:
        parsed = parse(kind, mutated)
    except P.PARSER_REJECT:
        return out
    except Exception as e:
        return [(f'C02:{pf}:undocumented-exception', f'{pf} raised {type(e).__name__}: {e} on a mutated packet ({mut})')]
    name, ptrs = parsed[0], parsed[3]
    ident, w2, bad = sig_identity(kind, mutated)
    sp = case['signer']
    # differs from the signed packet in signed portion or signature value: by the strict reading when there is one,
    # else (mutant not well-formed) when the edit touched the signed portion / SignatureValue element at all
    differs = ident != orig_id if ident is not None else mut.get('in_region', True)
    if sp is not None and sp['kind'] in VERIFIED_KINDS + ['digest_i'] and orig_id is not None and differs:
        res = verdicts(case, loop, name, ptrs)
        primary = res[0][1]
        for i, (label, r) in enumerate(res):
            if i > 0 and (r == primary or (r is not True and r is not False and primary is not True and primary is not False)):
                continue          # the *Checker only repeats what verify_* did: same defect, same raise site
            if r is True:
                st = ptrs.signature_info.signature_type if ptrs.signature_info is not None else None
                if label == 'sha256_digest_checker' and st != 0:
                    # the checker waves through whatever does not claim to be digest-signed (also when the claim was edited away)
                    out.append((f'C02:{label}:accepts-tampered:other-or-missing-signature-type',
                                f'{label} accepts a packet that differs from the digest-signed one; its SignatureType now reads {st} ({mut})'))
                elif bad is not None and bad.overrun:
                    # the parser accepted an element whose declared length overruns its parent (slicing truncates it), so
                    # the verifier is shown the genuine bytes although the packet differs
                    out.append((f'C02:{pf}:length-overrun-accepted-then-verified',
                                f'{pf} accepts a mutated packet in which {bad}; {label} then accepts it ({mut})'))
                else:
                    out.append((f'C02:{label}:accepts-tampered', f'{label} accepts a packet that differs from the signed one ({mut})'))
            elif r is not False:
                what = 'missing-signature-value' if ptrs.signature_value_buf is None else 'tampered'
                out.append((f'C02:{label}:raises-on-{what}', f'{label} {r[1]} instead of answering False ({mut})'))
    if kind == 'interest' and w2 is not None:
        exp = P.expected_params_ok(w2)
        try:
            got = bool(loop.run(params_sha256_checker(name, ptrs)))
        except Exception as e:
            return out + [('C02:params_sha256_checker:raises', f'{type(e).__name__}: {e} ({mut})')]
        if got != exp:
            if got and w2['digest_range'] is None:
                out.append(('C02:params_sha256_checker:accepts-without-application-parameters',
                            f'checker accepts an Interest that has no ApplicationParameters element ({mut})'))
            else:
                out.append(('C02:params_sha256_checker:iff', f'checker -> {got} but digest component == SHA-256(ApplicationParameters..end) '
                                                             f'is {exp} ({mut})'))
    return out


def gen_mutations(case, w, rng, thorough):
    kind = case['kind']
    wire = w['wire']
    muts = []
    # region = signed portion + the whole SignatureValue element (its T and L decide what the signature value is)
    ranges = list(w['signed_ranges'])
    if w['sigvalue_range'] is not None:
        sv_start = w['signed_ranges'][-1][1] if w['signed_ranges'] else w['sigvalue_range'][0]
        ranges.append((sv_start, w['sigvalue_range'][1]))
    if kind == 'interest' and case['signer'] is None and w['digest_range'] is not None:
        ranges = [w['digest_range'], w['digest_comps'][0]]          # digest clause on unsigned Interests
    pos = set()
    for a, b in ranges:
        pos.update(p for p in (a, a + 1, a + 2, b - 2, b - 1) if a <= p < b)
    allpos = [p for a, b in ranges for p in range(a, b)]
    budget = 300 if thorough else 24
    if len(allpos) <= budget:
        pos.update(allpos)
    else:
        pos.update(rng.sample(allpos, budget - len(pos)) if budget > len(pos) else [])
    if kind == 'interest':                                          # bytes outside the digest range must not matter: sample a few
        vo, ve = w['value']
        pos.update(rng.sample(range(vo, ve), min(4, ve - vo)))
    region = set(allpos)
    for p in sorted(pos):
        vals = {wire[p] ^ rng.choice([1, 2, 4, 8, 16, 32, 64, 128]), rng.randrange(256)} if thorough else {wire[p] ^ rng.choice([1, 0x80, 0xFF, rng.randrange(1, 256)])}
        for v in vals:
            if v != wire[p]:
                muts.append({'type': 'sub', 'pos': p, 'val': v, 'in_region': p in region})
    n = len(wire)
    ks = set(range(n)) if (thorough and n <= 40) else set(rng.sample(range(n), min(n, 40 if thorough else 6)))
    ks.update(k for k in (0, 1, 2, n - 1) if 0 <= k < n)
    muts += [{'type': 'trunc', 'k': k} for k in sorted(ks)]
    vlen = w['value'][1] - w['value'][0]
    ks = set(rng.sample(range(vlen), min(vlen, 40 if thorough else 6)))
    for _, st, _, _ in P.kids(wire, *w['value']):                 # cuts at element boundaries (drops trailing elements)
        ks.add(st - w['value'][0])
    muts += [{'type': 'trunc_fix', 'k': k} for k in sorted(ks)]
    for e in (DATA_EDITS if kind == 'data' else INTEREST_EDITS):
        muts.append({'type': 'edit', 'name': e})
    if kind == 'interest':
        muts.append({'type': 'edit', 'name': 'append-unknown-at-end', 'redigest': False})
        muts.append({'type': 'edit', 'name': 'appparam-append-byte', 'redigest': False})
    return muts


# --------------------------------------------------------------------------------------------------------------
# one packet
# --------------------------------------------------------------------------------------------------------------

def run_packet(case, rng, thorough, col=None, only_mut=None, wire_override=None):
    """-> list of (key, what, mut|None).  only_mut / wire_override are used by replay."""
    kind = case['kind']
    fn = 'make_data' if kind == 'data' else 'make_interest'
    pf = 'parse_data' if kind == 'data' else 'parse_interest'
    out = []
    try:
        payload = c01.resolve_payload(case)
    except Exception as e:
        return [(f'C02:{fn}:raises', f'probe packet: {type(e).__name__}: {e}', None)]
    if payload is False:
        return out
    rec = None
    if wire_override is None:
        try:
            wire, rec = build(case, payload)
            if case.get('want_leading_zero_signature'):
                # a genuine packet whose SignatureValue happens to start with a zero octet (1 in 256 for RSA): the
                # payload filler is stepped until the deterministic signature has that form
                for step in range(1, 6000):
                    sv = walk(kind, wire, strict=True)['sigvalue']
                    if sv and sv[0] == 0:
                        break
                    case = dict(case, fill=(case.get('fill', 0) + 1) % 65536)
                    payload = c01.resolve_payload(case)
                    wire, rec = build(case, payload)
        except Exception as e:
            if case.get('two_digest_components') and isinstance(e, ValueError):
                return out         # refused: nothing was handed to a signer, no packet exists
            return [(f'C02:{fn}:raises', f'{fn} raised {type(e).__name__}: {e}', None)]
    else:
        wire = wire_override
    try:
        w = walk(kind, wire, strict=True)
    except P.Malformed as e:
        return [(f'C02:{fn}:emitted-wire-malformed', f'{e} (see C01)', None)]
    with P.Loop() as loop:
        if only_mut is None:
            if col is not None:
                col.evaluations += 1
                col.seen(case, None)
            if rec is not None:
                out += [(k, m, None) for k, m in post_signer_input(case, w, rec)]
            try:
                parsed = parse(kind, wire)
            except Exception as e:
                return out + [(f'C02:{pf}:raises', f'{pf} raised {type(e).__name__}: {e} on an emitted packet', None)]
            out += [(k, m, None) for k, m in post_reported_ranges(case, w, parsed)]
            out += [(k, m, None) for k, m in post_accepts_genuine(case, w, loop, parsed)]
            out += [(k, m, None) for k, m in post_union_failure(loop, parsed)]
        sp = case['signer']
        tamper = (sp is not None and sp['kind'] in VERIFIED_KINDS + ['digest_i']) or (kind == 'interest' and w['digest_range'] is not None)
        if not tamper:
            return out
        orig_id = (P.cat(wire, w['signed_ranges']), w['sigvalue']) if sp is not None else None
        muts = [only_mut] if only_mut is not None else gen_mutations(case, w, rng, thorough)
        for mut in muts:
            mutated = apply_mut(kind, wire, mut)
            if mutated is None or mutated == wire:
                continue
            if col is not None:
                col.evaluations += 1
                col.seen(case, mut)
            for k, m in judge(case, orig_id, loop, mutated, mut):
                out.append((k, m, mut))
        if loop.errors:
            out.append(('C02:validator:unhandled-loop-error', loop.errors[0], None))
    return out


# --------------------------------------------------------------------------------------------------------------
# packet generator (C01's generators, signed packets + unsigned Interests with parameters)
# --------------------------------------------------------------------------------------------------------------

def gen_cases(tier, seed):
    rng = random.Random(seed * 104729 + 2)
    thorough = tier == 'thorough'
    cases = []
    kinds = VERIFIED_KINDS + ['null', 'shrink', 'none']

    def one(kind, sk, pl, maxc=3, small=False):
        if sk == 'shrink':
            S = rng.choice([1, 8, 32, 72, 200, 252])
            sp = {'kind': 'shrink', 'S': S, 'r': rng.randint(0, S), 'kl': '/syn'}
        elif sk == 'digest' and kind == 'interest' and rng.random() < 0.5:
            sp = {'kind': 'digest_i'}
        else:
            sp = c01.signer_spec(sk, rng)
        if kind == 'interest' and sp is None and pl is None:
            pl = {'len': rng.randint(0, 20)}
        if kind == 'data':
            name = c01.gen_name(rng, maxc)
            ex = c01.gen_meta(rng, rng.choice([None] + list(range(8))))
        else:
            name = c01.gen_interest_name(rng, True, maxc)
            ex = c01.gen_param(rng, rng.getrandbits(6))
        if small:
            name = c01.SIMPLE_NAME
            ex = c01.gen_meta(rng, rng.choice([None, 1, 2])) if kind == 'data' else c01.gen_param(rng, rng.choice([0, 1, 4, 16]))
        c = {'kind': kind, 'name': name, 'payload': pl, 'signer': sp, 'fill': rng.getrandbits(16)}
        c['meta' if kind == 'data' else 'param'] = ex
        return c

    reps = 12 if thorough else 4
    for sk in kinds:
        for kind in ('data', 'interest'):
            if sk == 'none' and kind == 'data':
                continue
            for _ in range(reps):
                cases.append(one(kind, sk, rng.choice([None, {'len': 0}])))
                cases.append(one(kind, sk, {'len': rng.randint(1, 60)}))
                cases.append(one(kind, sk, {'len': rng.randint(61, 300)}))
                cases.append(one(kind, sk, {'len': 253 + rng.randint(-3, 3)}))
                cases.append(one(kind, sk, {'target': 'outer_pre', 'B': 253, 'd': rng.randint(-2, 6)}, small=True))
            for _ in range(max(1, reps // 4)):
                cases.append(one(kind, sk, {'target': 'outer_pre', 'B': 65536, 'd': rng.randint(-2, 6)}, small=True))
                cases.append(one(kind, sk, {'len': 65536 + rng.randint(-3, 3)}))
            if thorough:
                cases.append(one(kind, sk, {'len': 70000}))
    # genuine RSA packets whose signature starts with a zero octet (stripping it must not stay accepted)
    for kind in ('data', 'interest'):
        for sk in ('rsa1024', 'rsa2048') if thorough else ('rsa1024',):
            c = one(kind, sk, {'len': 24}, small=True)
            c['want_leading_zero_signature'] = True
            cases.append(c)
    # a name that already holds TWO parameters-digest components (the final name of an earlier Interest used as a prefix plus a
    # placeholder): either refused, or - if a packet is emitted - judged like every other packet (the strict reading of the
    # wire refuses two digest components, and a signer must never be handed one)
    for sk in ('digest', 'hmac', 'p256', 'none'):
        for pos in ((0, 1), (1, 2), (0, 2), (2, 3)):
            c = one('interest', sk, {'len': 4}, small=True)
            comps = list(c['name']['comps'])
            for k in pos:
                comps.insert(min(k, len(comps)), P.enc_tlv(P.T_PARAMS, rng.randbytes(32)).hex())
            c['name'] = dict(c['name'], comps=comps)
            c['two_digest_components'] = True
            cases.append(c)
    if not thorough:
        cases.append(one('data', 'p256', {'len': 70000}))
        cases.append(one('interest', 'hmac', {'len': 70000}))
    return cases


def run(tier: str, seed: int, shard: tuple) -> dict:
    k, n = shard
    col = P.Collector(MODULE)
    thorough = tier == 'thorough'
    for i, case in enumerate(gen_cases(tier, seed)):
        if i % n != k:
            continue
        rng = random.Random(seed * 1000 + k * 100003 + i)
        for key, what, mut in run_packet(case, rng, thorough, col):
            inp = {'case': case, 'mut': mut}
            col.add(key, what, inp)
        if len(col.samples) < 3:
            col.samples.append({'kind': case['kind'], 'signer': case['signer'], 'payload': case['payload']})
    return col.result(RULE, BOUND)


def replay(rec: dict):
    case, mut = rec['input']['case'], rec['input'].get('mut')
    res = run_packet(case, random.Random(0), False, None, only_mut=mut)
    same = [m for kk, m, _ in res if kk == rec['key']]
    if same:
        return False, same[0]
    if res:
        return False, f'other clause failed: {res[0][0]}: {res[0][1]}'
    return True, 'all C02 contracts hold for this packet / mutation'
