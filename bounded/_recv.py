"""Shared helpers for the receive-path harnesses c04 / c06 / c10.

* an independent (library-free) TLV encoder / walker used to BUILD inputs and to INSPECT what the face sends,
* a recording face, front-end adapters for `ndn.appv2.NDNApp` (v2) and `ndn.app.NDNApp` (v1),
* a per-case asyncio runner (fresh loop, task factory that remembers every task, loop exception handler),
* a fake wall clock (`time.time`) for deadline behaviour,
* a violation collector (<= 5 smallest witnesses per key).
"""
import asyncio
import hashlib
import json
import logging
import struct
import time as _time
import traceback

from ndn import appv2 as _appv2
from ndn import app as _appv1
from ndn import encoding as enc
from ndn import types as ndn_types
from ndn.security import KeychainDigest
from ndn.transport.face import Face
from ndn.transport.prefix_registerer import PrefixRegisterer

# ----------------------------------------------------------------------------------------------------------------
# logging: the library logs every dropped packet; keep it silent but let a case switch the DEBUG branches on
_LOG = logging.getLogger('ndn')
_LOG.addHandler(logging.NullHandler())
_LOG.propagate = False
_LOG.setLevel(logging.CRITICAL + 1)
logging.getLogger('asyncio').addHandler(logging.NullHandler())
logging.getLogger('asyncio').propagate = False


def set_debug_logging(on: bool):
    _LOG.setLevel(logging.DEBUG if on else logging.CRITICAL + 1)


# ----------------------------------------------------------------------------------------------------------------
# independent TLV tools
def num(v: int) -> bytes:
    if v <= 0xFC:
        return bytes([v])
    if v <= 0xFFFF:
        return b'\xfd' + v.to_bytes(2, 'big')
    if v <= 0xFFFFFFFF:
        return b'\xfe' + v.to_bytes(4, 'big')
    return b'\xff' + v.to_bytes(8, 'big')


def tlv(t: int, v: bytes = b'') -> bytes:
    v = bytes(v)
    return num(t) + num(len(v)) + v


def nni(v: int) -> bytes:
    for n in (1, 2, 4, 8):
        if v < (1 << (8 * n)):
            return v.to_bytes(n, 'big')
    raise ValueError(v)


def rd_num(b: bytes, off: int = 0):
    """(value, size) or None when the var-number is truncated."""
    if off >= len(b):
        return None
    f = b[off]
    if f <= 0xFC:
        return f, 1
    n = {0xFD: 2, 0xFE: 4, 0xFF: 8}[f]
    if off + 1 + n > len(b):
        return None
    return int.from_bytes(b[off + 1:off + 1 + n], 'big'), 1 + n


def walk(b: bytes):
    """list of (type, value_bytes, start, value_start, end) for a well-formed element sequence, else None."""
    out, off = [], 0
    b = bytes(b)
    while off < len(b):
        t = rd_num(b, off)
        if t is None:
            return None
        ln = rd_num(b, off + t[1])
        if ln is None:
            return None
        vs = off + t[1] + ln[1]
        if vs + ln[0] > len(b):
            return None
        out.append((t[0], b[vs:vs + ln[0]], off, vs, vs + ln[0]))
        off = vs + ln[0]
    return out


def outer_type(b: bytes):
    """what every transport computes before handing a packet over; None when no Type can be read."""
    r = rd_num(bytes(b), 0)
    return None if r is None else r[0]


def reframe(b: bytes) -> bytes:
    """rewrite the OUTER length so that it is consistent with the bytes that follow (stream-transport style)."""
    b = bytes(b)
    t = rd_num(b, 0)
    if t is None:
        return b
    ln = rd_num(b, t[1])
    if ln is None:
        return b
    rest = b[t[1] + ln[1]:]
    return b[:t[1]] + num(len(rest)) + rest


def comp(v, typ: int = 8) -> bytes:
    if isinstance(v, str):
        v = v.encode()
    return tlv(typ, v)


def name_wire(comps) -> bytes:
    """comps: iterable of encoded components (bytes) -> Name TLV."""
    return tlv(7, b''.join(comps))


def name_uri(comps) -> str:
    """canonical-ish URI of a list of encoded components of type 8/32 with printable values."""
    parts = []
    for c in comps:
        (t, v, *_), = walk(c)
        s = ''.join(chr(x) if (chr(x).isalnum() or chr(x) in '-._~') else '%%%02X' % x for x in v)
        if s and set(s) == {'.'}:
            s = '...' + s
        if not s:
            s = '...'
        parts.append(s if t == 8 else '%d=%s' % (t, s))
    return '/' + '/'.join(parts)


def interest_wire(comps, *, nonce=0x01020304, lifetime=4000, can_be_prefix=False, must_be_fresh=False,
                  app_param=None, extra=b'') -> bytes:
    """hand-encoded Interest (v0.3). With app_param a ParametersSha256DigestComponent is appended to the name."""
    comps = list(comps)
    tail = b''
    if app_param is not None:
        tail = tlv(0x24, app_param) + extra
        comps = comps + [tlv(2, hashlib.sha256(tail).digest())]
    body = name_wire(comps)
    if can_be_prefix:
        body += tlv(0x21)
    if must_be_fresh:
        body += tlv(0x12)
    if nonce is not None:
        body += tlv(0x0a, nonce.to_bytes(4, 'big'))
    if lifetime is not None:
        body += tlv(0x0c, nni(lifetime))
    return tlv(5, body + tail)


def data_wire(comps, content=b'', *, freshness=None, sig='digest') -> bytes:
    """hand-encoded Data; sig='digest' -> DigestSha256 signature, sig=None -> no signature elements at all."""
    body = name_wire(comps)
    mi = tlv(0x18, b'\x00')
    if freshness is not None:
        mi += tlv(0x19, nni(freshness))
    body += tlv(0x14, mi)
    if content is not None:
        body += tlv(0x15, content)
    if sig == 'digest':
        body += tlv(0x16, tlv(0x1b, b'\x00'))
        body += tlv(0x17, hashlib.sha256(body).digest())
    return tlv(6, body)


LP = 0x64
LP_FRAGMENT, LP_SEQUENCE, LP_FRAG_INDEX, LP_FRAG_COUNT, LP_PIT_TOKEN = 0x50, 0x51, 0x52, 0x53, 0x62
LP_NACK, LP_NACK_REASON = 0x0320, 0x0321


def lp_wire(fragment=None, headers=()) -> bytes:
    """headers: iterable of (type, value-bytes); encoded before the fragment in increasing Type order (NDNLPv2 header
    fields are ordered by Type number; an out-of-order field is not a recognised field)."""
    body = b''.join(tlv(t, v) for t, v in sorted(headers, key=lambda tv: tv[0]))
    if fragment is not None:
        body += tlv(LP_FRAGMENT, fragment)
    return tlv(LP, body)


def nack_header(reason, width=None):
    if reason is None:
        return (LP_NACK, b'')
    v = nni(reason) if width is None else reason.to_bytes(width, 'big')
    return (LP_NACK, tlv(LP_NACK_REASON, v))


# --- TLV tree (for structural mutations) -------------------------------------------------------------------------
NESTED = {5, 6, 7, 0x14, 0x16, 0x2c, 0x1c, LP, LP_FRAGMENT, LP_NACK, 0x0334}


def parse_tree(b: bytes, nested=NESTED):
    """[(type, children-list | value-bytes)] of a well-formed element sequence"""
    out = []
    for t, v, *_ in walk(b):
        kids = None
        if t in nested and v:
            w = walk(v)
            if w is not None:
                kids = parse_tree(v, nested)
        out.append((t, kids if kids is not None else v))
    return out


def enc_tree(tree) -> bytes:
    return b''.join(tlv(t, enc_tree(v) if isinstance(v, list) else v) for t, v in tree)


def tree_paths(tree, pre=()):
    for i, (t, v) in enumerate(tree):
        yield pre + (i,)
        if isinstance(v, list):
            yield from tree_paths(v, pre + (i,))


def tree_edit(tree, path, fn):
    """copy of tree with the node at path replaced by the list of nodes fn(node)"""
    i = path[0]
    t, v = tree[i]
    if len(path) == 1:
        return tree[:i] + list(fn((t, v))) + tree[i + 1:]
    return tree[:i] + [(t, tree_edit(v, path[1:], fn))] + tree[i + 1:]


def element_offsets(b: bytes, nested=NESTED, base=0):
    """flat list of (start, type_size, len_size, length, depth) of every element at every nesting depth"""
    out = []

    def rec(buf, base, depth):
        w = walk(buf)
        if w is None:
            return
        for t, v, s, vs, e in w:
            ts = rd_num(buf, s)[1]
            out.append((base + s, ts, vs - s - ts, len(v), depth))
            if t in nested and v and walk(v) is not None:
                rec(v, base + vs, depth + 1)
    rec(bytes(b), base, 0)
    return out


# ----------------------------------------------------------------------------------------------------------------
# faces and front-end adapters
class RecFace(Face):
    """records every send() call separately"""

    def __init__(self):
        super().__init__()
        self.running = True
        self.sent = []

    async def open(self):
        self.running = True

    def shutdown(self):
        self.running = False

    def send(self, data):
        self.sent.append(bytes(data))

    async def run(self):
        pass

    def isLocalFace(self):
        return True


class NullRegisterer(PrefixRegisterer):
    async def register(self, name):
        return True

    async def unregister(self, name):
        return True


class Call:
    __slots__ = ('hid', 'name', 'app_param', 'reply', 'ctx', 'param')

    def __init__(self, hid, name, app_param, reply=None, ctx=None, param=None):
        self.hid, self.name, self.app_param, self.reply, self.ctx, self.param = hid, name, app_param, reply, ctx, param

    def name_bytes(self):
        return tuple(bytes(c) for c in self.name)


async def _v2_pass(_name, _sig, _ctx):
    return ndn_types.ValidResult.PASS


async def _v1_pass(_name, _sig):
    return True


class V2:
    """ndn.appv2.NDNApp behind a uniform interface"""
    tag = 'v2'

    def __init__(self):
        self.face = RecFace()
        self.app = _appv2.NDNApp(self.face, registerer=NullRegisterer())
        self.log = []

    def handler(self, hid):
        def h(name, app_param, reply, ctx):
            self.log.append(Call(hid, name, app_param, reply, ctx, ctx.get('int_param')))
        return h

    def attach(self, name, hid, api='attach'):
        if api == 'route':
            self.app.route(name, validator=_v2_pass)(self.handler(hid))
        else:
            self.app.attach_handler(name, self.handler(hid), _v2_pass)

    def detach(self, name):
        self.app.detach_handler(name)

    def express(self, name, slow_validator=None, **kw):
        if slow_validator is not None:
            async def slow(n, sig, ctx):
                await asyncio.sleep(slow_validator)
                return await _v2_pass(n, sig, ctx)
            return self.app.express(name, slow, **kw)
        return self.app.express(name, _v2_pass, **kw)

    @staticmethod
    def result_view(res):
        name, content, ctx = res
        return (tuple(bytes(c) for c in name), None if content is None else bytes(content),
                bytes(ctx['raw_packet']))

    def pending_count(self):
        return sum(len(n.pending_list) for n in self.app._pit.itervalues())


class V1:
    """ndn.app.NDNApp (legacy) behind the same interface"""
    tag = 'v1'

    def __init__(self):
        self.face = RecFace()
        self.app = _appv1.NDNApp(self.face, KeychainDigest())
        self.log = []

    def handler(self, hid):
        def h(name, param, app_param, raw_packet=None, sig_ptrs=None):
            self.log.append(Call(hid, name, app_param, None, {'raw_packet': raw_packet, 'sig_ptrs': sig_ptrs}, param))
        return h

    def attach(self, name, hid, api='attach'):
        self.app.set_interest_filter(name, self.handler(hid), _v1_pass, True, True)

    def detach(self, name):
        self.app.unset_interest_filter(name)

    def express(self, name, slow_validator=None, **kw):
        if slow_validator is not None:
            async def slow(n, sig):
                await asyncio.sleep(slow_validator)
                return await _v1_pass(n, sig)
            return self.app.express_interest(name, validator=slow, need_raw_packet=True, **kw)
        return self.app.express_interest(name, validator=_v1_pass, need_raw_packet=True, **kw)

    @staticmethod
    def result_view(res):
        name, _meta, content, raw = res
        return (tuple(bytes(c) for c in name), None if content is None else bytes(content), bytes(raw))

    def pending_count(self):
        return sum(len(n.pending_list) for n in self.app._int_tree.itervalues())


FRONTENDS = {'v2': V2, 'v1': V1}


# ----------------------------------------------------------------------------------------------------------------
# fake wall clock
class FakeClock:
    """replaces time.time (the library's timestamp source) for the duration of a `with` block.
    asyncio itself uses the monotonic clock and is unaffected."""

    def __init__(self, now_ms=1_700_000_000_000):
        self.now_ms = now_ms
        self._orig = None

    def __enter__(self):
        self._orig = _time.time
        _time.time = lambda: self.now_ms / 1000.0 + 0.0004   # +0.4 ms: int(x*1000) is exact, never off by one
        return self

    def __exit__(self, *a):
        _time.time = self._orig


# ----------------------------------------------------------------------------------------------------------------
# per-case asyncio runner
class HarnessHang(BaseException):
    pass


class CaseLoop:
    """fresh event loop; remembers every task created on it; records everything the loop's exception handler gets.

    run(main) -> value of main(case). After main returns, library tasks get a chance to finish (`settle`), what is
    still pending is cancelled, and `background_errors` lists (class name, innermost ndn function, message) for
    every task that ended with an exception plus every loop-exception-handler call."""

    def __init__(self):
        self.loop = None
        self.tasks = []
        self.own = set()
        self.handler_calls = []
        self.background_errors = []

    def _factory(self, loop, coro, **kw):
        t = asyncio.Task(coro, loop=loop, **kw)
        self.tasks.append(t)
        return t

    def _on_exc(self, loop, ctx):
        exc = ctx.get('exception')
        self.handler_calls.append((exc_name(exc) if exc is not None else 'None', where(exc),
                                   str(ctx.get('message'))[:120]))

    def spawn(self, coro):
        """harness-owned task (its result/exception is consumed by the harness, not a library background task)"""
        t = self.loop.create_task(coro)
        self.own.add(t)
        return t

    async def settle(self, rounds=60):
        """let library tasks run until all of them are done (or `rounds` loop iterations passed)"""
        for _ in range(rounds):
            await asyncio.sleep(0)
            if all(t.done() for t in self.tasks if t not in self.own):
                # one more turn: done-callbacks / call_soon chains
                await asyncio.sleep(0)
                if all(t.done() for t in self.tasks if t not in self.own):
                    return True
        return False

    def collect(self):
        """move exceptions of finished library tasks into background_errors (marks them retrieved)"""
        for t in self.tasks:
            if t in self.own or not t.done() or t.cancelled():
                continue
            e = t.exception()
            if e is not None:
                rec = (exc_name(e), where(e), str(e)[:120])
                if rec not in self.background_errors:
                    self.background_errors.append(rec)
        for h in self.handler_calls:
            if h not in self.background_errors:
                self.background_errors.append(h)
        self.handler_calls.clear()
        return self.background_errors

    def run(self, main, timeout=20.0):
        self.loop = loop = asyncio.new_event_loop()
        loop.set_exception_handler(self._on_exc)
        loop.set_task_factory(self._factory)

        async def wrapper():
            self.own.add(asyncio.current_task())
            try:
                return await asyncio.wait_for(main(self), timeout)
            finally:
                await self.settle()
                left = [t for t in self.tasks if not t.done() and t is not asyncio.current_task()]
                for t in left:
                    t.cancel()
                if left:
                    await asyncio.gather(*left, return_exceptions=True)
                self.collect()
        try:
            return loop.run_until_complete(wrapper())
        finally:
            try:
                loop.run_until_complete(loop.shutdown_asyncgens())
            finally:
                loop.close()
            self.collect()


def exc_name(e) -> str:
    """stable class label: builtin name; for library subclasses of a specific builtin (e.g. pygtrie.ShortKeyError ->
    KeyError) the builtin base; 'struct.error' for struct.error"""
    cls = e if isinstance(e, type) else type(e)
    if cls.__module__ == 'builtins':
        return cls.__name__
    if cls.__module__ == 'struct' or cls is struct.error:
        return 'struct.error'
    for b in cls.__mro__[1:]:
        if b.__module__ == 'builtins' and b not in (Exception, BaseException, object):
            return b.__name__
    return cls.__name__


def where(exc):
    """innermost function of the ndn package on the traceback of exc ('module.func'), '' if none"""
    if exc is None:
        return ''
    site = ''
    for fs in traceback.extract_tb(exc.__traceback__):
        fn = fs.filename.replace('\\', '/')
        if '/ndn/' in fn:
            site = fn.rsplit('/ndn/', 1)[1].rsplit('.', 1)[0].replace('/', '.') + '.' + fs.name
    return site


def receive_site(exc):
    """name of the function called on the line of `_receive` through which exc escaped (the uncovered call site)"""
    import re
    site = ''
    for fs in traceback.extract_tb(exc.__traceback__):
        if fs.name == '_receive' and '/ndn/' in fs.filename.replace('\\', '/'):
            m = re.findall(r'([A-Za-z_][A-Za-z_0-9]*)\(', fs.line or '')
            site = m[-1] if m else 'line'
            if 'await' in (fs.line or '') and m:
                site = m[0]
    return site or 'unknown'


# ----------------------------------------------------------------------------------------------------------------
class Violations:
    """keeps at most `cap` witnesses per key, preferring small ones"""

    def __init__(self, module, cap=5):
        self.module, self.cap, self.by_key = module, cap, {}

    def add(self, key, what, inp, size=0):
        lst = self.by_key.setdefault(key, [])
        rec = {'key': key, 'what': what, 'module': self.module, 'input': inp}
        ser = json.dumps(inp, sort_keys=True, default=str)
        if any(json.dumps(r['input'], sort_keys=True, default=str) == ser for _, r in lst):
            return
        lst.append((size, rec))
        lst.sort(key=lambda x: x[0])
        del lst[self.cap:]

    def out(self):
        return [r for k in sorted(self.by_key) for _, r in self.by_key[k]]


def h(*parts) -> bytes:
    m = hashlib.blake2b(digest_size=12)
    for p in parts:
        if isinstance(p, (bytes, bytearray, memoryview)):
            b = bytes(p)
        else:
            b = repr(p).encode()
        m.update(len(b).to_bytes(4, 'big'))
        m.update(b)
    return m.digest()
