"""C17 bounded stand-in: prefix registration against a simulated forwarder.

Real code under contract: ndn.transport.nfd_registerer.NfdRegister (through the real ndn.appv2.NDNApp), the legacy
ndn.app.NDNApp.register/unregister/route + main_loop, and ndn.app_support.nfd_mgmt.make_command(_v2)/parse_response.
The application talks to a stub face that records every packet, decodes each command Interest and plays a
forwarder reply per prefix (status 200 / other statuses with and without body / Nack / silence / bad signature /
garbage).  The event loop has a virtual clock and `time.time` as seen by ndn.utils is replaced by a monotone clock
driven by a script, so that "many calls at the same clock reading" is reproducible.

Contracts (from the statement):
  post_one_command       each register/unregister call puts exactly one Interest on the face
  post_names_prefix      /localhost/nfd/rib/<verb>/<ControlParameters> with ControlParameters.Name == the prefix
  post_signed            current format: signed Interest, DigestSha256, SignatureTime+Nonce present, signature and
                         ParametersSha256Digest verify (library checkers and an independent recomputation);
                         legacy format: timestamp/nonce/SignatureInfo/SignatureValue components, digest over the
                         preceding components
  post_success_iff_200   returns True iff the forwarder's reply is a ControlResponse with status 200; every other
                         reply returns False and nothing is raised
  post_serialised        never two commands outstanding; timestamps strictly increase in emission order
  post_autoreg           routes declared before (or while) connected are registered exactly once per connection
  post_codec             make_command / parse_response give back the control-parameter and status fields put in
"""
import asyncio
import hashlib
import logging
import random
import struct

import ndn.utils as ndn_utils
from ndn import appv2, types
from ndn import app as app_v1
from ndn.app_support import nfd_mgmt
from ndn.encoding import (Name, Component, MetaInfo, make_data, parse_interest, parse_tl_num, SignatureType,
                          SignatureInfo, make_network_nack)
from ndn.security import DigestSha256Signer
from ndn.security.validator.digest_validator import sha256_digest_checker, params_sha256_checker
from ndn.transport.face import Face
from ndn.transport.nfd_registerer import NfdRegister

from ._misc import drive, replay_with, VirtualLoopRun, where

MODULE = 'bounded.c17'
logging.getLogger('ndn').setLevel(logging.CRITICAL + 1)      # failed registrations are logged at error level

OK_REPLIES = ('ok', 'ok-text', '200-no-body')
STATUS_REPLIES = ('400', '403-no-body', '404', '409', '500', '503-no-body', 'no-status')
GARBAGE_REPLIES = ('garbage-content', 'garbage-empty', 'garbage-truncated', 'garbage-wrong-type',
                   # a well-formed outer ControlResponse header around a broken inside (round 9, C17-seed14): a truncated
                   # multi-octet Type / Length, a Length running past the end, a status code of 3 octets, an unknown critical type
                   'garbage-inner-type-truncated', 'garbage-inner-length-truncated', 'garbage-inner-overrun',
                   'garbage-inner-status-width', 'garbage-inner-critical-unknown')
OTHER_REPLIES = ('nack-50', 'nack-150', 'timeout', 'bad-signature', 'disconnect')
REPLIES = OK_REPLIES + STATUS_REPLIES + GARBAGE_REPLIES + OTHER_REPLIES
PREFIXES = ('/a', '/app/service', '/8=%00/long/prefix/with/32=meta/seg=3', '/')
CLOCKS = {                       # increments (ms) added at each clock read, cyclic; virtual loop time is always added too
    'virtual': [0],
    'drift': [0.5],
    'cross-once': [0, 1, 0, 0, 0, 0, 0, 0, 0, 0, 0, 0, 0, 0, 0, 0, 0, 0, 0, 0, 0, 0, 0, 0],
    'cross-every-8': [0, 1, 0, 0, 0, 0, 0, 0],
    'cross-every-3': [0, 0, 1],
    'jumpy': [1, 0, 0, 2, 0],
}
BASE_S = 1_000_000.0


class Clock:
    """monotone wall clock: base + virtual loop time + scripted increment per read"""

    def __init__(self, loop, mode):
        self.loop, self.script, self.extra, self.reads = loop, (CLOCKS[mode] if isinstance(mode, str) else list(mode)), 0.0, 0
        self.t0 = loop.time()

    def time(self):
        self.extra += self.script[self.reads % len(self.script)]
        self.reads += 1
        ms = (self.loop.time() - self.t0) * 1000.0 + self.extra
        return BASE_S + (int(ms + 1e-6) + (ms - int(ms)) * 0.5 + 0.25) / 1000.0


# ---------------------------------------------------------------- simulated forwarder
def control_response(status, text, body_prefix=None):
    r = nfd_mgmt.ControlResponse()
    r.status_code = status
    r.status_text = text
    if body_prefix is not None:
        r.body = nfd_mgmt.ControlParametersValue()
        r.body.name = Name.normalize(body_prefix)
        r.body.face_id = 300
        r.body.origin = 0
        r.body.cost = 0
        r.body.flags = 1
    v = bytes(r.encode())
    hdr = bytes([0x65, len(v)]) if len(v) < 253 else b'\x65\xfd' + struct.pack('!H', len(v))
    return hdr + v


def reply_content(kind, prefix):
    if kind == 'ok':
        return control_response(200, 'OK', prefix)
    if kind == 'ok-text':
        return control_response(200, 'Success, route added', prefix)
    if kind == '200-no-body':
        return control_response(200, 'OK')
    if kind == '400':
        return control_response(400, 'Malformed command', prefix)
    if kind == '403-no-body':
        return control_response(403, 'Unauthorized')
    if kind == '404':
        return control_response(404, 'Not found', prefix)
    if kind == '409':
        return control_response(409, 'Conflict', prefix)
    if kind == '500':
        return control_response(500, 'Internal error', prefix)
    if kind == '503-no-body':
        return control_response(503, 'Face not found')
    if kind == 'no-status':
        return control_response(None, 'status code missing', prefix)
    if kind == 'bad-signature':
        return control_response(200, 'OK', prefix)
    if kind == 'garbage-content':
        return b'\x00\x01\x02 this is not a ControlResponse \xff\xfe'
    if kind == 'garbage-empty':
        return None
    if kind == 'garbage-truncated':
        return control_response(200, 'OK', prefix)[:-3]
    if kind == 'garbage-wrong-type':
        return b'\x66' + control_response(200, 'OK', prefix)[1:]
    if kind == 'garbage-inner-type-truncated':
        return bytes.fromhex('6501fd')
    if kind == 'garbage-inner-length-truncated':
        return bytes.fromhex('65046601c8fe')
    if kind == 'garbage-inner-overrun':
        return bytes.fromhex('65056601c8670a4f')
    if kind == 'garbage-inner-status-width':
        return bytes.fromhex('6505660300c8c8')
    if kind == 'garbage-inner-critical-unknown':
        return bytes.fromhex('65076601c86700e100')
    raise ValueError(kind)


class Forwarder(Face):
    def __init__(self, loop, replies, delay_ms=0.0, default='ok'):
        super().__init__()
        self.loop = loop
        self.replies = replies            # prefix uri -> reply kind (or list of kinds consumed in order)
        self.default = default
        self.delay = delay_ms / 1000.0
        self.commands = []                # decoded command records
        self.other = []                   # anything else the application sent
        self.connections = 0
        self.outstanding = []
        self.overlaps = []
        self.stop = None

    async def open(self):
        self.running = True
        self.connections += 1
        self.stop = asyncio.Event()

    def shutdown(self):
        self.running = False
        if self.stop is not None:
            self.stop.set()

    async def run(self):
        await self.stop.wait()

    def isLocalFace(self):
        return True

    def send(self, data):
        wire = bytes(data)
        rec = {'wire': wire, 't': self.loop.time(), 'conn': self.connections}
        try:
            typ, _ = parse_tl_num(wire)
            if typ != 0x05:
                raise ValueError('not an Interest')
            name, param, app_param, sig = parse_interest(wire)
            rec.update(name=[bytes(c) for c in name], param=param, app_param=app_param, sig=sig)
            rec.update(decode_command(rec))
        except Exception as e:
            rec['error'] = f'{type(e).__name__}: {e}'
            self.other.append(rec)
            return
        if rec.get('verb') is None:
            self.other.append(rec)
            return
        self.commands.append(rec)
        if self.outstanding:
            self.overlaps.append((rec['verb'], rec.get('prefix'), [o['verb'] for o in self.outstanding]))
        self.outstanding.append(rec)
        kind = self.replies.get(rec.get('prefix'), self.default)
        if isinstance(kind, list):
            kind = kind.pop(0) if kind else self.default
        rec['reply'] = kind
        lifetime = (param.lifetime if param.lifetime is not None else 4000) / 1000.0
        if kind == 'timeout':
            # the exchange is over for the application when ITS timer fires (lifetime measured on the scripted wall clock,
            # which may run a few ms ahead of loop time): stop counting it as outstanding 20 ms before the nominal expiry
            self.loop.call_later(lifetime - 0.02, self._done, rec)
        elif kind == 'disconnect':
            self.loop.call_later(self.delay, self._disconnect, rec)
        else:
            if kind.startswith('nack-'):
                pkt = bytes(make_network_nack(wire, int(kind[5:])))
            else:
                pkt = bytearray(make_data(name, MetaInfo(freshness_period=1000), reply_content(kind, rec.get('prefix')),
                                          signer=DigestSha256Signer()))
                if kind == 'bad-signature':
                    pkt[-1] ^= 0x55
                pkt = bytes(pkt)
            if self.delay > 0:
                self.loop.call_later(self.delay, self._deliver, pkt, rec)
            else:
                self.loop.call_soon(self._deliver, pkt, rec)

    def _done(self, rec):
        self.outstanding.remove(rec)

    def _disconnect(self, rec):
        self._done(rec)
        self.shutdown()

    def _deliver(self, pkt, rec):
        self._done(rec)
        if not self.running:
            return
        typ, _ = parse_tl_num(pkt)
        asyncio.ensure_future(self.callback(typ, pkt))


def decode_command(rec):
    """what the forwarder understands of a command Interest (never raises for a well-formed Interest)"""
    name = rec['name']
    out = {'verb': None}
    pre = [bytes(c) for c in Name.normalize('/localhost/nfd/rib')]
    if len(name) < 5 or name[:3] != pre:
        return out
    verb = bytes(Component.get_value(name[3])).decode(errors='replace')
    out['verb'] = verb
    try:
        cp = nfd_mgmt.ControlParameters.parse(Component.get_value(name[4]))
        out['prefix'] = Name.to_str(cp.cp.name) if cp.cp is not None and cp.cp.name is not None else None
        out['cp_extra'] = {f.name: getattr(cp.cp, f.name) for f in nfd_mgmt.ControlParametersValue._encoded_fields
                           if f.name != 'name' and getattr(cp.cp, f.name) is not None} if cp.cp is not None else {}
    except Exception as e:
        out['prefix'] = None
        out['cp_error'] = f'{type(e).__name__}: {e}'
    return out


# ---------------------------------------------------------------- contracts on one recorded command
def post_command_format(fe, rec, verb, prefix, clock_now_ms=None):
    out = []
    name = rec['name']
    want = Name.to_str(Name.normalize(prefix))
    if rec.get('verb') != verb or rec.get('prefix') != want:
        out.append(('C17:command-names-prefix', f"command {Name.to_str(name[:4])} names {rec.get('prefix')!r} "
                                                f"({rec.get('cp_error', '')}), expected rib/{verb} of {want!r}"))
    if fe == 'v2':
        sig = rec['sig']
        si = sig.signature_info
        if len(name) != 6 or Component.get_type(name[5]) != Component.TYPE_PARAMETERS_SHA256:
            out.append(('C17:command-signature:v2', f'command name {Name.to_str(name)} is not <prefix>/<params>/<params-sha256>'))
        elif si is None or si.signature_type != SignatureType.DIGEST_SHA256 or si.signature_time is None or si.signature_nonce is None:
            out.append(('C17:command-signature:v2', f'signed-Interest SignatureInfo missing or incomplete: {si}'))
        else:
            h = hashlib.sha256()
            for blk in sig.signature_covered_part:
                h.update(blk)
            if h.digest() != bytes(sig.signature_value_buf) or not _sync(sha256_digest_checker(name, sig)):
                out.append(('C17:command-signature:v2', 'InterestSignatureValue is not the SHA-256 of the signed portion'))
            h = hashlib.sha256()
            for blk in sig.digest_covered_part:
                h.update(blk)
            if h.digest() != bytes(sig.digest_value_buf) or bytes(Component.get_value(name[5])) != h.digest() \
                    or not _sync(params_sha256_checker(name, sig)):
                out.append(('C17:parameters-digest', 'ParametersSha256DigestComponent does not match the parameters'))
            rec['timestamp'] = si.signature_time
    else:
        ok = len(name) == 9
        if ok:
            ts, nonce, si_c, sv_c = name[5:9]
            ok = len(Component.get_value(ts)) == 8 and len(Component.get_value(nonce)) == 8
        if not ok:
            out.append(('C17:command-signature:legacy', f'command name {Name.to_str(name)} is not <prefix>/<params>/<timestamp>/<nonce>/<SignatureInfo>/<SignatureValue>'))
        else:
            rec['timestamp'] = struct.unpack('!Q', bytes(Component.get_value(ts)))[0]
            try:
                siv = bytes(Component.get_value(si_c))
                assert siv[0] == 0x16 and siv[1] == len(siv) - 2
                si = SignatureInfo.parse(siv[2:])
                svv = bytes(Component.get_value(sv_c))
                assert svv[0] == 0x17 and svv[1] == len(svv) - 2 == 32
                good = si.signature_type == SignatureType.DIGEST_SHA256 and hashlib.sha256(b''.join(name[:8])).digest() == svv[2:]
            except Exception:
                good = False
            if not good:
                out.append(('C17:command-signature:legacy', 'SignatureInfo/SignatureValue components are not a DigestSha256 over the preceding components'))
    return out


def _sync(coro):
    try:
        coro.send(None)
    except StopIteration as e:
        return e.value
    raise RuntimeError('checker suspended')


def expected_success(reply):
    return reply in OK_REPLIES


def post_result(fe, op, reply, outcome, handlerless=False):
    """outcome: ('value', v) | ('raised', exc)"""
    site = f"{'nfd-registerer' if fe == 'v2' else 'legacy-app'}"
    if outcome[0] == 'raised':
        e = outcome[1]
        desc = f'{op}() raised {type(e).__name__}: {e} @ {where(e)} for forwarder reply {reply!r}'
        if isinstance(e, AttributeError) and reply.endswith('no-body'):
            return [('C17:parse-response-no-body', desc)]
        if reply in GARBAGE_REPLIES:
            return [(f'C17:garbage-reply-escapes:{site}', desc)]
        if handlerless and isinstance(e, KeyError):
            return [('C17:legacy-unregister-keyerror-without-handler', desc + ' (prefix registered with func=None)')]
        return [(f'C17:{op}-raises:{type(e).__name__}', desc)]
    v = outcome[1]
    want = expected_success(reply)
    if fe == 'v2' and reply == 'bad-signature':
        want = True        # the registerer installs an accept-all validator: nothing to fail
    if v is not want:
        if op == 'unregister' and v is True and reply not in ('nack-50', 'nack-150', 'timeout', 'disconnect'):
            return [(f'C17:unregister-ignores-status:{site}', f'unregister() returned True although the forwarder answered {reply!r}')]
        return [(f'C17:success-iff-200:{site}-{op}', f'{op}() returned {v!r} for forwarder reply {reply!r}, expected {want}')]
    return []


# ---------------------------------------------------------------- driving the two front-ends
class Session:
    def __init__(self, fe, loop, replies, clock_mode='virtual', delay_ms=0.0):
        self.fe = fe
        self.loop = loop
        self.face = Forwarder(loop, replies, delay_ms)
        if fe == 'v2':
            self.app = appv2.NDNApp(face=self.face)
        else:
            self.app = app_v1.NDNApp(face=self.face, keychain=object())
        self.clock = Clock(loop, clock_mode)

    async def connected(self, body):
        """runs `body()` as after_start of the real main_loop, then shuts the face down; returns main_loop's escape"""
        async def after():
            try:
                return await body()
            finally:
                self.app.shutdown()
        watchdog = self.loop.call_later(120.0, self.app.shutdown)     # virtual seconds: a stuck connection ends instead of hanging
        try:
            await self.app.main_loop(after())
            return None
        except Exception as e:
            return e
        finally:
            watchdog.cancel()

    async def call(self, op, prefix, with_handler=True):
        try:
            if self.fe == 'v2':
                v = await (self.app.register(prefix) if op == 'register' else self.app.unregister(prefix))
            elif op == 'register':
                v = await self.app.register(prefix, (lambda *a, **k: None) if with_handler else None)
            else:
                v = await self.app.unregister(prefix)
            return ('value', v)
        except Exception as e:
            return ('raised', e)


def _run(case, body_factory):
    lr = VirtualLoopRun()
    box = {'v': []}
    saved = ndn_utils.time

    async def main():
        loop = asyncio.get_running_loop()
        await body_factory(loop, box)

    try:
        lr.run(main)
    finally:
        ndn_utils.time = saved
    for u in lr.unhandled:
        box['v'].append(('C17:unhandled-background-error', u))
    return box['v']


def run_single(case):
    fe, op, prefix, reply = case['fe'], case['op'], case['prefix'], case['reply']
    handler = case.get('handler', True)

    async def body(loop, box):
        v = box['v']
        replies = {Name.to_str(Name.normalize(prefix)): (['ok', reply] if (fe == 'legacy' and op == 'unregister') else reply)}
        s = Session(fe, loop, replies, case.get('clock', 'virtual'))
        ndn_utils.time = s.clock

        async def inside():
            if fe == 'legacy' and op == 'unregister':
                r0 = await s.call('register', prefix, with_handler=handler)
                if r0 != ('value', True):
                    v.append(('C17:success-iff-200:legacy-app-register', f'preparatory register() gave {r0}'))
            n0 = len(s.face.commands) + len(s.face.other)
            out = await s.call(op, prefix)
            n_new = len(s.face.commands) + len(s.face.other) - n0
            return out, n_new
        holder = {}

        async def wrapped():
            holder['r'] = await inside()
        esc = await s.connected(wrapped)
        if esc is not None:
            v.append(('C17:main-loop-raises', f'main_loop raised {type(esc).__name__}: {esc} @ {where(esc)}'))
        if 'r' not in holder:
            return
        outcome, n_new = holder['r']
        keyerr = outcome[0] == 'raised' and isinstance(outcome[1], KeyError) and not handler
        if n_new != 1 and not keyerr:
            v.append(('C17:exactly-one-command', f'{op}({prefix}) put {n_new} packets on the face'))
        v.extend(post_result(fe, op, reply, outcome, handlerless=not handler))
        if s.face.commands and not keyerr:
            v.extend(post_command_format(fe, s.face.commands[-1], op, prefix))
        if s.face.other:
            v.append(('C17:exactly-one-command', f'non-command packets on the face: {[o.get("error") or Name.to_str(o["name"]) for o in s.face.other]}'))
    return _run(case, body)


def run_stubapp(case):
    """NfdRegister on a stub application whose express() ends with each documented exception"""
    exc_name, op = case['exc'], case['op']

    async def body(loop, box):
        v = box['v']

        class StubFace:
            running = True

            @staticmethod
            def isLocalFace():
                return True

        class StubApp:
            face = StubFace()
            calls = []

            async def express(self, name, validator=None, app_param=None, signer=None, **kw):
                self.calls.append(name)
                if exc_name == 'InterestNack':
                    raise types.InterestNack(150)
                if exc_name == 'ValidationFailure':
                    raise types.ValidationFailure(name, None, None, None)
                raise getattr(types, exc_name)()
        reg = NfdRegister()
        stub = StubApp()
        reg.set_app(stub)
        ndn_utils.time = Clock(loop, 'virtual')
        try:
            r = ('value', await (reg.register('/p') if op == 'register' else reg.unregister('/p')))
        except Exception as e:
            r = ('raised', e)
        if len(stub.calls) != 1:
            v.append(('C17:exactly-one-command', f'{op} expressed {len(stub.calls)} Interests'))
        if r != ('value', False):
            v.append((f'C17:failure-without-raising:nfd-registerer-{op}', f'{op}() with the exchange ending in {exc_name} gave {r}'))
    return _run(case, body)


def run_concurrent(case):
    fe, ops, clock, delay = case['fe'], case['ops'], case['clock'], case['delay']
    cancel = case.get('cancel')

    async def body(loop, box):
        v = box['v']
        prefixes = [f'/c/{i}' for i in range(len(ops))]
        replies = {Name.to_str(Name.normalize(p)): r for p, r in zip(prefixes, case['replies'])}
        s = Session(fe, loop, replies, clock, delay)
        ndn_utils.time = s.clock
        holder = {}

        async def inside():
            if fe == 'legacy':
                for p, op in zip(prefixes, ops):
                    if op == 'unregister':
                        s.app.set_interest_filter(p, lambda *a, **k: None)
            tasks = [asyncio.ensure_future(s.call(op, p, with_handler=False)) for op, p in zip(ops, prefixes)]
            if cancel is not None:
                # every call has started: the first holds the semaphore with its command unanswered, the others are queued
                # behind it; one of the queued callers gives up (task.cancel(), as wait_for does when it expires)
                await asyncio.sleep(0)
                tasks[cancel].cancel()
            holder['r'] = await asyncio.gather(*tasks, return_exceptions=True)
        esc = await s.connected(inside)
        if esc is not None:
            v.append(('C17:main-loop-raises', f'main_loop raised {type(esc).__name__}: {esc} @ {where(esc)}'))
        if 'r' not in holder:
            return
        cmds = s.face.commands
        seen = sorted((c['verb'], c.get('prefix')) for c in cmds)
        live = [i for i in range(len(ops)) if i != cancel]
        want = sorted((ops[i], Name.to_str(Name.normalize(prefixes[i]))) for i in live)
        # the caller that gave up owes no command (it may have sent one if it was no longer queued when cancelled)
        want_all = sorted((op, Name.to_str(Name.normalize(p))) for op, p in zip(ops, prefixes))
        if (seen != want and seen != want_all) or s.face.other:
            v.append(('C17:exactly-one-command', f'{len(ops)} concurrent calls{"" if cancel is None else f" (call {cancel} cancelled while queued)"} '
                                                 f'produced commands {seen}, expected {want}'))
        for i in live:
            outcome = holder['r'][i]
            if isinstance(outcome, BaseException):
                v.append(('C17:call-raises', f'{ops[i]}({prefixes[i]}) raised {type(outcome).__name__}: {outcome}'))
                continue
            v.extend(post_result(fe, ops[i], case['replies'][i], outcome))
        for c in cmds:
            v.extend(post_command_format(fe, c, c['verb'], c.get('prefix') or '/'))
        stamps = [c.get('timestamp') for c in cmds if c.get('timestamp') is not None]
        bad = [(a, b) for a, b in zip(stamps, stamps[1:]) if not b > a]
        if bad:
            site = 'nfd-registerer' if fe == 'v2' else 'legacy-app'
            # 'virtual' clock: the millisecond clock is the loop time; with a forwarder that takes >= 1 ms per reply the clock has
            # moved on when the next command gets its turn, so equal timestamps there are NOT the same-reading case
            if clock == 'virtual' and delay >= 1 and all('timeout' not in str(r) for r in case['replies']):
                how = 'although-the-clock-advanced-between-commands'
            else:
                how = 'same-clock-reading' if clock == 'virtual' else 'clock-ticks-mid-command'
            v.append((f'C17:timestamp-not-strictly-increasing:{site}:{how}',
                      f'command timestamps in emission order {[t - int(BASE_S * 1000) for t in stamps]} (ms, relative) are not strictly increasing '
                      f'(clock script {clock}, {len(ops)} concurrent calls)'))
        if s.face.overlaps:
            with_unreg = all(o[0] == 'unregister' or 'unregister' in o[2] for o in s.face.overlaps)
            site = 'nfd-registerer' if fe == 'v2' else ('legacy-unregister' if with_unreg else 'legacy-app')
            v.append((f'C17:commands-not-one-at-a-time:{site}',
                      f'a command was sent while another was still unanswered: {s.face.overlaps[:3]}'))
    return _run(case, body)


def run_connect(case):
    fe, before, during, conns = case['fe'], case['before'], case['during'], case['connections']

    async def body(loop, box):
        v = box['v']
        replies = {Name.to_str(Name.normalize(p)): [r] * 8 for p, r in case['replies'].items()}
        s = Session(fe, loop, replies, 'virtual', case.get('delay', 0))
        ndn_utils.time = s.clock

        def declare(p):
            if fe == 'v2':
                s.app.route(p)(lambda name, app_param, reply, ctx: None)
            else:
                s.app.route(p)(lambda name, param, app_param: None)
        for p in before:
            declare(p)
        declared = list(before)
        for c in range(1, conns + 1):
            async def inside():
                if c == 1:
                    for p in during:
                        declare(p)
                        declared.append(p)
                await asyncio.sleep(3.0)       # long enough for every exchange incl. a timeout per route
            expect_now = list(declared) + (list(during) if c == 1 else [])
            esc = await s.connected(inside)
            if esc is not None:
                v.append(('C17:main-loop-raises', f'connection {c}: main_loop raised {type(esc).__name__}: {esc} @ {where(esc)}'))
            got = sorted((x['verb'], x.get('prefix')) for x in s.face.commands if x['conn'] == c)
            want = sorted(('register', Name.to_str(Name.normalize(p))) for p in expect_now)
            if got != want or [o for o in s.face.other if o['conn'] == c]:
                v.append((f'C17:autoreg-once-per-connection:{fe}',
                          f'connection {c}: declared routes {expect_now} but the forwarder received {got}'))
            for x in s.face.commands:
                if x['conn'] == c:
                    v.extend(post_command_format(fe, x, 'register', x.get('prefix') or '/'))
    return _run(case, body)


# ---------------------------------------------------------------- codec round trips
CP_FIELDS = ('face_id', 'uri', 'local_uri', 'origin', 'cost', 'capacity', 'count', 'base_congestion_mark_interval',
             'default_congestion_threshold', 'mtu', 'flags', 'mask', 'expiration_period')
STR_FIELDS = ('uri', 'local_uri')


def _cp_values(spec):
    vals = {}
    for k, val in spec.items():
        if k == 'name' or k == 'strategy':
            vals[k] = Name.normalize(val)
        elif k == 'face_persistency':
            vals[k] = nfd_mgmt.FacePersistency(val)
        else:
            vals[k] = val
    return vals


def _same(field, got, want):
    if want is None:
        return got is None
    if field == 'name':
        return got is not None and Name.to_bytes(got) == Name.to_bytes(want)
    if field == 'strategy':
        return got is not None and got.name is not None and Name.to_bytes(got.name) == Name.to_bytes(want)
    if field == 'face_persistency':
        return got == want or got == want.value
    return got == want


def run_codec(case):
    v = []
    spec = case['fields']
    vals = _cp_values(spec)
    saved = ndn_utils.time

    class Fixed:
        @staticmethod
        def time():
            return BASE_S + 0.0425
    ndn_utils.time = Fixed
    try:
        if case['dir'] == 'command':
            class F:
                def __init__(self, local):
                    self.local = local

                def isLocalFace(self):
                    return self.local
            face = None if case['face'] == 'none' else F(case['face'] == 'local')
            for maker in ('make_command_v2', 'make_command'):
                try:
                    name = getattr(nfd_mgmt, maker)(case['module'], case['command'], face, **vals)
                except Exception as e:
                    v.append(('C17:make-command-raises', f'{maker} raised {type(e).__name__}: {e} @ {where(e)}'))
                    continue
                name = [bytes(c) for c in name]
                scope = 'localhop' if case['face'] == 'remote' else 'localhost'
                want_pre = [bytes(c) for c in Name.normalize(f"/{scope}/nfd/{case['module']}/{case['command']}")]
                if name[:4] != want_pre or len(name) != (5 if maker == 'make_command_v2' else 9):
                    v.append(('C17:make-command-roundtrip', f'{maker}: name is {Name.to_str(name)}'))
                    continue
                cp = nfd_mgmt.ControlParameters.parse(Component.get_value(name[4])).cp
                for f in nfd_mgmt.ControlParametersValue._encoded_fields:
                    if not _same(f.name, getattr(cp, f.name), vals.get(f.name)):
                        v.append(('C17:make-command-roundtrip', f'{maker}: field {f.name} decodes to {getattr(cp, f.name)!r}, encoded {vals.get(f.name)!r}'))
                if maker == 'make_command':
                    rec = {'name': name}
                    fmt = post_command_format('legacy', dict(rec, verb=case['command'], prefix='x'), case['command'], 'x')
                    v.extend(x for x in fmt if x[0] != 'C17:command-names-prefix')
                    ts = struct.unpack('!Q', bytes(Component.get_value(name[5])))[0]
                    if ts != int((BASE_S + 0.0425) * 1000):
                        v.append(('C17:make-command-roundtrip', f'timestamp component {ts} is not the clock reading'))
        else:
            r = nfd_mgmt.ControlResponse()
            r.status_code = case['status']
            r.status_text = case['text']
            if case['body']:
                r.body = nfd_mgmt.ControlParametersValue()
                for k, val in vals.items():
                    if k == 'strategy':
                        r.body.strategy = nfd_mgmt.Strategy()
                        r.body.strategy.name = val
                    else:
                        setattr(r.body, k, val)
            val_b = bytes(r.encode())
            hdr = bytes([0x65, len(val_b)]) if len(val_b) < 253 else b'\x65\xfd' + struct.pack('!H', len(val_b))
            try:
                d = nfd_mgmt.parse_response(hdr + val_b)
            except Exception as e:
                key = 'C17:parse-response-no-body' if (not case['body'] and isinstance(e, AttributeError)) else f'C17:parse-response-raises:{type(e).__name__}'
                return [(key, f'parse_response raised {type(e).__name__}: {e} @ {where(e)} for status {case["status"]} '
                              f'{"without" if not case["body"] else "with"} body')]
            if d.get('status_code') != case['status'] or d.get('status_text') != case['text']:
                v.append(('C17:parse-response-roundtrip', f"status {d.get('status_code')!r} {d.get('status_text')!r}, encoded {case['status']!r} {case['text']!r}"))
            for f in nfd_mgmt.ControlParametersValue._encoded_fields:
                want = vals.get(f.name) if case['body'] else None
                if not _same(f.name, d.get(f.name), want):
                    v.append(('C17:parse-response-roundtrip', f'field {f.name} decodes to {d.get(f.name)!r}, encoded {want!r}'))
    finally:
        ndn_utils.time = saved
    return v


# ---------------------------------------------------------------- status datasets: encode -> parse gives the fields back
DATASETS = ('GeneralStatus', 'FaceStatusMsg', 'FaceQueryFilter', 'RibStatus', 'FibStatus', 'StrategyChoiceMsg', 'CsInfo',
            'FaceEventNotification', 'ControlParameters', 'ControlResponse')


def _build_model(cls, rng, depth=0):
    from enum import Enum, Flag
    from ndn.encoding import UintField, BytesField, NameField, ModelField, RepeatedField
    m = cls()
    for f in cls._encoded_fields:
        if rng.random() < 0.25 and depth > 0:
            continue
        if isinstance(f, UintField):
            bt = f.val_base_type
            if isinstance(bt, type) and issubclass(bt, Flag):
                members = list(bt)
                val = bt(0)
                for mem in members:
                    if rng.random() < 0.5:
                        val |= mem
            elif isinstance(bt, type) and issubclass(bt, Enum):
                val = rng.choice(list(bt))
            else:
                val = rng.choice((0, 1, 255, 256, 65535, 65536, 2 ** 32 - 1, 2 ** 32, 2 ** 64 - 1, rng.randrange(2 ** 40)))
            setattr(m, f.name, val)
        elif isinstance(f, BytesField):
            setattr(m, f.name, rng.choice(('', 'udp4://192.0.2.1:6363', 'NFD 22.12-ü', 'x' * 260)) if f.is_string
                    else bytes(rng.randrange(256) for _ in range(rng.randrange(5))))
        elif isinstance(f, NameField):
            setattr(m, f.name, Name.normalize(rng.choice(PREFIXES + ('/localhost/nfd/strategy/best-route/v=5',))))
        elif isinstance(f, ModelField):
            setattr(m, f.name, _build_model(f.model_type, rng, depth + 1))
        elif isinstance(f, RepeatedField) and isinstance(f.element_type, ModelField):
            setattr(m, f.name, [_build_model(f.element_type.model_type, rng, depth + 1) for _ in range(rng.randrange(4))])
    return m


def _canon(m):
    from enum import Enum
    from ndn.encoding import TlvModel
    if isinstance(m, TlvModel):
        return {f.name: _canon(f.get_value(m)) for f in type(m)._encoded_fields}
    if isinstance(m, list):
        if m and isinstance(m[0], (bytes, bytearray, memoryview)):
            return ['name', Name.to_str(m)]
        return [_canon(x) for x in m]
    if isinstance(m, (bytes, bytearray, memoryview)):
        return bytes(m).hex()
    if isinstance(m, Enum):
        return m.value
    return m


def run_dataset(case):
    cls = getattr(nfd_mgmt, case['model'])
    m = _build_model(cls, random.Random(case['seed']))
    key = f"C17:status-dataset-roundtrip:{case['model']}"
    try:
        wire = bytes(m.encode())
        back = cls.parse(wire)
        again = bytes(back.encode())
    except Exception as e:
        return [(key, f'{case["model"]} (seed {case["seed"]}): encode/parse raised {type(e).__name__}: {e} @ {where(e)}')]
    a, b = _canon(m), _canon(back)
    if a != b:
        diff = [k for k in a if a[k] != b.get(k)]
        return [(key, f'{case["model"]} (seed {case["seed"]}): decoded fields differ from the encoded ones in {diff[:4]}: '
                      f'{[(k, a[k], b.get(k)) for k in diff[:2]]}')]
    if again != wire:
        return [(key, f'{case["model"]} (seed {case["seed"]}): re-encoding the decoded value gives different bytes')]
    return []


def run_case(case):
    if case['family'] == 'dataset':
        return run_dataset(case)
    return {'single': run_single, 'stubapp': run_stubapp, 'concurrent': run_concurrent, 'connect': run_connect,
            'codec': run_codec}[case['family']](case)


# ---------------------------------------------------------------- cases
def _rand_fields(rng, full=False):
    spec = {}
    if rng.random() < 0.85 or full:
        spec['name'] = rng.choice(PREFIXES + ('/x/y/z', '/ndn/edu/ucla/%FD%01'))
    for f in CP_FIELDS:
        if full or rng.random() < 0.35:
            if f in STR_FIELDS:
                spec[f] = rng.choice(('udp4://192.0.2.1:6363', 'unix:///run/nfd/nfd.sock', 'tcp6://[2001:db8::1]:6363', '', 'dev://eth0', 'fäce://ü'))
            else:
                spec[f] = rng.choice((0, 1, 255, 256, 65535, 65536, 2 ** 32 - 1, 2 ** 32, 2 ** 64 - 1, rng.randrange(2 ** 20)))
    if full or rng.random() < 0.3:
        spec['strategy'] = rng.choice(('/localhost/nfd/strategy/best-route/v=5', '/localhost/nfd/strategy/multicast'))
    if full or rng.random() < 0.3:
        spec['face_persistency'] = rng.choice((0, 1, 2))
    return spec


def cases(tier, rng):
    # 1. every reply x front-end x verb x prefix
    for fe in ('v2', 'legacy'):
        for op in ('register', 'unregister'):
            for reply in REPLIES:
                for prefix in (PREFIXES if tier != 'quick' or reply in ('ok', '404', 'timeout') else PREFIXES[:2]):
                    yield dict(family='single', fe=fe, op=op, prefix=prefix, reply=reply)
    for reply in ('ok', '404'):
        yield dict(family='single', fe='legacy', op='unregister', prefix='/no/handler', reply=reply, handler=False)
    for op in ('register', 'unregister'):
        for exc in ('InterestNack', 'InterestTimeout', 'InterestCanceled', 'ValidationFailure'):
            yield dict(family='stubapp', op=op, exc=exc)
    # 2. concurrent calls at the same clock reading
    sizes = (2, 3, 5, 8) if tier == 'quick' else (2, 3, 4, 5, 8, 12, 16)
    for fe in ('v2', 'legacy'):
        for n in sizes:
            for mix in ('register', 'unregister', 'mixed'):
                clocks = list(CLOCKS) + [[rng.choice((0, 0, 0, 0, 1)) for _ in range(rng.choice((7, 11, 13)))] for _ in range(4 if tier == 'quick' else 40)]
                for clock in clocks:
                    for delay in (0, 0.2, 5):
                        for rmode in ('ok', 'varied'):
                            ops = [mix if mix != 'mixed' else ('register', 'unregister')[i % 2] for i in range(n)]
                            if rmode == 'ok':
                                reps = ['ok'] * n
                            else:
                                pool = ('ok', '400', '404', 'nack-150', 'timeout', 'ok-text', '409')
                                reps = [pool[(i * 3 + n) % len(pool)] for i in range(n)]
                            yield dict(family='concurrent', fe=fe, ops=ops, clock=clock, delay=delay, replies=reps)
    # 2b. one of the queued callers gives up while the first command is still unanswered: the rest still go one at a time
    for fe in ('v2', 'legacy'):
        for n in (3, 4, 6) if tier == 'quick' else (3, 4, 5, 6, 9, 12):
            for mix in ('register', 'unregister', 'mixed', 'mixed2'):
                for cancel in sorted({1, 2, n - 1}):
                    for delay in (0.2, 5):
                        ops = [mix if not mix.startswith('mixed') else ('register', 'unregister')[(i + (mix == 'mixed2')) % 2] for i in range(n)]
                        for reps in (['ok'] * n, ['timeout'] + ['ok'] * (n - 1)):
                            yield dict(family='concurrent', fe=fe, ops=ops, clock='virtual', delay=delay, replies=reps, cancel=cancel)
    # 3. routes declared before / while connected, two connections
    outcomes = ('ok', '400', 'nack-150', 'timeout')
    for fe in ('v2', 'legacy'):
        for nb in range(0, 4):
            for nd in range(0, 2):
                if nb + nd == 0:
                    continue
                for o in range(len(outcomes)):
                    before = [f'/r/b{i}' for i in range(nb)]
                    during = [f'/r/d{i}' for i in range(nd)]
                    replies = {p: outcomes[(o + i) % len(outcomes)] for i, p in enumerate(before + during)}
                    for conns in (1, 2, 3) if tier != 'quick' else (2,):
                        yield dict(family='connect', fe=fe, before=before, during=during, connections=conns, replies=replies)
    # 3b. declared routes that are prefixes of one another, in both declaration orders (each is still owed its own command)
    nested_sets = (['/n', '/n/a'], ['/n/a', '/n'], ['/n/a/b/c', '/n/a', '/m'], ['/', '/n'], ['/n/x', '/n/y', '/n'])
    for fe in ('v2', 'legacy'):
        for before in nested_sets:
            for o in (0, 1):
                replies = {p: outcomes[(o * (i + 1)) % len(outcomes)] for i, p in enumerate(before)}
                for conns in (1, 2, 3) if tier != 'quick' else (2,):
                    yield dict(family='connect', fe=fe, before=list(before), during=[], connections=conns, replies=replies)
                    yield dict(family='connect', fe=fe, before=list(before[:-1]), during=[before[-1]], connections=conns, replies=replies)
    # 4. codec round trips
    n_codec = 400 if tier == 'quick' else 40000
    verbs = (('rib', 'register'), ('rib', 'unregister'), ('faces', 'create'), ('strategy-choice', 'set'), ('cs', 'config'))
    for i in range(n_codec):
        module, command = verbs[i % len(verbs)]
        yield dict(family='codec', dir='command', module=module, command=command, face=('none', 'local', 'remote')[i % 3],
                   fields=_rand_fields(rng, full=(i % 25 == 0)))
    for i in range(n_codec):
        yield dict(family='codec', dir='response', status=rng.choice((200, 400, 403, 404, 409, 500, 503, 0, 65536)),
                   text=rng.choice(('OK', 'Unauthorized', '', 'Route → added', 'x' * 300)), body=(i % 4 != 0),
                   fields=_rand_fields(rng, full=(i % 25 == 0)))


def all_cases(tier, rng):
    yield from cases(tier, rng)
    for i in range(300 if tier == 'quick' else 20000):
        yield dict(family='dataset', model=DATASETS[i % len(DATASETS)], seed=rng.randrange(2 ** 31))


def run(tier='quick', seed=0, shard=(0, 1)):
    rng = random.Random(seed * 1000)
    return drive(MODULE, all_cases(tier, rng), run_case, shard,
                 rule='simulated forwarder: (front-end x verb x prefix x 20 replies) + 4 documented failures on a stub application + '
                      'concurrent calls (size x verb mix x 6 fixed + random clock scripts x reply delay x reply mix) + auto-registration (routes declared '
                      'before/while connected x outcomes x connections) + random control-parameter / response / status-dataset round trips; '
                      'distinct by the case tuple, all cases non-trivial',
                 bound='<= 16 concurrent calls, <= 4 routes, <= 3 connections, one forwarder, virtual clock; replies limited to the 20 listed kinds',
                 exhaustive=False)


def replay(rec):
    return replay_with(run_case, rec)
