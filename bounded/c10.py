"""C10 - link-layer envelopes are transparent: wrapped packets, Nack, unknown headers, fragmentation, PIT token.

Contracts (from the property statement), both front-ends unless noted:

  post_transparent  for a network packet X and an envelope E(X) = LpPacket{ignorable / unused headers..., Fragment X}:
                    everything observable after `_receive(0x64, E(X))` equals what is observable after
                    `_receive(type(X), X)` from the same state: handler invocations (handler, name, parameters, application
                    parameters, raw packet, signature pointers, deadline), outcome of every pending Interest, bytes handed
                    to the face, escaping exception class, background errors.
  post_nack         E = LpPacket{Nack{reason r}, Fragment I}: every pending Interest whose name equals the name of I ends
                    with InterestNack whose reason == r (0 .. 2^64-1, any NonNegativeInteger width); all other pending
                    Interests stay pending and still complete with their Data; no handler runs; nothing is sent.
                    A Nack header without a reason code (NDNLPv2: reason "None") must still be treated as a Nack: the
                    Interest inside is not dispatched to a handler and the named pending Interest ends with InterestNack.
  post_fragmented   an envelope with FragIndex / FragCount of a multi-fragment packet is rejected: no handler, no pending
                    Interest completed, nothing sent, no error.
  post_token        (appv2) Interests arriving in envelopes with PIT tokens t_i (len 0,1,8,32,33) or bare; replies issued
                    in any order, possibly several per Interest: the k-th send() on the face is exactly
                    LpPacket{PitToken == t_i, Fragment == reply bytes} (those two elements, each once, bytes identical)
                    for a tokened Interest and exactly the reply bytes for a bare one.
"""
import asyncio
import itertools
import random

from ndn import types as ndn_types

from . import _recv as R
from . import c06 as _c06

MODULE = 'bounded.c10'
RULE = ('transparent case = (front-end, network packet = a corpus packet of 14 kinds or a sampled mutation of one, header '
        'set of the envelope); nack case = (front-end, reason, NonNegativeInteger width, named Interest, extra headers, '
        'same-wire/re-encoded Interest); fragmented case = (front-end, packet, FragIndex, FragCount, Sequence present); '
        'token case = (3-4 Interests with tokens from {none, len 0,1,8,32,33}, reply order permutation, replies per '
        'Interest, reply size/buffer kind); distinct = hash of the parameters; every case is non-trivial except a '
        'transparent case with an unparseable packet')
BOUND = ('14 network packet kinds + every 9th (quick) / every (thorough) single-edit mutation of them x 9 header sets; '
         '13 reason codes incl. 0, 2^32, 2^64-1 x widths x 5 named Interests; 3 Interests in all 6 orders (4 in all 24 in '
         'thorough) over all ordered token choices; reply sizes 7..70000 bytes')

P, Q, Rr = R.comp('p'), R.comp('q'), R.comp('r')
ZZ = [R.comp('zz'), R.comp('other')]

# headers that an application end-point does not interpret: recognised-but-unused ones and unknown ignorable ones
# (NDNLPv2: unknown header types in [800, 959] whose two low bits are 00 are ignored)
H_INFACE = (0x032c, b'\x01\x00')
H_NEXTHOP = (0x0330, b'\x07')
H_CACHE = (0x0334, R.tlv(0x0335, b'\x01'))
H_CONG = (0x0340, b'\x01')
H_TXSEQ = (0x0348, b'\x00' * 8)
H_NONDISC = (0x034c, b'')
H_PREFANN = (0x0350, R.data_wire([R.comp('ann')], b''))
H_UNK1 = (0x0354, b'\xaa\xbb')        # 852: unassigned, ignorable
H_UNK2 = (0x03bc, b'')                # 956: unassigned, ignorable
H_TOKEN = (R.LP_PIT_TOKEN, b'\x09\x08\x07\x06')
# unknown headers with an ODD Type: the statement says unknown envelope headers are ignored and makes no exception for them
# (the library reads envelopes with the critical-bit rule switched off)
H_UNK_ODD1 = (0x0323, b'\x01')
H_UNK_ODD2 = (0x63, b'')
HEADER_SETS = [
    [], [H_INFACE], [H_CONG], [H_UNK1], [H_UNK2, H_UNK1], [H_CACHE, H_NONDISC], [H_UNK_ODD1], [H_UNK_ODD2, H_CONG, H_UNK_ODD1],
    [H_INFACE, H_NEXTHOP, H_CACHE, H_CONG, H_TXSEQ, H_NONDISC, H_PREFANN, H_UNK1, H_UNK2],
    [H_TXSEQ, H_PREFANN], [H_TOKEN],
]


def exc_view(t):
    if t.cancelled():
        return ('cancelled',)
    e = t.exception()
    if e is None:
        return None
    return (type(e).__name__, getattr(e, 'reason', None))


def sig_view(s):
    if s is None:
        return None

    def b(x):
        return None if x is None else bytes(x)
    return (s.signature_info is not None, b(s.signature_value_buf),
            None if s.signature_covered_part is None else b''.join(bytes(x) for x in s.signature_covered_part),
            b(getattr(s, 'digest_value_buf', None)),
            None if getattr(s, 'digest_covered_part', None) is None else b''.join(bytes(x) for x in s.digest_covered_part))


def call_view(c, with_token=True):
    ctx = c.ctx or {}
    return (c.hid, c.name_bytes(), None if c.app_param is None else bytes(c.app_param),
            None if ctx.get('raw_packet') is None else bytes(ctx['raw_packet']), sig_view(ctx.get('sig_ptrs')),
            ctx.get('deadline'), repr(c.param),
            (None if ctx.get('pit_token') is None else bytes(ctx['pit_token'])) if with_token else None)


class Scene:
    """a front-end with handlers on /p and /p/q/r and pending Interests /p/q (x2), /p (CanBePrefix), /p/q/r, /zz/other"""
    PENDING = [('pq', [P, Q], {}), ('pq2', [P, Q], {'can_be_prefix': True, 'must_be_fresh': True}),
               ('p*', [P], {'can_be_prefix': True}), ('pqr', [P, Q, Rr], {}), ('zz', ZZ, {})]

    def __init__(self, fe_tag, case, reply_data=None):
        self.fe = R.FRONTENDS[fe_tag]()
        self.case = case
        self.pend = {}
        self.sent_interest = {}
        self.reply_data = reply_data

    async def setup(self):
        fe = self.fe
        fe.attach(R.name_wire([P]), 1)
        fe.attach(R.name_wire([P, Q, Rr]), 2)
        for i, (key, comps, kw) in enumerate(self.PENDING):
            n0 = len(fe.face.sent)
            self.pend[key] = self.case.spawn(fe.express(R.name_wire(comps), lifetime=4000, nonce=0x100 + i, **kw))
            await asyncio.sleep(0)
            self.sent_interest[key] = fe.face.sent[n0]
        fe.face.sent.clear()

    async def observe(self):
        """drain and snapshot everything observable"""
        await self.case.settle()
        fe = self.fe
        if self.reply_data is not None:
            for c in list(fe.log):
                if c.reply is not None:
                    c.reply(self.reply_data)
        pend = {}
        for k, t in self.pend.items():
            if not t.done():
                pend[k] = 'pending'
            else:
                ev = exc_view(t)
                pend[k] = ('exc',) + ev if ev else ('result', fe.result_view(t.result()))
        return {'calls': [call_view(c) for c in fe.log], 'pending': pend, 'sent': list(fe.face.sent),
                'background': [b[:2] for b in self.case.collect()], 'running': fe.face.running}

    async def finish(self):
        for t in self.pend.values():
            if not t.done():
                t.cancel()
        await asyncio.gather(*self.pend.values(), return_exceptions=True)
        self.case.background_errors.clear()


def run_scene(fe_tag, typ, wire, reply_data=None):
    """fresh loop + fresh scene; deliver one packet; return the observation (plus escaping exception class)"""
    obs = {}

    async def main(case):
        sc = Scene(fe_tag, case, reply_data)
        await sc.setup()
        try:
            await sc.fe.app._receive(typ, wire)
            obs['escaped'] = None
        except Exception as e:
            obs['escaped'] = R.exc_name(e)
        obs.update(await sc.observe())
        await sc.finish()

    case = R.CaseLoop()
    with R.FakeClock():
        case.run(main)
    return obs


def diff_obs(a, b):
    for k in ('escaped', 'calls', 'pending', 'sent', 'background', 'running'):
        if a.get(k) != b.get(k):
            return k
    return None


def brief(o):
    return {'escaped': o.get('escaped'), 'handlers': [c[0] for c in o.get('calls', [])],
            'pending': {k: (v if isinstance(v, str) else v[:2] if v[0] == 'exc' else 'result')
                        for k, v in o.get('pending', {}).items()},
            'sent': [s.hex()[:40] for s in o.get('sent', [])], 'background': o.get('background')}


# ---------------------------------------------------------------------------------------------------------------
def run_transparent(inp):
    """inp: {'fe', 'pkt': hex, 'headers': [[type, hex], ...]}"""
    fe_tag, pkt = inp['fe'], bytes.fromhex(inp['pkt'])
    headers = [(t, bytes.fromhex(v)) for t, v in inp['headers']]
    typ = R.outer_type(pkt)
    reply = R.data_wire([P, Q, R.comp('reply')], b'r') if fe_tag == 'v2' else None
    try:
        bare = run_scene(fe_tag, typ, pkt, reply)
        wrapped = run_scene(fe_tag, R.LP, R.lp_wire(pkt, headers), reply)
    except Exception as e:
        return [('C10:%s:harness:%s' % (fe_tag, R.exc_name(e)), '%s (%s) at %s' % (R.exc_name(e), e, R.where(e)))]
    has_token = any(t == R.LP_PIT_TOKEN for t, _ in headers)
    if has_token and fe_tag == 'v2':
        # the token is visible to the handler and the reply is enveloped; everything else must be identical
        tok = dict(headers)[R.LP_PIT_TOKEN]
        wrapped = dict(wrapped)
        for c in wrapped['calls']:
            if c[-1] != tok:
                return [('C10:v2:pit-token-context', 'handler context carries token %r, envelope had %s' % (c[-1], tok.hex()))]
        wrapped['calls'] = [c[:-1] + (None,) for c in wrapped['calls']]
        unwrapped = []
        for s in wrapped['sent']:
            w = R.walk(s)
            inner = R.walk(w[0][1]) if w and len(w) == 1 and w[0][0] == R.LP else None
            if inner and [x[0] for x in inner] == [R.LP_PIT_TOKEN, R.LP_FRAGMENT] and inner[0][1] == tok:
                unwrapped.append(inner[1][1])
            else:
                unwrapped.append(s)
        wrapped['sent'] = unwrapped
    d = diff_obs(bare, wrapped)
    if d is None:
        return []
    kind = 'wrapped-with-token-vs-bare' if has_token else 'unknown-header-not-ignored' if headers else 'wrapped-vs-bare'
    return [('C10:%s:%s:%s' % (fe_tag, kind, d),
             'packet %s: bare -> %s ; in envelope with headers %s -> %s' % (
                 pkt.hex()[:80], brief(bare), [hex(t) for t, _ in headers], brief(wrapped)))]


def run_fragmented(inp):
    """inp: {'fe', 'pkt': hex, 'index': int|None, 'count': int|None, 'seq': bool}"""
    fe_tag, pkt = inp['fe'], bytes.fromhex(inp['pkt'])
    headers = []
    if inp.get('seq'):
        headers.append((R.LP_SEQUENCE, (7).to_bytes(8, 'big')))
    if inp['index'] is not None:
        headers.append((R.LP_FRAG_INDEX, R.nni(inp['index'])))
    if inp['count'] is not None:
        headers.append((R.LP_FRAG_COUNT, R.nni(inp['count'])))
    try:
        o = run_scene(fe_tag, R.LP, R.lp_wire(pkt, headers), None)
    except Exception as e:
        return [('C10:%s:harness:%s' % (fe_tag, R.exc_name(e)), '%s (%s) at %s' % (R.exc_name(e), e, R.where(e)))]
    bad = []
    if o['escaped']:
        bad.append('exception %s escaped' % o['escaped'])
    if o['calls']:
        bad.append('handlers %s invoked' % [c[0] for c in o['calls']])
    if any(v != 'pending' for v in o['pending'].values()):
        bad.append('pending Interests completed: %s' % {k: v[:2] for k, v in o['pending'].items() if v != 'pending'})
    if o['sent']:
        bad.append('%d packets sent' % len(o['sent']))
    if o['background']:
        bad.append('background errors %s' % o['background'])
    if bad:
        return [('C10:%s:fragmented-not-rejected' % fe_tag, 'fragment (index=%s, count=%s) of %s: %s' % (
            inp['index'], inp['count'], pkt.hex()[:60], '; '.join(bad)))]
    return []


# ---------------------------------------------------------------------------------------------------------------
def run_nack(inp):
    """inp: {'fe', 'reason': int|None, 'width': int|None, 'target': key of Scene.PENDING | 'none' | 'digest',
            'reencode': bool, 'headers': [[t, hex]...]}"""
    fe_tag, reason, width, target = inp['fe'], inp['reason'], inp.get('width'), inp['target']
    headers = [(t, bytes.fromhex(v)) for t, v in inp.get('headers', [])]
    out = []

    def viol(key, what):
        out.append(('C10:%s:%s' % (fe_tag, key), what))

    async def main(case):
        sc = Scene(fe_tag, case)
        await sc.setup()
        fe = sc.fe
        names = {k: comps for k, comps, _ in Scene.PENDING}
        if target == 'none':
            tcomps = [P, R.comp('nobody')]
            iw = R.interest_wire(tcomps, nonce=0x77, lifetime=4000)
        elif target == 'digest':
            # an Interest carrying an implicit digest component
            dw = R.data_wire([P, R.comp('dg')], b'with-digest')
            import hashlib
            tcomps = [P, R.comp('dg'), R.tlv(1, hashlib.sha256(dw).digest())]
            n0 = len(fe.face.sent)
            sc.pend['dg'] = case.spawn(fe.express(R.name_wire(tcomps), lifetime=4000, nonce=0x55))
            await asyncio.sleep(0)
            iw = fe.face.sent[n0]
            # a second Interest outstanding under the SAME name without the digest: the Nack does not name it
            sc.pend['dg-plain'] = case.spawn(fe.express(R.name_wire([P, R.comp('dg')]), lifetime=4000, nonce=0x56))
            await asyncio.sleep(0)
            fe.face.sent.clear()
            names['dg'] = tcomps
            names['dg-plain'] = [P, R.comp('dg')]
        else:
            tcomps = names[target]
            iw = sc.sent_interest[target]
        if inp.get('reencode'):
            iw = R.interest_wire(tcomps, nonce=0x4242, lifetime=1234)
        wire = R.lp_wire(iw, headers + [R.nack_header(reason, width)])
        gave_up = None
        if inp.get('overlap') and target in sc.pend:
            # a second Interest with the SAME name is outstanding, and the caller of the first one gives up in the very loop
            # turn in which the Nack is delivered: the Nack still completes the other one with its reason
            sc.pend['dup'] = case.spawn(fe.express(R.name_wire(tcomps), lifetime=4000, nonce=0x99))
            await asyncio.sleep(0)
            fe.face.sent.clear()
            names['dup'] = tcomps
            gave_up = target
            sc.pend[target].cancel()
        try:
            await fe.app._receive(R.LP, wire)
        except Exception as e:
            viol('nack-exception:%s' % R.exc_name(e), 'Nack %s raised %s (%s) at %s' % (wire.hex()[:80], R.exc_name(e), e, R.where(e)))
        await case.settle()
        desc = 'Nack(reason=%s%s) naming %s' % (reason, '' if width is None else ' in %d bytes' % width, R.name_uri(tcomps)
                                                 if target != 'digest' else '/p/dg/<implicit digest>')
        named = {k for k, comps in names.items() if comps == tcomps and k in sc.pend and k != gave_up}
        if gave_up is not None:
            sc.pend = {k: t for k, t in sc.pend.items() if k != gave_up}
        if reason is None:
            # one defect, one key: a Nack header without NackReason must still be a Nack (NDNLPv2: reason "None")
            sym = []
            if fe.log:
                sym.append('the Interest inside was handed to handler %s as an incoming Interest' % [c.hid for c in fe.log])
            for k in sorted(named):
                t = sc.pend[k]
                ev = exc_view(t) if t.done() else None
                if not t.done():
                    sym.append('pending Interest %s is still pending' % k)
                elif ev is None or ev[0] != 'InterestNack' or ev[1] not in (None, 0):
                    sym.append('pending Interest %s ended with %s' % (k, ev or 'a result'))
            for k, t in sc.pend.items():
                if k not in named and t.done():
                    sym.append('pending Interest %s (not named) was completed' % k)
            if fe.face.sent:
                sym.append('%d packets sent' % len(fe.face.sent))
            if sym:
                viol('nack-without-reason-not-treated-as-nack', desc + ': ' + '; '.join(sym))
        else:
            if fe.log:
                viol('nack-dispatched-as-interest', desc + ': the Interest inside the Nack was handed to handler %s' % (
                    [c.hid for c in fe.log]))
            if fe.face.sent:
                viol('nack-sent-something', desc + ': %d packets sent' % len(fe.face.sent))
            for k, t in sc.pend.items():
                if k in named:
                    if not t.done():
                        viol('nack-not-delivered' + ('-implicit-digest' if target == 'digest' else ''),
                             desc + ': pending Interest %s is still pending' % k)
                        continue
                    ev = exc_view(t)
                    if ev is None or ev[0] != 'InterestNack':
                        viol('nack-wrong-outcome', desc + ': pending Interest %s ended with %s' % (k, ev or 'a result'))
                    elif ev[1] != reason or isinstance(ev[1], bool) or not isinstance(ev[1], int):
                        viol('nack-reason', desc + ': pending Interest %s got reason %r' % (k, ev[1]))
                elif t.done():
                    viol('nack-completed-other', desc + ': pending Interest %s (not named) was completed with %s' % (
                        k, exc_view(t) or 'a result'))
        for be in case.collect():
            viol('nack-background:%s' % be[0], desc + ': background error %s at %s: %s' % be)
        case.background_errors.clear()
        # the others still complete with their Data
        if target == 'digest' and 'dg-plain' in sc.pend and not sc.pend['dg-plain'].done():
            await fe.app._receive(R.LP, R.lp_wire(dw, []))
            await case.settle()
            t = sc.pend['dg-plain']
            if not t.done() or exc_view(t) is not None or fe.result_view(t.result())[1] != b'with-digest':
                viol('nack-damaged-other', desc + ': afterwards the Interest for the same name WITHOUT the digest did not '
                                                  'complete with its (wrapped) Data')
        if 'zz' in sc.pend and 'zz' not in named and not sc.pend['zz'].done():
            await fe.app._receive(6, R.data_wire(ZZ, b'zz-content'))
            await case.settle()
            t = sc.pend['zz']
            if not t.done() or exc_view(t) is not None or fe.result_view(t.result())[1] != b'zz-content':
                viol('nack-damaged-other', desc + ': afterwards /zz/other did not complete with its Data')
        await sc.finish()

    case = R.CaseLoop()
    try:
        case.run(main)
    except Exception as e:
        viol('harness:%s' % R.exc_name(e), '%s (%s) at %s' % (R.exc_name(e), e, R.where(e)))
    for be in case.background_errors:
        viol('nack-background:%s' % be[0], 'background error %s at %s: %s' % be)
    return out


# ---------------------------------------------------------------------------------------------------------------
def check_envelope(sent, token, data):
    """None or a description of how `sent` differs from LpPacket{PitToken token, Fragment data}"""
    w = R.walk(sent)
    if w is None or len(w) != 1 or w[0][0] != R.LP:
        return 'not a single LpPacket: %s' % sent.hex()[:60]
    inner = R.walk(w[0][1])
    if inner is None:
        return 'LpPacket value is not a TLV sequence: %s' % sent.hex()[:60]
    types = sorted(x[0] for x in inner)
    if types != [R.LP_FRAGMENT, R.LP_PIT_TOKEN]:
        return 'LpPacket carries element types %s, expected exactly one PitToken and one Fragment' % [hex(t) for t in types]
    d = {x[0]: x[1] for x in inner}
    if d[R.LP_PIT_TOKEN] != token:
        return 'token %s instead of %s' % (d[R.LP_PIT_TOKEN].hex(), token.hex())
    if d[R.LP_FRAGMENT] != data:
        return 'fragment differs from the reply bytes (%d vs %d bytes, first %s vs %s)' % (
            len(d[R.LP_FRAGMENT]), len(data), d[R.LP_FRAGMENT][:8].hex(), data[:8].hex())
    if inner[-1][0] != R.LP_FRAGMENT:
        return 'Fragment is not the last element'
    return None


def run_token(inp):
    """inp: {'tokens': [hex|None, ...], 'order': [...indices, may repeat for several replies], 'data_len': int,
            'kind': 0|1|2, 'raw': bool (reply bytes are not a Data packet)}"""
    tokens = [None if t is None else bytes.fromhex(t) for t in inp['tokens']]
    order = inp['order']
    out = []

    def viol(key, what):
        out.append(('C10:v2:' + key, what))

    async def main(case):
        fe = R.V2()
        fe.attach('/tk', 1)
        comps = [[R.comp('tk'), R.comp('i%d' % i)] for i in range(len(tokens))]
        for i, tok in enumerate(tokens):
            iw = R.interest_wire(comps[i], nonce=0x900 + i, lifetime=4000)
            if tok is None:
                await fe.app._receive(5, iw)
            else:
                await fe.app._receive(R.LP, R.lp_wire(iw, [(R.LP_PIT_TOKEN, tok)]))
        await case.settle()
        t_arrival = clock.now_ms
        by_name = {c.name_bytes(): c for c in fe.log}
        if len(fe.log) != len(tokens) or len(by_name) != len(tokens):
            viol('token-setup', 'handler invoked %d times for %d Interests' % (len(fe.log), len(tokens)))
            return
        for i, tok in enumerate(tokens):
            got = by_name[tuple(comps[i])].ctx.get('pit_token')
            got = None if got is None else bytes(got)
            if got != tok:
                viol('pit-token-context', 'Interest %d arrived with token %s, handler context has %r' % (
                    i, None if tok is None else tok.hex(), got))
        expected = []
        for k, i in enumerate(order):
            n = inp['data_len']
            if inp.get('raw'):
                data = bytes((k * 31 + j) & 0xff for j in range(n))
            else:
                data = R.data_wire(comps[i] + [R.comp('v%d' % k)], bytes([0x41 + k]) * max(0, n - 60))
            arg = [data, bytearray(data), memoryview(data)][inp.get('kind', 0)]
            n0 = len(fe.face.sent)
            late = inp.get('late_from') is not None and k >= inp['late_from']
            if late and clock.now_ms < t_arrival + 4000:
                clock.now_ms = t_arrival + 4000 + 1000          # the producer answers after the Interests' lifetime ran out
            ret = by_name[tuple(comps[i])].reply(arg)
            sent = fe.face.sent[n0:]
            desc = 'tokens=%s order=%s reply#%d (to Interest %d, %d bytes)' % (
                [t if t is None or len(t) <= 20 else '%s..(%d octets)' % (t[:8], len(t) // 2) for t in inp['tokens']], order, k, i, len(data))
            if late:
                # nothing is owed to an Interest whose lifetime ran out - and whatever is sent to one that came with a token has
                # to carry the token (a bare packet in its place is not "the reply in an envelope with that token")
                if sent and (tokens[i] is not None and (len(sent) != 1 or check_envelope(sent[0], tokens[i], data))):
                    viol('late-reply-sent-without-its-token', desc + ': after the lifetime the face got %s.. (%d bytes) for an Interest '
                         'that came with token %s' % (sent[0][:12].hex(), len(sent[0]), tokens[i].hex()[:16]))
                if bool(ret) != bool(sent):
                    viol('reply-return', desc + ': late reply: %d packet(s) sent, returned %r' % (len(sent), ret))
                continue
            if len(sent) != 1:
                viol('reply-send-count', desc + ': %d send() calls' % len(sent))
                continue
            if not ret:
                viol('reply-return', desc + ': sent but returned %r' % (ret,))
            if tokens[i] is None:
                if sent[0] != data:
                    viol('reply-without-token-not-bare', desc + ': face got %s.. (%d bytes), expected the bare reply bytes' % (
                        sent[0][:16].hex(), len(sent[0])))
            else:
                why = check_envelope(sent[0], tokens[i], data)
                if why:
                    viol('pit-token-reply-envelope', desc + ': ' + why)

    case = R.CaseLoop()
    clock = R.FakeClock()
    try:
        with clock:
            case.run(main)
    except Exception as e:
        viol('token-exception:%s' % R.exc_name(e), '%s (%s) at %s' % (R.exc_name(e), e, R.where(e)))
    for be in case.background_errors:
        viol('token-background:%s' % be[0], 'background error %s at %s: %s' % be)
    return out


# ---------------------------------------------------------------------------------------------------------------
def network_packets(tier, seed):
    rng = random.Random(seed * 611953 + 10)
    base = [(l, w) for l, w in _c06.corpus() if not l.startswith('lp-')]
    base += [('data-under-prefix', R.data_wire([P, Q, Rr, R.comp('s')], b'deep', freshness=10)),
             ('data-p', R.data_wire([P], b'short')),
             ('interest-pqr', R.interest_wire([P, Q, Rr, R.comp('x')], lifetime=50, app_param=b'ap')),
             ('interest-zz', R.interest_wire(ZZ, lifetime=50))]
    out, seen = [], set()
    step = 1 if tier == 'thorough' else 9
    for label, w in base:
        muts = list(_c06.mutations(label, w, 'quick', rng))
        for j, (ml, mw) in enumerate(muts):
            if j != 0 and (j % step) != (len(out) % step):
                continue
            if not mw or R.outer_type(mw) is None or R.outer_type(mw) == R.LP:
                continue
            hh = R.h(mw)
            if hh in seen:
                continue
            seen.add(hh)
            out.append((ml, mw))
    return out


TOKENS = [None, '', 'a1', '0102030405060708', 'b2' * 32, 'c3' * 33]
REASONS = [0, 1, 50, 100, 150, 255, 256, 65535, 65536, (1 << 32) - 1, 1 << 32, (1 << 63) + 5, (1 << 64) - 1]


def gen_cases(tier, seed):
    rng = random.Random(seed * 32452843 + 10)
    cases = []
    pk = network_packets(tier, seed)
    for j, (ml, mw) in enumerate(pk):
        orig = ml.endswith(':orig')
        for fe in ('v2', 'v1'):
            hs = range(len(HEADER_SETS)) if (orig or tier == 'thorough') else [0, 1 + (j % (len(HEADER_SETS) - 1))]
            for hi in hs:
                cases.append(('transparent', {'fe': fe, 'pkt': mw.hex(), 'label': ml,
                                              'headers': [[t, v.hex()] for t, v in HEADER_SETS[hi]]}))
    origs = [(ml, mw) for ml, mw in pk if ml.endswith(':orig')]
    for ml, mw in origs:
        for fe in ('v2', 'v1'):
            for idx, cnt in [(0, 2), (1, 2), (None, 2), (1, None), (0, 0x10000), (3, 4), (255, 256)]:
                for seq in (False, True):
                    cases.append(('fragmented', {'fe': fe, 'pkt': mw.hex(), 'index': idx, 'count': cnt, 'seq': seq}))
    for fe in ('v2', 'v1'):
        for target in ('pq', 'pqr', 'zz'):
            for r in (0, 100, 150):
                cases.append(('nack', {'fe': fe, 'reason': r, 'width': None, 'target': target, 'reencode': False, 'headers': [],
                                       'overlap': True}))
    for fe in ('v2', 'v1'):
        for target in ('pq', 'p*', 'pqr', 'zz', 'none', 'digest'):
            for r in REASONS:
                widths = [None] + [w for w in (2, 4, 8) if r < (1 << (8 * w)) and R.nni(r) != r.to_bytes(w, 'big')]
                if tier != 'thorough':
                    widths = widths[:1] + widths[-1:] if len(widths) > 1 else widths
                for w in widths:
                    for reenc in (False, True):
                        for hs in ([], [H_CONG, H_UNK1], [H_TOKEN]):
                            if hs and (tier != 'thorough' and (r % 3 != 0)):
                                continue
                            cases.append(('nack', {'fe': fe, 'reason': r, 'width': w, 'target': target, 'reencode': reenc,
                                                   'headers': [[t, v.hex()] for t, v in hs]}))
            for reenc in (False, True):
                cases.append(('nack', {'fe': fe, 'reason': None, 'width': None, 'target': target, 'reencode': reenc,
                                       'headers': []}))
    # PIT tokens
    k = 3
    for toks in itertools.permutations(TOKENS, k):
        for oi, order in enumerate(itertools.permutations(range(k))):
            cases.append(('token', {'tokens': list(toks), 'order': list(order), 'data_len': 70 + 37 * oi, 'kind': oi % 3,
                                    'raw': False}))
    for toks in (itertools.permutations(TOKENS, 4) if tier == 'thorough' else [rng.sample(TOKENS, 4) for _ in range(6)]):
        for order in itertools.permutations(range(4)):
            cases.append(('token', {'tokens': list(toks), 'order': list(order), 'data_len': 64, 'kind': 0, 'raw': False}))
    for toks in itertools.combinations(TOKENS, 3):
        for order in ([0, 0, 1, 2, 1, 0], [2, 1, 0, 0, 1, 2], [1, 1, 1]):
            for n, raw in ((7, True), (252, True), (253, True), (300, False), (70000, False), (65536, True), (0, True)):
                cases.append(('token', {'tokens': list(toks), 'order': order, 'data_len': n, 'kind': (n + len(order)) % 3,
                                        'raw': raw}))
    # tokens whose Length needs the 3-octet form (the library sets no upper limit on the token)
    for n in (252, 253, 254, 300, 1000):
        long_tok = ''.join('%02x' % ((j * 7 + n) & 0xff) for j in range(n))
        for order in ([0, 1, 2], [2, 0, 1, 0]):
            cases.append(('token', {'tokens': [long_tok, None, '0102'], 'order': order, 'data_len': 90, 'kind': n % 3, 'raw': False}))
    # replies given after the lifetime of the Interests ran out (some in time first, then late ones)
    for toks in itertools.permutations(TOKENS, 3) if tier == 'thorough' else list(itertools.permutations(TOKENS, 3))[::5]:
        for order, late_from in (([0, 1, 2], 0), ([0, 1, 2, 0, 1, 2], 3), ([2, 1, 0, 0], 1)):
            cases.append(('token', {'tokens': list(toks), 'order': order, 'data_len': 80, 'kind': 0, 'raw': False, 'late_from': late_from}))
    return cases


RUNNERS = {'transparent': run_transparent, 'fragmented': run_fragmented, 'nack': run_nack, 'token': run_token}


def run(tier: str, seed: int, shard):
    k, n = shard
    cases = gen_cases(tier, seed)
    V = R.Violations(MODULE)
    seen = set()
    ev = 0
    samples = []
    for i, (fam, inp) in enumerate(cases):
        if i % n != k:
            continue
        res = RUNNERS[fam](inp)
        ev += 1
        trivial = fam == 'transparent' and R.walk(bytes.fromhex(inp['pkt'])) is None
        if not trivial:
            seen.add(R.h(fam, sorted((kk, vv) for kk, vv in inp.items() if kk != 'label')))
        if len(samples) < 6 and i % 1013 < n:
            samples.append({'family': fam, **inp})
        for key, what in res:
            V.add(key, what, {'family': fam, **inp}, size=len(str(inp)))
    return {'evaluations': ev, 'distinct_nontrivial': len(seen), 'rule': RULE, 'bound': BOUND,
            'exhaustive': False, 'samples': samples, 'violations': V.out()}


def replay(rec):
    inp = dict(rec['input'])
    fam = inp.pop('family')
    res = RUNNERS[fam](inp)
    hit = [w for key, w in res if key == rec['key']]
    if hit:
        return False, hit[0]
    return True, 'holds' + ('' if not res else ' (other keys: %s)' % sorted({kk for kk, _ in res}))
