"""C07 bounded stand-in: packet decoders accept exactly the well-formed packets.

Differential run-time contract between the library decoders

    ndn.encoding.parse_interest, ndn.encoding.parse_data,
    ndn.encoding.ndnlp_v2.parse_lp_packet_v2, ndn.app_support.security_v2.parse_certificate

and an independent STRICT reference decoder (`strict_decode` below) written from the NDN packet format 0.3 / NDNLPv2 /
certificate format on top of the bounds-checked TLV walker of `_codec` (no TlvModel, no tlv_var).

Acceptance conditions of the reference decoder are exactly those of the property statement:
  outer element has the expected Type and its Length equals the buffer; the mandatory Name is present; every nested
  element (at every depth that the decoder descends into) lies inside its parent; recognised integers have width
  1/2/4/8; a recognised critical field appears once and in the declared order (anything else of a critical type is
  rejected, anything else of a non-critical type is skipped).  Critical = odd type, or type <= 31 (the "grandfathered"
  range of the packet format).  LpPacket headers: unknown / out-of-order headers are ignored (NDNLPv2 as read in C10),
  a recognised FragIndex/FragCount makes the packet rejected (the library documents that it does not reassemble).
  Inside a Data/certificate SignatureInfo unknown elements are an extension point and are ignored.

Contracts (post_*):
  post_exception   the library raised -> class is DecodeError / ValueError / IndexError / struct.error
  post_accept_iff  library accepts <=> reference accepts (violations keyed by the reference's rejection reason)
  post_fields      both accept -> every extracted field equals the reference reading
  post_linear      traced line count of a size sweep grows linearly
"""
import random
import struct
import sys

from ._codec import (Malformed, Node, L, C, enc_var, read_var, nni, tlv, walk, Collector, shard_of, h64)

MODULE = 'bounded.c07'
DOCUMENTED = None  # filled lazily (DecodeError lives in the library)

# ---- type numbers (NDN packet format 0.3, NDNLPv2, certificate format) ------------------------------------------
T_INTEREST, T_DATA, T_NAME = 0x05, 0x06, 0x07
T_CBP, T_MBF, T_FH, T_NONCE, T_LIFETIME, T_HOP, T_APP, T_ISIGINFO, T_ISIGVAL = \
    0x21, 0x12, 0x1e, 0x0a, 0x0c, 0x22, 0x24, 0x2c, 0x2e
T_META, T_CONTENT, T_SIGINFO, T_SIGVAL, T_CTYPE, T_FRESH, T_FBID = 0x14, 0x15, 0x16, 0x17, 0x18, 0x19, 0x1a
T_SIGTYPE, T_KL, T_KD, T_SNONCE, T_STIME, T_SSEQ = 0x1b, 0x1c, 0x1d, 0x26, 0x28, 0x2a
T_VP, T_NB, T_NA, T_AD, T_DE, T_DK, T_DV = 0xFD, 0xFE, 0xFF, 0x0102, 0x0200, 0x0201, 0x0202
T_LP, T_FRAG, T_FRAGIDX, T_FRAGCNT, T_PIT = 0x64, 0x50, 0x52, 0x53, 0x62
T_NACK, T_NACKREASON, T_INFACE, T_NEXTHOP, T_CPOL, T_CPOLTYPE, T_CONG, T_ACK, T_TXSEQ, T_NONDISC, T_PA = \
    0x320, 0x321, 0x32C, 0x330, 0x334, 0x335, 0x340, 0x344, 0x348, 0x34C, 0x350

DECODERS = ('interest', 'data', 'lp', 'cert')


# --------------------------------------------------------------------------------------------------------------------
# strict reference decoder
# --------------------------------------------------------------------------------------------------------------------
class F:
    """field of a reference grammar table"""
    __slots__ = ('t', 'name', 'kind', 'sub', 'rep', 'ctx')

    def __init__(self, t, name, kind, sub=None, rep=False, ctx=''):
        self.t, self.name, self.kind, self.sub, self.rep, self.ctx = t, name, kind, sub, rep, ctx


KEYLOCATOR = [F(T_NAME, 'name', 'name'), F(T_KD, 'key_digest', 'bytes')]
SIGINFO = [F(T_SIGTYPE, 'signature_type', 'uint'), F(T_KL, 'key_locator', 'model', KEYLOCATOR),
           F(T_SNONCE, 'signature_nonce', 'octets'), F(T_STIME, 'signature_time', 'uint'),
           F(T_SSEQ, 'signature_seq_num', 'uint')]
VALIDITY = [F(T_NB, 'not_before', 'bytes'), F(T_NA, 'not_after', 'bytes')]
DESC_ENTRY = [F(T_DK, 'description_key', 'bytes'), F(T_DV, 'description_value', 'bytes')]
ADD_DESC = [F(T_DE, 'description_entry', 'model', DESC_ENTRY, rep=True)]
CERT_SIGINFO = SIGINFO + [F(T_VP, 'validity_period', 'model', VALIDITY),
                          F(T_AD, 'additional_description', 'model', ADD_DESC)]
FWHINT = [F(T_NAME, 'names', 'name', rep=True)]
INTEREST = [F(T_NAME, 'name', 'name'), F(T_CBP, 'can_be_prefix', 'bool'), F(T_MBF, 'must_be_fresh', 'bool'),
            F(T_FH, 'forwarding_hint', 'model', FWHINT), F(T_NONCE, 'nonce', 'uint'),
            F(T_LIFETIME, 'lifetime', 'uint'), F(T_HOP, 'hop_limit', 'uint'), F(T_APP, 'app_param', 'bytes'),
            F(T_ISIGINFO, 'signature_info', 'model', SIGINFO), F(T_ISIGVAL, 'signature_value', 'bytes')]
METAINFO = [F(T_CTYPE, 'content_type', 'uint'), F(T_FRESH, 'freshness_period', 'uint'),
            F(T_FBID, 'final_block_id', 'bytes')]
DATA = [F(T_NAME, 'name', 'name'), F(T_META, 'meta_info', 'model', METAINFO), F(T_CONTENT, 'content', 'bytes'),
        F(T_SIGINFO, 'signature_info', 'model', SIGINFO, ctx='siginfo'), F(T_SIGVAL, 'signature_value', 'bytes')]
CERT = [F(T_NAME, 'name', 'name'), F(T_META, 'meta_info', 'model', METAINFO), F(T_CONTENT, 'content', 'bytes'),
        F(T_SIGINFO, 'signature_info', 'model', CERT_SIGINFO, ctx='siginfo'),
        F(T_SIGVAL, 'signature_value', 'bytes')]
NACK = [F(T_NACKREASON, 'nack_reason', 'uint')]
CACHEPOL = [F(T_CPOLTYPE, 'cache_policy_type', 'uint')]
# NDNLPv2: header fields in increasing TLV-TYPE order, Fragment last
LP = [F(T_FRAGIDX, 'frag_index', 'uint'), F(T_FRAGCNT, 'frag_count', 'uint'), F(T_PIT, 'pit_token', 'bytes'),
      F(T_NACK, 'nack', 'model', NACK), F(T_INFACE, 'incoming_face_id', 'uint'),
      F(T_NEXTHOP, 'next_hop_face_id', 'uint'), F(T_CPOL, 'cache_policy', 'model', CACHEPOL),
      F(T_CONG, 'congestion_mark', 'uint'), F(T_ACK, 'ack', 'bytes'), F(T_TXSEQ, 'tx_sequence', 'bytes'),
      F(T_NONDISC, 'non_discovery', 'bool'), F(T_PA, 'prefix_announcement', 'bytes'),
      F(T_FRAG, 'fragment', 'bytes')]


class Reject(Exception):
    def __init__(self, reason, detail=''):
        super().__init__(f'{reason}: {detail}')
        self.reason, self.detail = reason, detail


class Strict:
    """relax: set of reasons that are tolerated (used only to classify a disagreement, never to excuse it)."""

    def __init__(self, relax=()):
        self.relax = frozenset(relax)
        self.spans = {}

    def elements(self, buf, start, end):
        try:
            yield from walk(buf, start, end)
        except Malformed as e:
            raise Reject(e.reason, e.detail)

    def critical(self, t, ctx, recognised):
        """-> None (skip the element) or a rejection reason"""
        if ctx == 'lp':
            return None                      # unknown / out-of-order LpPacket headers are ignored
        if ctx == 'siginfo':
            if not recognised:
                return None                  # extension point of Data / certificate SignatureInfo
            if t & 1:
                return None if 'siginfo-critical' in self.relax else 'siginfo-critical'
            return None
        if t & 1:
            return 'critical'
        # The property statement (and the library's documentation of DecodeError) define "critical" as an odd Type.
        # An earlier version of this harness also demanded the packet format's grandfathered range 0..31; that asked for
        # more than the statement says and was removed (false alarm, see DESIGN.md section 7b).
        return None

    def name(self, buf, vs, ve):
        try:
            return [bytes(buf[hs:e]) for _t, hs, _vs, e, _s in walk(buf, vs, ve)]
        except Malformed as e:
            raise Reject('component-overruns-name', e.detail)

    def model(self, buf, start, end, table, ctx, path):
        out = {}
        pos = 0
        types = {f.t for f in table}
        it = self.elements(buf, start, end)
        while True:
            try:
                t, hs, vs, ve, _short = next(it)
            except StopIteration:
                break
            except Reject as e:
                # an element that runs past its parent and would have been read as an INTEGER here: there are not enough bytes
                # to read it from (the other overruns - byte strings, nested elements cut short by slicing - are one recorded
                # finding; a number made up from fewer bytes than declared is another matter)
                tt = _overrunning_type(e.detail) if e.reason == 'overrun' else None
                if tt is not None and any(table[i].t == tt and table[i].kind == 'uint' for i in range(pos, len(table))):
                    raise Reject('overrun-uint', e.detail)
                # ... and a NAME that runs past its parent (Name.decode compares the announced length with what is there)
                if tt is not None and any(table[i].t == tt and table[i].kind == 'name' for i in range(pos, len(table))):
                    raise Reject('overrun-name', e.detail)
                raise
            idx = None
            for i in range(pos, len(table)):
                if table[i].t == t:
                    idx = i
                    break
            if idx is None:
                why = self.critical(t, ctx, t in types)
                if why:
                    raise Reject(why, f'type {t} at {hs} in {path or "top"}')
                continue
            f = table[idx]
            p = f'{path}.{f.name}' if path else f.name
            if f.kind == 'name':
                v = self.name(buf, vs, ve)
            elif f.kind == 'uint':
                if ve - vs not in (1, 2, 4, 8):
                    raise Reject('width', f'{p} has {ve - vs} bytes')
                v = int.from_bytes(bytes(buf[vs:ve]), 'big')
            elif f.kind == 'bool':
                v = True
            elif f.kind in ('bytes', 'octets'):
                v = bytes(buf[vs:ve])
            else:
                v = self.model(buf, vs, ve, f.sub, f.ctx, p)
            if f.rep:
                out.setdefault(f.name, []).append(v)
                pos = idx
            else:
                out[f.name] = v
                pos = idx + 1
            if not path:
                self.spans.setdefault(f.name, (hs, vs, ve))
        return out

    def outer(self, wire, typ):
        try:
            t, p1, _ = read_var(wire, 0, len(wire))
            ln, p2, _ = read_var(wire, p1, len(wire))
        except Malformed as e:
            raise Reject('outer', e.detail)
        if t != typ:
            raise Reject('outer', f'type {t} != {typ}')
        if p2 + ln != len(wire):
            raise Reject('outer', f'length {ln} + header {p2} != {len(wire)}')
        return p2

    def decode(self, decoder, wire):
        self.spans = {}
        if decoder == 'lp':
            vs = self.outer(wire, T_LP)
            r = self.model(wire, vs, len(wire), LP, 'lp', '')
            if 'frag_index' in r or 'frag_count' in r:
                raise Reject('fragmented', 'FragIndex/FragCount present')
            return r
        typ, table = {'interest': (T_INTEREST, INTEREST), 'data': (T_DATA, DATA), 'cert': (T_DATA, CERT)}[decoder]
        vs = self.outer(wire, typ)
        r = self.model(wire, vs, len(wire), table, '', '')
        if 'name' not in r and 'noname' not in self.relax:
            raise Reject('noname', 'mandatory Name absent')
        # derived pointers ----------------------------------------------------------------------------------
        sp = self.spans
        if 'signature_value' in sp:
            end = sp['signature_value'][0]
            if decoder == 'interest':
                first = [sp[k][0] for k in ('app_param', 'signature_info', 'signature_value') if k in sp]
                cov = b''.join(c for c in r.get('name', []) if read_var(c, 0, len(c))[0] != 2)
                r['_sig_covered'] = cov + bytes(wire[min(first):end])
            else:
                first = min(v[0] for v in sp.values())
                r['_sig_covered'] = bytes(wire[first:end])
        if decoder == 'interest':
            if 'app_param' in sp:
                r['_digest_covered'] = bytes(wire[sp['app_param'][0]:])
            dig = [c for c in r.get('name', []) if read_var(c, 0, len(c))[0] == 2]
            if len(dig) == 1:
                c = dig[0]
                _t, p1, _ = read_var(c, 0, len(c))
                _l, p2, _ = read_var(c, p1, len(c))
                r['_digest_value'] = c[p2:]
        return r


def strict_decode(decoder, wire, relax=()):
    """-> ('ok', fields) | ('rej', reason, detail)"""
    try:
        return ('ok', Strict(relax).decode(decoder, wire))
    except Reject as e:
        return ('rej', e.reason, e.detail)


# --------------------------------------------------------------------------------------------------------------------
# library side
# --------------------------------------------------------------------------------------------------------------------
_LIB = {}


def lib():
    if not _LIB:
        import ndn.encoding as enc
        from ndn.encoding.ndnlp_v2 import parse_lp_packet_v2
        from ndn.app_support.security_v2 import parse_certificate
        _LIB.update(enc=enc, interest=enc.parse_interest, data=enc.parse_data, lp=parse_lp_packet_v2,
                    cert=parse_certificate,
                    documented=(enc.DecodeError, ValueError, IndexError, struct.error))
    return _LIB


def _b(x):
    return None if x is None else bytes(x)


def _nm(x):
    if x is None:
        return None
    if isinstance(x, str):
        return ('<str default>', x)
    return [bytes(c) for c in x]


def _siginfo(si, cert=False):
    if si is None:
        return None
    d = {'signature_type': si.signature_type, 'signature_nonce': si.signature_nonce,
         'signature_time': si.signature_time, 'signature_seq_num': si.signature_seq_num}
    kl = si.key_locator
    d['key_locator'] = None if kl is None else {'name': _nm(kl.name), 'key_digest': _b(kl.key_digest)}
    if cert:
        vp = si.validity_period
        d['validity_period'] = None if vp is None else {'not_before': _b(vp.not_before), 'not_after': _b(vp.not_after)}
        ad = si.additional_description
        d['additional_description'] = None if ad is None else {
            'description_entry': [{'description_key': _b(e.description_key), 'description_value': _b(e.description_value)}
                                  for e in ad.description_entry]}
    return d


def _meta(mi):
    if mi is None:
        return None
    return {'content_type': mi.content_type, 'freshness_period': mi.freshness_period,
            'final_block_id': _b(mi.final_block_id)}


def lib_fields(decoder, ret):
    """plain-python view of what the library extracted"""
    if decoder == 'interest':
        name, par, app, sp = ret
        return {'name': _nm(name), 'can_be_prefix': par.can_be_prefix, 'must_be_fresh': par.must_be_fresh,
                'nonce': par.nonce, 'lifetime': par.lifetime, 'hop_limit': par.hop_limit,
                'forwarding_hint': [_nm(n) for n in par.forwarding_hint], 'app_param': _b(app),
                'signature_info': _siginfo(sp.signature_info), 'signature_value': _b(sp.signature_value_buf),
                '_sig_covered': b''.join(bytes(x) for x in (sp.signature_covered_part or [])),
                '_digest_covered': b''.join(bytes(x) for x in (sp.digest_covered_part or [])),
                '_digest_value': _b(sp.digest_value_buf)}
    if decoder == 'data':
        name, mi, content, sp = ret
        return {'name': _nm(name), 'meta_info': _meta(mi), 'content': _b(content),
                'signature_info': _siginfo(sp.signature_info), 'signature_value': _b(sp.signature_value_buf),
                '_sig_covered': b''.join(bytes(x) for x in (sp.signature_covered_part or []))}
    if decoder == 'cert':
        return {'name': _nm(ret.name), 'meta_info': _meta(ret.meta_info), 'content': _b(ret.content),
                'signature_info': _siginfo(ret.signature_info, cert=True), 'signature_value': _b(ret.signature_value)}
    r = ret
    return {'pit_token': _b(r.pit_token), 'nack': None if r.nack is None else {'nack_reason': r.nack.nack_reason},
            'incoming_face_id': r.incoming_face_id, 'next_hop_face_id': r.next_hop_face_id,
            'cache_policy': None if r.cache_policy is None else {'cache_policy_type': r.cache_policy.cache_policy_type},
            'congestion_mark': r.congestion_mark, 'ack': _b(r.ack), 'tx_sequence': _b(r.tx_sequence),
            'non_discovery': r.non_discovery, 'prefix_announcement': _b(r.prefix_announcement),
            'fragment': _b(r.fragment)}


_RECV = bytearray(70000)          # one receive buffer for the whole process (fixed size: views into it may be alive)


def run_lib(decoder, wire):
    """-> ('ok', fields) | ('exc', class_name, documented?, text).  The bytes are first decoded from a receive buffer that is then
    overwritten (as an application reusing its buffer does); what is judged is the decoding of the immutable copy afterwards -
    a decoder that keeps results across calls (keyed by content) would hand out views into the overwritten buffer."""
    lb = lib()
    n = len(wire)
    if 0 < n <= len(_RECV):
        _RECV[:n] = wire
        try:
            lb[decoder](memoryview(_RECV)[:n])
        except RecursionError:
            raise
        except Exception:   # noqa - judged on the decoding below
            pass
        _RECV[:n] = b'\xee' * n
    try:
        ret = lb[decoder](wire)
    except RecursionError:
        raise
    except Exception as e:  # classified by post_exception, never ignored
        return ('exc', type(e).__name__, isinstance(e, lb['documented']), str(e)[:120])
    return ('ok', lib_fields(decoder, ret))


# --------------------------------------------------------------------------------------------------------------------
# contracts
# --------------------------------------------------------------------------------------------------------------------
REJECT_KEYS = {
    'overrun': 'C07:nested-length-overruns-parent',
    'overrun-uint': 'C07:nested-length-overruns-parent:integer-read-from-fewer-bytes',
    'overrun-name': 'C07:nested-length-overruns-parent:name-read-from-fewer-bytes',
    'component-overruns-name': 'C07:name-component-overruns-name',
    'tl-truncated': 'C07:truncated-element-header-accepted',
    'critical-low-even': 'C07:even-type-below-32-not-treated-as-critical',
    'siginfo-critical': 'C07:data-signatureinfo-repeated-or-out-of-order-critical-accepted',
}


def _overrunning_type(detail):
    import re
    m = re.match(r'element type (\d+) at', detail or '')
    return int(m.group(1)) if m else None


def post_exception(decoder, out):
    if out[0] == 'exc' and not out[2]:
        return (f'C07:undocumented-exception:{decoder}:{out[1]}',
                f'{decoder} decoder raised {out[1]} ({out[3]}), not one of DecodeError/ValueError/IndexError/struct.error')
    return None


def _cmp_uint_default(lv, sv, defaults):
    return lv == sv or (sv is None and lv in defaults)


def compare_fields(decoder, lf, sf):
    """-> list of (field, library value, strict value)"""
    bad = []

    def chk(field, lv, sv):
        if lv != sv:
            bad.append((field, lv, sv))

    def chk_siginfo(prefix, l, s, cert=False):
        if s is None or l is None:
            chk(prefix, l, s)
            return
        for k in ('signature_type', 'signature_time', 'signature_seq_num'):
            chk(f'{prefix}.{k}', l[k], s.get(k))
        sn = s.get('signature_nonce')
        chk(f'{prefix}.signature_nonce', l['signature_nonce'], None if sn is None else int.from_bytes(sn, 'big'))
        skl = s.get('key_locator')
        if skl is None or l['key_locator'] is None:
            chk(f'{prefix}.key_locator', l['key_locator'], skl)
        else:
            chk(f'{prefix}.key_locator.name', l['key_locator']['name'], skl.get('name'))
            chk(f'{prefix}.key_locator.key_digest', l['key_locator']['key_digest'], skl.get('key_digest'))
        if cert:
            svp = s.get('validity_period')
            if svp is None or l['validity_period'] is None:
                chk(f'{prefix}.validity_period', l['validity_period'], svp)
            else:
                for k in ('not_before', 'not_after'):
                    chk(f'{prefix}.validity_period.{k}', l['validity_period'][k], svp.get(k))
            sad = s.get('additional_description')
            if sad is None or l['additional_description'] is None:
                chk(f'{prefix}.additional_description', l['additional_description'], sad)
            else:
                se = [{'description_key': e.get('description_key'), 'description_value': e.get('description_value')}
                      for e in sad.get('description_entry', [])]
                chk(f'{prefix}.additional_description.description_entry',
                    l['additional_description']['description_entry'], se)

    def chk_meta(l, s):
        if s is None:
            # absent MetaInfo: the format's defaults (ContentType BLOB) or "absent"
            if l is not None and not (l['content_type'] in (None, 0) and l['freshness_period'] is None
                                      and l['final_block_id'] is None):
                bad.append(('meta_info', l, None))
            return
        if l is None:
            bad.append(('meta_info', None, s))
            return
        if not _cmp_uint_default(l['content_type'], s.get('content_type'), (0,)):
            bad.append(('meta_info.content_type', l['content_type'], s.get('content_type')))
        chk('meta_info.freshness_period', l['freshness_period'], s.get('freshness_period'))
        chk('meta_info.final_block_id', l['final_block_id'], s.get('final_block_id'))

    chk_name = lambda: chk('name', lf['name'], sf.get('name'))
    if decoder == 'interest':
        chk_name()
        chk('can_be_prefix', bool(lf['can_be_prefix']), bool(sf.get('can_be_prefix', False)))
        chk('must_be_fresh', bool(lf['must_be_fresh']), bool(sf.get('must_be_fresh', False)))
        chk('nonce', lf['nonce'], sf.get('nonce'))
        if not _cmp_uint_default(lf['lifetime'], sf.get('lifetime'), (4000,)):
            bad.append(('lifetime', lf['lifetime'], sf.get('lifetime')))
        chk('hop_limit', lf['hop_limit'], sf.get('hop_limit'))
        chk('forwarding_hint', lf['forwarding_hint'], (sf.get('forwarding_hint') or {}).get('names', []))
        chk('app_param', lf['app_param'], sf.get('app_param'))
        chk_siginfo('signature_info', lf['signature_info'], sf.get('signature_info'))
        chk('signature_value', lf['signature_value'], sf.get('signature_value'))
        if '_sig_covered' in sf:
            chk('signature_covered_part', lf['_sig_covered'], sf['_sig_covered'])
        if '_digest_covered' in sf:
            chk('digest_covered_part', lf['_digest_covered'], sf['_digest_covered'])
        if '_digest_value' in sf:
            chk('digest_value_buf', lf['_digest_value'], sf['_digest_value'])
    elif decoder in ('data', 'cert'):
        chk_name()
        if decoder == 'data':
            chk_meta(lf['meta_info'], sf.get('meta_info'))
            if '_sig_covered' in sf:
                chk('signature_covered_part', lf['_sig_covered'], sf['_sig_covered'])
        else:
            if sf.get('meta_info') is None or lf['meta_info'] is None:
                chk('meta_info', lf['meta_info'], sf.get('meta_info'))
            else:
                chk_meta(lf['meta_info'], sf.get('meta_info'))
        chk('content', lf['content'], sf.get('content'))
        chk_siginfo('signature_info', lf['signature_info'], sf.get('signature_info'), cert=(decoder == 'cert'))
        chk('signature_value', lf['signature_value'], sf.get('signature_value'))
    else:
        for k in ('pit_token', 'incoming_face_id', 'next_hop_face_id', 'congestion_mark', 'ack', 'tx_sequence',
                  'prefix_announcement', 'fragment'):
            chk(k, lf[k], sf.get(k))
        chk('non_discovery', bool(lf['non_discovery']), bool(sf.get('non_discovery', False)))
        for k, sub in (('nack', 'nack_reason'), ('cache_policy', 'cache_policy_type')):
            if sf.get(k) is None or lf[k] is None:
                chk(k, lf[k], sf.get(k))
            else:
                chk(f'{k}.{sub}', lf[k][sub], sf[k].get(sub))
    return bad


def _has_odd_sig_nonce(decoder, sf):
    si = sf.get('signature_info') if isinstance(sf, dict) else None
    sn = si.get('signature_nonce') if si else None
    return sn is not None and len(sn) not in (1, 2, 4, 8)


def field_key(decoder, field):
    if decoder == 'lp' and field in ('tx_sequence', 'ack'):
        # one defect: LpPacketValue declares tx_sequence (0x348) before ack (0x344), so in a packet with the
        # headers in increasing TLV-TYPE order the TxSequence after an Ack is dropped (and vice versa)
        return 'C07:lp-ack-txsequence-declared-out-of-type-order'
    return f'C07:field-mismatch:{decoder}:{field}'


def check_case(decoder, wire):
    """all contracts for one input -> (list of (key, what), nontrivial)"""
    wire = bytes(wire)
    out = run_lib(decoder, wire)
    st = strict_decode(decoder, wire)
    found = []
    v = post_exception(decoder, out)
    if v:
        found.append(v)
    nontrivial = not (st[0] == 'rej' and st[1] == 'outer')
    if out[0] == 'ok' and st[0] == 'rej':
        reason = st[1]
        if reason == 'noname':
            key = f'C07:{decoder}-without-name-accepted'
        elif reason in REJECT_KEYS:
            key = REJECT_KEYS[reason]
        else:
            key = f'C07:{reason}-accepted:{decoder}'
        found.append((key, f'{decoder} decoder accepts a packet the strict reading rejects ({reason}: {st[2]})'))
        # classify further with the tolerated reasons switched off, so that one known defect cannot mask another
        if reason in ('critical-low-even', 'siginfo-critical', 'noname'):
            st2 = strict_decode(decoder, wire, relax=('critical-low-even', 'siginfo-critical', 'noname'))
            if st2[0] == 'rej' and st2[1] not in ('critical-low-even', 'siginfo-critical', 'noname'):
                r2 = st2[1]
                k2 = REJECT_KEYS.get(r2, f'C07:{r2}-accepted:{decoder}')
                found.append((k2, f'{decoder} decoder accepts a packet the strict reading rejects ({r2}: {st2[2]})'))
            elif st2[0] == 'ok':
                for field, lv, sv in compare_fields(decoder, out[1], st2[1]):
                    if field == 'name' and 'name' not in st2[1]:
                        continue
                    found.append((field_key(decoder, field),
                                  f'{decoder}: field {field} library={lv!r:.80} strict={sv!r:.80}'))
    elif out[0] == 'exc' and st[0] == 'ok':
        if _has_odd_sig_nonce(decoder, st[1]) and out[1] == 'ValueError':
            found.append(('C07:signature-nonce-length-not-1-2-4-8-rejected',
                          f'{decoder} decoder rejects ({out[1]}) a SignatureNonce (1*OCTET in the packet format) of '
                          f'{len(st[1]["signature_info"]["signature_nonce"])} bytes'))
        else:
            found.append((f'C07:well-formed-rejected:{decoder}:{out[1]}',
                          f'{decoder} decoder rejects ({out[1]}: {out[3]}) a packet the strict reading accepts'))
    elif out[0] == 'ok' and st[0] == 'ok':
        for field, lv, sv in compare_fields(decoder, out[1], st[1]):
            found.append((field_key(decoder, field), f'{decoder}: field {field} library={lv!r:.80} strict={sv!r:.80}'))
    return found, nontrivial


# --------------------------------------------------------------------------------------------------------------------
# valid packets (built with the reference encoder, a few with the library encoder)
# --------------------------------------------------------------------------------------------------------------------
def comp(v, t=8):
    return L(t, v if isinstance(v, bytes) else v.encode())


def name(*comps):
    return C(T_NAME, *[c if isinstance(c, Node) else comp(c) for c in comps])


def u(t, n, w=0):
    return L(t, nni(n, w))


def siginfo(t, *kids):
    return C(t, *kids)


DIGEST = bytes(range(32))
SIG70 = bytes((i * 7 + 3) & 0xFF for i in range(70))


def valid_packets():
    """-> list of (decoder, label, Node)"""
    P = []
    add = lambda d, lab, n: P.append((d, lab, n))
    I, D = T_INTEREST, T_DATA
    # ---- Interests
    add('interest', 'i-min', C(I, name('a')))
    add('interest', 'i-empty-name', C(I, name()))
    add('interest', 'i-params', C(I, name('local', 'ndn', 'prefix'), L(T_CBP), L(T_MBF), u(T_NONCE, 0x01020304, 4),
                                  u(T_LIFETIME, 4000), u(T_HOP, 7, 1)))
    add('interest', 'i-fh', C(I, name('a', 'b'), C(T_FH, name('hint', '1'), name('h2')), u(T_NONCE, 5, 4)))
    add('interest', 'i-app', C(I, name('a', comp(DIGEST, 2)), u(T_NONCE, 0, 4), L(T_APP, b'\x01\x02\x03\x04')))
    add('interest', 'i-app-mid-digest', C(I, name('a', comp(DIGEST, 2), 'z'), L(T_APP, b'')))
    add('interest', 'i-signed', C(I, name('k', comp(DIGEST, 2)), L(T_CBP), u(T_LIFETIME, 10, 1), L(T_APP, b'xy'),
                                  C(T_ISIGINFO, u(T_SIGTYPE, 0, 1)), L(T_ISIGVAL, DIGEST)))
    add('interest', 'i-signed-full', C(I, name('k', 'e', 'y', comp(DIGEST, 2)), u(T_NONCE, 0xFFFFFFFF, 4), L(T_APP, b''),
                                       C(T_ISIGINFO, u(T_SIGTYPE, 3, 1), C(T_KL, name('key', 'KEY', '1')),
                                         L(T_SNONCE, bytes(8)), u(T_STIME, 1 << 40), u(T_SSEQ, 65536)),
                                       L(T_ISIGVAL, SIG70)))
    add('interest', 'i-signed-kd', C(I, name('n', comp(DIGEST, 2)), L(T_APP, b'p'),
                                     C(T_ISIGINFO, u(T_SIGTYPE, 4, 1), C(T_KL, L(T_KD, DIGEST)), u(T_SSEQ, 1)),
                                     L(T_ISIGVAL, DIGEST)))
    add('interest', 'i-lifetime8', C(I, name('t'), u(T_LIFETIME, 1 << 33), u(T_HOP, 255, 1)))
    add('interest', 'i-unknown-noncrit', C(I, name('a'), L(0xF0, b'zz'), L(T_MBF), L(1000, b''), u(T_NONCE, 9, 4),
                                           L(0xF2, b'\x01')))
    add('interest', 'i-typed-comps', C(I, name(comp(b'\x00', 50), comp(b'', 8), comp(b'\xff\x00', 65535),
                                               comp(b'%/=', 32), comp(nni(300), 54)), L(T_CBP)))
    add('interest', 'i-long-app', C(I, name('big', comp(DIGEST, 2)), L(T_APP, bytes(range(256)) + bytes(44))))
    n = C(I, name('ns'), u(T_NONCE, 1, 4))
    n.lform = 3
    n.kids[0].tform = 3
    n.kids[1].lform = 5
    add('interest', 'i-nonshortest', n)
    add('interest', 'i-all', C(I, name('all', comp(DIGEST, 2)), L(T_CBP), L(T_MBF), C(T_FH, name('fh')),
                               u(T_NONCE, 77, 4), u(T_LIFETIME, 256), u(T_HOP, 0, 1), L(T_APP, b'q'),
                               C(T_ISIGINFO, u(T_SIGTYPE, 1, 1), C(T_KL, name('K')), u(T_STIME, 1)), L(T_ISIGVAL, b's')))
    # ---- Data
    add('data', 'd-min', C(D, name('a')))
    add('data', 'd-content', C(D, name('a', 'b'), L(T_CONTENT, b'hello')))
    add('data', 'd-full', C(D, name('d', comp(nni(3), 50)), C(T_META, u(T_CTYPE, 0), u(T_FRESH, 1000),
                                                             L(T_FBID, tlv(50, nni(9)))),
                            L(T_CONTENT, b'payload'), C(T_SIGINFO, u(T_SIGTYPE, 0, 1)), L(T_SIGVAL, DIGEST)))
    add('data', 'd-ecdsa', C(D, name('e'), C(T_META, u(T_FRESH, 0)), L(T_CONTENT, b''),
                             C(T_SIGINFO, u(T_SIGTYPE, 3, 1), C(T_KL, name('id', 'KEY', 'k1'))), L(T_SIGVAL, SIG70)))
    add('data', 'd-empty-meta', C(D, name('m'), C(T_META), L(T_CONTENT, b'c'), C(T_SIGINFO, u(T_SIGTYPE, 200, 1)),
                                  L(T_SIGVAL, b'')))
    add('data', 'd-big', C(D, name('big'), L(T_CONTENT, bytes((i * 5) & 0xFF for i in range(300))),
                           C(T_SIGINFO, u(T_SIGTYPE, 0, 1)), L(T_SIGVAL, DIGEST)))
    add('data', 'd-unknown', C(D, name('u'), L(0xF0, b'1'), C(T_META, L(0x80, b'x'), u(T_CTYPE, 2), L(0x82), u(T_FRESH, 5)),
                               L(T_CONTENT, b'k'), C(T_SIGINFO, u(T_SIGTYPE, 1, 1), L(0x84, b'e'), C(T_KL, L(0x86), name('k'))),
                               L(T_SIGVAL, b'sig'), L(0xF4, b'')))
    add('data', 'd-widths', C(D, name('w'), C(T_META, u(T_CTYPE, 3, 8), u(T_FRESH, 70000, 4), L(T_FBID, tlv(8, b'e')))))
    add('data', 'd-kd', C(D, name('kd'), L(T_CONTENT, b'1'), C(T_SIGINFO, u(T_SIGTYPE, 4, 1), C(T_KL, L(T_KD, DIGEST))),
                          L(T_SIGVAL, DIGEST)))
    add('data', 'd-v02-siginfo', C(D, name('old'), L(T_CONTENT, b'1'),
                                   C(T_SIGINFO, u(T_SIGTYPE, 1, 1), C(T_KL, name('k')), L(0xFD, b'vp'), L(0x81, b'crit')),
                                   L(T_SIGVAL, b'ss')))
    add('data', 'd-sig-extras', C(D, name('x'), C(T_SIGINFO, u(T_SIGTYPE, 5, 1), u(T_STIME, 99), u(T_SSEQ, 3)),
                                  L(T_SIGVAL, bytes(64))))
    add('data', 'd-empty-name', C(D, name(), L(T_CONTENT, b'r')))
    # ---- LpPackets
    inner = C(I, name('localhost', 'nfd'), L(T_CBP), L(T_MBF)).ser()
    add('lp', 'l-frag', C(T_LP, L(T_FRAG, inner)))
    add('lp', 'l-nack', C(T_LP, C(T_NACK, u(T_NACKREASON, 150)), L(T_FRAG, inner)))
    add('lp', 'l-nack-noreason', C(T_LP, C(T_NACK), L(T_FRAG, inner)))
    add('lp', 'l-pit', C(T_LP, L(T_PIT, b'\x01\x02\x03\x04\x05\x06\x07\x08'), L(T_FRAG, b'\x06\x02\x07\x00')))
    add('lp', 'l-headers', C(T_LP, L(T_PIT, b't'), u(T_INFACE, 300), u(T_NEXTHOP, 1), C(T_CPOL, u(T_CPOLTYPE, 1)),
                             u(T_CONG, 1), L(T_NONDISC), L(T_PA, b'\x06\x02\x07\x00'), L(T_FRAG, inner)))
    add('lp', 'l-idle', C(T_LP))
    add('lp', 'l-ack-txseq', C(T_LP, L(T_ACK, bytes(8)), L(T_TXSEQ, b'\x00' * 7 + b'\x01'), L(T_FRAG, inner)))
    add('lp', 'l-unknown', C(T_LP, L(0x355, b'u'), L(T_PIT, b'tk'), L(0x3E8, b''), L(T_FRAG, inner), L(0x63, b'z')))
    # ---- certificates
    vp = C(T_VP, L(T_NB, b'20200101T000000'), L(T_NA, b'20400101T000000'))
    cname = name('id', 'KEY', comp(b'\x01\x02', 8), 'self', comp(nni(1 << 40), 54))
    add('cert', 'c-std', C(D, cname, C(T_META, u(T_CTYPE, 2), u(T_FRESH, 3600000)), L(T_CONTENT, bytes(range(91))),
                           C(T_SIGINFO, u(T_SIGTYPE, 3, 1), C(T_KL, name('id', 'KEY', 'k')), vp), L(T_SIGVAL, SIG70)))
    add('cert', 'c-desc', C(D, cname, C(T_META, u(T_CTYPE, 2)), L(T_CONTENT, b'pk'),
                            C(T_SIGINFO, u(T_SIGTYPE, 1, 1), C(T_KL, name('i')), vp,
                              C(T_AD, C(T_DE, L(T_DK, b'k1'), L(T_DV, b'v1')), C(T_DE, L(T_DK, b'k2'), L(T_DV, b'')))),
                            L(T_SIGVAL, b'sv')))
    add('cert', 'c-novp', C(D, cname, L(T_CONTENT, b'pk'), C(T_SIGINFO, u(T_SIGTYPE, 3, 1)), L(T_SIGVAL, b'sv')))
    add('cert', 'c-unknown-ext', C(D, cname, C(T_META, u(T_CTYPE, 2)), L(T_CONTENT, b'pk'),
                                   C(T_SIGINFO, u(T_SIGTYPE, 3, 1), C(T_KL, name('i')), L(0xF1, b'x'), vp, L(0x0301, b'y')),
                                   L(T_SIGVAL, b'sv')))
    add('cert', 'c-nb-only', C(D, cname, L(T_CONTENT, b''), C(T_SIGINFO, u(T_SIGTYPE, 0, 1), C(T_VP, L(T_NB, b'x'))),
                               L(T_SIGVAL, DIGEST)))
    add('cert', 'c-min', C(D, name('c')))
    return P


class _FixedSigner:
    """deterministic signer for library-built packets"""

    def __init__(self, interest):
        self.interest = interest

    def write_signature_info(self, si):
        si.signature_type = 0
        si.key_locator = None
        if self.interest:
            si.signature_time = 1700000000000
            si.signature_nonce = 0x0102030405060708

    def get_signature_value_size(self):
        return 32

    def write_signature_value(self, wire, contents):
        import hashlib
        h = hashlib.sha256()
        for b in contents:
            h.update(b)
        wire[:] = h.digest()
        return 32


CONTAINERS = {'interest': {T_INTEREST, T_NAME, T_FH, T_ISIGINFO, T_KL},
              'data': {T_DATA, T_NAME, T_META, T_SIGINFO, T_KL},
              'cert': {T_DATA, T_NAME, T_META, T_SIGINFO, T_KL, T_VP, T_AD, T_DE},
              'lp': {T_LP, T_NACK, T_CPOL}}


def tree_from_bytes(wire, containers):
    def build(t, body):
        if t in containers:
            try:
                kids = [build(tt, bytes(body[vs:ve])) for tt, _hs, vs, ve, _s in walk(body, 0, len(body))]
                return Node(t, kids=kids)
            except Malformed:
                pass
        return Node(t, body)
    (t, _hs, vs, ve, _s), = list(walk(wire, 0, len(wire)))
    return build(t, bytes(wire[vs:ve]))


def library_packets():
    from ndn.encoding import make_interest, make_data, InterestParam, MetaInfo, make_network_nack
    from ndn.app_support.security_v2 import new_cert
    from datetime import datetime
    out = []
    i1 = bytes(make_interest('/lib/plain', InterestParam(must_be_fresh=True, nonce=0x11223344, lifetime=1000)))
    i2 = bytes(make_interest('/lib/signed', InterestParam(nonce=7, forwarding_hint=['/fh/a']), b'param',
                             _FixedSigner(True)))
    d1 = bytes(make_data('/lib/data', MetaInfo(content_type=0, freshness_period=10, final_block_id=b'\x32\x01\x05'),
                         b'content', _FixedSigner(False)))
    lp = bytes(make_network_nack(i1, 100))
    _, c1 = new_cert('/lib/KEY/%01', b'\x08\x04self', bytes(range(40)), _FixedSigner(False),
                     datetime(2020, 1, 1), datetime(2030, 1, 1))
    for d, lab, w in (('interest', 'lib-i-plain', i1), ('interest', 'lib-i-signed', i2), ('data', 'lib-d', d1),
                      ('lp', 'lib-nack', lp), ('cert', 'lib-cert', bytes(c1)), ('data', 'lib-cert-as-data', bytes(c1))):
        out.append((d, lab, tree_from_bytes(w, CONTAINERS[d])))
    return out


# --------------------------------------------------------------------------------------------------------------------
# single-edit mutations
# --------------------------------------------------------------------------------------------------------------------
UNKNOWN = [(0xF0, b''), (0xF1, b''), (0x10, b'\x01'), (0x0F, b'\x01'), (1000, b'xy'), (1001, b'')]
RESIZE = (0, 1, 2, 3, 4, 5, 8, 9)
RETYPE = (T_NAME, T_CONTENT, T_META, T_SIGTYPE, T_NONCE, T_FRAG, T_KL, T_APP, T_VP, T_FRAGCNT, 0)


def mutations(root):
    """yield (label, bytes) for every single edit of the tree / its serialisation"""
    base = root.ser()
    yield 'identity', base
    paths = list(root.paths())
    for p in paths:
        ps = '.'.join(map(str, p)) or 'root'
        # 1. the length field lies by +-1 / +-2 (no repair of ancestors)
        for d in (1, -1, 2, 127):
            r = root.clone()
            r.at(p).dlen = d
            yield f'len{d:+d}@{ps}', r.ser()
        # 1b. the length field claims exactly the next 1..k siblings as part of this element (ancestors untouched: the siblings
        #     tile the parent, so everything is still "whole elements" - only this element runs over its own end)
        if p:
            sibs = root.at(p[:-1]).kids[p[-1] + 1:]
            extra = 0
            for j, sb in enumerate(sibs):
                extra += len(sb.ser())
                r = root.clone()
                r.at(p).dlen = extra
                yield f'swallow{j + 1}@{ps}', r.ser()
        # 2. non-shortest forms of T and L
        for form in (3, 5, 9):
            r = root.clone()
            r.at(p).tform = form
            yield f'tform{form}@{ps}', r.ser()
            r = root.clone()
            r.at(p).lform = form
            yield f'lform{form}@{ps}', r.ser()
        node = root.at(p)
        # 3. resize a leaf value (ancestors repaired)
        if node.kids is None:
            for n in RESIZE:
                if n != len(node.val):
                    r = root.clone()
                    r.at(p).val = (node.val + bytes(9))[:n]
                    yield f'resize{n}@{ps}', r.ser()
        if p:
            par, i = p[:-1], p[-1]
            # 4. delete / duplicate / move / swap / retype
            r = root.clone()
            del r.at(par).kids[i]
            yield f'del@{ps}', r.ser()
            r = root.clone()
            r.at(par).kids.insert(i + 1, node.clone())
            yield f'dup@{ps}', r.ser()
            nk = len(root.at(par).kids)
            for j in range(nk):
                if j != i:
                    r = root.clone()
                    k = r.at(par).kids
                    k.insert(j, k.pop(i))
                    yield f'move{j}@{ps}', r.ser()
            r = root.clone()
            r.at(par).kids.append(node.clone())
            yield f'dupend@{ps}', r.ser()
            for t in RETYPE:
                if t != node.t:
                    r = root.clone()
                    r.at(p).t = t
                    yield f'retype{t}@{ps}', r.ser()
        # 5. unknown elements at every position of a container
        if node.kids is not None:
            for j in range(len(node.kids) + 1):
                for t, v in UNKNOWN:
                    r = root.clone()
                    r.at(p).kids.insert(j, L(t, v))
                    yield f'ins{t}@{ps}:{j}', r.ser()
        else:
            # a leaf turned inside out: its value replaced by one unknown element (keeps outer lengths valid)
            r = root.clone()
            r.at(p).val = tlv(0xF1, b'')
            yield f'inner-unknown@{ps}', r.ser()
    # 6. truncations (raw, and with the outermost Length repaired so that only inner elements overrun)
    t0, p1, _ = read_var(base, 0, len(base))
    _l, p2, _ = read_var(base, p1, len(base))
    for k in range(len(base)):
        yield f'trunc{k}', base[:k]
    body = base[p2:]
    for k in range(len(body)):
        yield f'trunc-fix{k}', tlv(t0, body[:k])
    # 7. trailing garbage / extension of the outer element
    yield 'append-raw', base + b'\x00'
    yield 'append-fix', tlv(t0, body + b'\x00')
    # 8. single byte substitutions at header bytes are covered by 1/2/4; add a few value-byte flips
    for k in range(0, len(base), max(1, len(base) // 16)):
        b = bytearray(base)
        b[k] ^= 0xFF
        yield f'flip{k}', bytes(b)


# --------------------------------------------------------------------------------------------------------------------
# grammar generator (valid by construction, with optional oddities) and random strings
# --------------------------------------------------------------------------------------------------------------------
def g_name(rng, maxc=5):
    comps = []
    for _ in range(rng.randrange(0, maxc + 1)):
        t = rng.choice((8, 8, 8, 1, 2, 32, 50, 54, 253, 65535, 0, 70000))
        comps.append(L(t, bytes(rng.randrange(256) for _ in range(rng.choice((0, 1, 1, 2, 3, 8, 32))))))
    return C(T_NAME, *comps)


def g_uint(rng, t, odd=0.0):
    if rng.random() < odd:
        return L(t, bytes(rng.randrange(256) for _ in range(rng.choice((0, 3, 5, 6, 7, 9)))))
    w = rng.choice(NNI)
    return L(t, bytes(rng.randrange(256) for _ in range(w)))


NNI = (1, 2, 4, 8)


def g_blob(rng, t, mx=40):
    return L(t, bytes(rng.randrange(256) for _ in range(rng.randrange(0, mx))))


def g_siginfo(rng, t, odd, cert=False, interest=False):
    kids = [g_uint(rng, T_SIGTYPE, odd)]
    if rng.random() < 0.6:
        kids.append(C(T_KL, g_name(rng, 3)) if rng.random() < 0.7 else C(T_KL, g_blob(rng, T_KD)))
    if interest:
        if rng.random() < 0.5:
            kids.append(L(T_SNONCE, bytes(rng.randrange(256) for _ in range(rng.choice((1, 2, 4, 8, 8, 3, 16))))))
        if rng.random() < 0.5:
            kids.append(g_uint(rng, T_STIME, odd))
        if rng.random() < 0.3:
            kids.append(g_uint(rng, T_SSEQ, odd))
    if cert:
        if rng.random() < 0.8:
            kids.append(C(T_VP, g_blob(rng, T_NB, 16), g_blob(rng, T_NA, 16)))
        if rng.random() < 0.4:
            kids.append(C(T_AD, *[C(T_DE, g_blob(rng, T_DK, 6), g_blob(rng, T_DV, 6)) for _ in range(rng.randrange(3))]))
    return C(t, *kids)


def g_sprinkle(rng, node, p_unknown, p_shuffle):
    """optional oddities: unknown elements, a swapped pair, a duplicated child, non-shortest forms"""
    for n in [node.at(path) for path in list(node.paths())]:
        if n.kids is None or n.t == T_NAME:
            if rng.random() < 0.03:
                n.lform = rng.choice((3, 5, 9))
            continue
        if rng.random() < p_unknown:
            t = rng.choice((0xF0, 0xF2, 1000, 0x80, 0xF1, 0x10, 0x0F, 0x63, 1001, 0xFFFF0))
            n.kids.insert(rng.randrange(len(n.kids) + 1), g_blob(rng, t, 4))
        if len(n.kids) >= 2 and rng.random() < p_shuffle:
            i = rng.randrange(len(n.kids) - 1)
            n.kids[i], n.kids[i + 1] = n.kids[i + 1], n.kids[i]
        if n.kids and rng.random() < p_shuffle:
            i = rng.randrange(len(n.kids))
            n.kids.insert(rng.randrange(len(n.kids) + 1), n.kids[i].clone())
        if rng.random() < 0.03:
            n.tform = rng.choice((3, 5, 9))
    if rng.random() < 0.05:
        victim = node.at(rng.choice(list(node.paths())))
        victim.dlen = rng.choice((1, -1, 3))
    return node


def grammar_packet(rng):
    d = rng.choice(DECODERS)
    odd = 0.04
    opt = lambda p=0.5: rng.random() < p
    if d == 'interest':
        kids = [g_name(rng)] if opt(0.97) else []
        if opt(): kids.append(L(T_CBP))
        if opt(): kids.append(L(T_MBF))
        if opt(0.3): kids.append(C(T_FH, *[g_name(rng, 3) for _ in range(rng.randrange(0, 3))]))
        if opt(): kids.append(g_uint(rng, T_NONCE, odd))
        if opt(): kids.append(g_uint(rng, T_LIFETIME, odd))
        if opt(0.3): kids.append(g_uint(rng, T_HOP, odd))
        if opt():
            kids.append(g_blob(rng, T_APP))
            if opt():
                kids.append(g_siginfo(rng, T_ISIGINFO, odd, interest=True))
                kids.append(g_blob(rng, T_ISIGVAL, 72))
        root = C(T_INTEREST, *kids)
    elif d in ('data', 'cert'):
        kids = [g_name(rng)] if opt(0.97) else []
        if opt():
            mk = []
            if opt(): mk.append(g_uint(rng, T_CTYPE, odd))
            if opt(): mk.append(g_uint(rng, T_FRESH, odd))
            if opt(0.3): mk.append(L(T_FBID, g_name(rng, 1).body()))
            kids.append(C(T_META, *mk))
        if opt(0.8): kids.append(g_blob(rng, T_CONTENT, 300 if opt(0.05) else 40))
        if opt(0.8):
            kids.append(g_siginfo(rng, T_SIGINFO, odd, cert=(d == 'cert' or opt(0.2))))
            kids.append(g_blob(rng, T_SIGVAL, 72))
        root = C(T_DATA, *kids)
    else:
        kids = []
        if opt(0.03): kids.append(g_uint(rng, T_FRAGIDX))
        if opt(0.03): kids.append(g_uint(rng, T_FRAGCNT))
        if opt(0.4): kids.append(g_blob(rng, T_PIT, 33))
        if opt(0.4): kids.append(C(T_NACK, *([g_uint(rng, T_NACKREASON, odd)] if opt(0.8) else [])))
        if opt(0.2): kids.append(g_uint(rng, T_INFACE, odd))
        if opt(0.2): kids.append(g_uint(rng, T_NEXTHOP, odd))
        if opt(0.2): kids.append(C(T_CPOL, g_uint(rng, T_CPOLTYPE, odd)))
        if opt(0.2): kids.append(g_uint(rng, T_CONG, odd))
        if opt(0.15): kids.append(g_blob(rng, T_ACK, 9))
        if opt(0.15): kids.append(g_blob(rng, T_TXSEQ, 9))
        if opt(0.1): kids.append(L(T_NONDISC))
        if opt(0.1): kids.append(g_blob(rng, T_PA))
        if opt(0.85): kids.append(g_blob(rng, T_FRAG, 60))
        root = C(T_LP, *kids)
    mode = rng.random()
    if mode < 0.5:
        g_sprinkle(rng, root, 0.0, 0.0)
    else:
        g_sprinkle(rng, root, 0.25, 0.1)
    return d, root.ser()


TYPE_ALPHABET = (5, 6, 7, 8, 0x64, 0x50, 0x14, 0x15, 0x16, 0x17, 0x18, 0x19, 0x1a, 0x1b, 0x1c, 0x1d, 0x0a, 0x0c, 0x12,
                 0x1e, 0x21, 0x22, 0x24, 0x2c, 0x2e, 0x26, 0x28, 0x2a, 0x62, 0xf0, 0xf1, 0xfd, 0xfe, 0xff, 0, 1, 2, 4)


def random_case(rng, i):
    """-> (decoder, bytes): uniformly random strings and TLV-flavoured random strings"""
    d = DECODERS[i % 4]
    kind = (i // 4) % 3
    if kind == 0:
        n = rng.choice((0, 1, 2, 3, 8, 64, 512, 2048)) if rng.random() < 0.5 else rng.randrange(0, 2049)
        return d, rng.randbytes(n)
    outer = {'interest': 5, 'data': 6, 'cert': 6, 'lp': 0x64}[d]
    n = rng.randrange(0, 40 if kind == 1 else 200)
    body = bytearray()
    while len(body) < n:
        r = rng.random()
        if r < 0.45:
            body.append(rng.choice(TYPE_ALPHABET))
        elif r < 0.85:
            body.append(rng.randrange(0, 6))
        else:
            body.append(rng.randrange(256))
    return d, tlv(outer, bytes(body))


# --------------------------------------------------------------------------------------------------------------------
# linear-time contract
# --------------------------------------------------------------------------------------------------------------------
def traced_lines(fn, arg):
    cnt = [0]

    def tr(frame, event, _arg):
        if event == 'call':
            fnm = frame.f_code.co_filename
            if '/ndn/' not in fnm:
                return None
            return loc
        return None

    def loc(frame, event, _arg):
        if event == 'line':
            cnt[0] += 1
        return loc
    old = sys.gettrace()
    sys.settrace(tr)
    try:
        try:
            fn(arg)
        except lib()['documented']:
            pass
    finally:
        sys.settrace(old)
    return cnt[0]


def sweep_families():
    """name -> (decoder, builder(n) -> bytes); n scales the number of elements / bytes"""
    I, D = T_INTEREST, T_DATA
    fam = {
        'interest-name-components': ('interest', lambda n: C(I, name(*['c'] * n)).ser()),
        'interest-unknown-elements': ('interest', lambda n: C(I, name('a'), *[L(0xF0, b'x') for _ in range(n)]).ser()),
        'interest-fwhint-names': ('interest', lambda n: C(I, name('a'), C(T_FH, *[name('h') for _ in range(n)])).ser()),
        'interest-trailing-dups': ('interest', lambda n: C(I, name('a'), u(T_NONCE, 1, 4),
                                                          *[L(T_MBF) for _ in range(n)]).ser()),
        'data-content-bytes': ('data', lambda n: C(D, name('a'), L(T_CONTENT, bytes(n * 8))).ser()),
        'data-meta-unknowns': ('data', lambda n: C(D, name('a'), C(T_META, *[L(0x80, b'') for _ in range(n)])).ser()),
        'data-keylocator-name': ('data', lambda n: C(D, name('a'), C(T_SIGINFO, u(T_SIGTYPE, 0, 1),
                                                                    C(T_KL, name(*['k'] * n)))).ser()),
        'lp-unknown-headers': ('lp', lambda n: C(T_LP, *[L(0x3E8, b'') for _ in range(n)], L(T_FRAG, b'x')).ser()),
        'cert-description-entries': ('cert', lambda n: C(D, name('c'), C(T_SIGINFO, u(T_SIGTYPE, 0, 1), C(
            T_AD, *[C(T_DE, L(T_DK, b'k'), L(T_DV, b'v')) for _ in range(n)]))).ser()),
        'data-overrunning-chain': ('data', lambda n: C(D, name('a'), *[Node(0xF0, b'', dlen=0) for _ in range(n)],
                                                      Node(T_CONTENT, b'', dlen=5)).ser()),
    }
    return fam


def post_linear(fam, steps):
    """steps: {n: lines} for n = base, 2*base, 4*base, 8*base; increments must double (tolerance 30 %) """
    ns = sorted(steps)
    d = [steps[ns[i + 1]] - steps[ns[i]] for i in range(len(ns) - 1)]
    for i in range(len(d) - 1):
        if d[i] <= 0:
            continue
        if d[i + 1] > 2.6 * d[i] + 50:
            return (f'C07:superlinear-decoding-time:{fam}',
                    f'line events {steps} grow faster than linearly (increments {d})')
    return None


# --------------------------------------------------------------------------------------------------------------------
# driver
# --------------------------------------------------------------------------------------------------------------------
RULE = ('cases = (decoder, byte string); sources: every single-edit mutation (length lies, non-shortest forms, leaf resize, '
        'delete/duplicate/move/retype, 6 unknown even/odd types at every position, every truncation raw and with repaired '
        'outer length, byte flips) of 47 valid packets (41 built by the reference encoder + 6 built by the library), '
        'grammar-generated packets with sprinkled oddities, uniformly random and TLV-flavoured random strings; a case is '
        'non-trivial when it passes the outer Type/Length check (so nested decoding is exercised); distinct = distinct '
        '(decoder, bytes) by 64-bit hash; each case checks exception class, accept<=>strict accept, field equality; '
        'plus traced line-count sweeps for linear time')


def run(tier='quick', seed=0, shard=(0, 1)):
    k, n = shard
    col = Collector(MODULE)
    cap = max(1, 5 // n)
    rng = random.Random(seed * 1000 + k)
    best = {}           # key -> sorted list of (len(wire), wire, record); the `cap` shortest witnesses are kept

    def do(decoder, wire, source):
        found, nontrivial = check_case(decoder, wire)
        col.case(nontrivial, decoder, wire)
        for key, what in found:
            lst = best.setdefault(key, [])
            if len(lst) < cap or len(wire) < lst[-1][0]:
                rec = (len(wire), bytes(wire), {'key': key, 'what': what, 'input': {
                    'decoder': decoder, 'wire_hex': bytes(wire).hex(), 'source': source}})
                if all(rec[1] != o[1] for o in lst):
                    lst.append(rec)
                    lst.sort(key=lambda r: (r[0], r[1]))
                    del lst[cap:]

    # 1. mutations of valid packets (exhaustive over the edit set in both tiers)
    idx = 0
    packets = valid_packets() + library_packets()
    for decoder, label, root in packets:
        for mlabel, wire in mutations(root):
            if shard_of(idx, shard):
                do(decoder, wire, f'{label}/{mlabel}')
                if mlabel == 'identity':
                    col.sample({'decoder': decoder, 'packet': label, 'wire_hex': wire.hex()[:120]})
            idx += 1
        if decoder == 'cert':
            # a certificate is a Data packet: the Data decoder must read it too
            for mlabel, wire in mutations(root):
                if shard_of(idx, shard) and (mlabel.startswith(('identity', 'ins', 'len', 'dup', 'move'))):
                    do('data', wire, f'{label}-as-data/{mlabel}')
                idx += 1
    # 2. grammar-generated
    n_gram = 200000 if tier == "quick" else 8000000
    for i in range(k, n_gram, n):
        d, wire = grammar_packet(rng)
        do(d, wire, 'grammar')
    # 3. random strings
    n_rand = 100000 if tier == "quick" else 3000000
    for i in range(k, n_rand, n):
        d, wire = random_case(rng, i)
        do(d, wire, 'random')
    # 4. linear time (deterministic; families distributed over the shards)
    fams = sweep_families()
    sizes = (32, 64, 128, 256) if tier == 'quick' else (64, 128, 256, 512, 1024)
    for j, (fam, (decoder, build)) in enumerate(sorted(fams.items())):
        if not shard_of(j, shard):
            continue
        steps = {}
        for sz in sizes:
            w = build(sz)
            steps[sz] = traced_lines(lib()[decoder], w)
            col.case(True, 'sweep', fam, sz)
        v = post_linear(fam, steps)
        if v:
            col.violate(v[0], v[1], {'family': fam, 'sizes': list(sizes)})
    # 5. Name.from_bytes through a reused receive buffer (shard 0 only: the probe is about state kept between calls)
    if k == 0:
        Nm = lib()['enc'].Name
        for j in range(60):
            comps = [bytes([8, len(v)]) + v for v in (bytes([65 + (j + i) % 26]) * ((j * 7 + i) % 5) for i in range(j % 4))]
            nw = bytes([7, sum(len(c) for c in comps)]) + b''.join(comps)
            _RECV[:len(nw)] = nw
            try:
                Nm.from_bytes(memoryview(_RECV)[:len(nw)])
            except Exception:   # noqa - judged below
                pass
            _RECV[:len(nw)] = b'\xee' * len(nw)
            try:
                got = [bytes(c) for c in Nm.from_bytes(nw)]
            except Exception as e:
                got = f'{type(e).__name__}: {e}'
            col.case(True, 'name-reuse', nw)
            if got != comps:
                col.violate('C07:name-from_bytes-after-buffer-reuse',
                            f'Name.from_bytes({nw.hex()}) after the same name had been decoded from a receive buffer that was '
                            f'then overwritten -> {got!r:.120}, strict reading {comps!r:.120}', {'decoder': 'name', 'wire_hex': nw.hex()})
    for key in sorted(best):
        for _ln, _w, rec in best[key]:
            col.violate(rec['key'], rec['what'], rec['input'])
    return col.result(RULE, 'byte strings <= ~2 kB; 47 seed packets x all single edits (exhaustive), '
                            f'{n_gram} grammar packets, {n_rand} random strings, 10 size sweeps x {len(sizes)} sizes '
                            f'(tier {tier}); 4 decoders', exhaustive=False)


def replay(rec):
    inp = rec['input']
    if 'family' in inp:
        decoder, build = sweep_families()[inp['family']]
        steps = {sz: traced_lines(lib()[decoder], build(sz)) for sz in inp['sizes']}
        v = post_linear(inp['family'], steps)
        return (v is None, v[1] if v else f'linear: {steps}')
    if inp['decoder'] == 'name':
        Nm = lib()['enc'].Name
        nw = bytes.fromhex(inp['wire_hex'])
        _RECV[:len(nw)] = nw
        Nm.from_bytes(memoryview(_RECV)[:len(nw)])
        _RECV[:len(nw)] = b'\xee' * len(nw)
        got = [bytes(c) for c in Nm.from_bytes(nw)]
        exp = [bytes(c) for c in Nm.from_bytes(bytes(nw))] if False else None
        ok = b''.join(got) == nw[2:]
        return ok, f'Name.from_bytes after buffer reuse -> {got!r:.120}'
    found, _ = check_case(inp['decoder'], bytes.fromhex(inp['wire_hex']))
    mine = [w for kk, w in found if kk == rec['key']]
    if mine:
        return False, mine[0]
    return True, 'contract holds for this input' + (f' (other keys: {[kk for kk, _ in found]})' if found else '')
