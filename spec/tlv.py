"""NDN-TLV vocabulary, written from the packet specification (not from the code).
A VAR-NUMBER is 1 byte (<= 252), or 0xFD + 2 bytes, 0xFE + 4 bytes, 0xFF + 8 bytes, big-endian,
and the library must emit the shortest form."""
import z3
from pyvc.zutil import *

M64 = 2 ** 64


def tlsize(v):
    """length of the shortest encoding of v"""
    v = simp(v) if is_sym(v) else v
    if isinstance(v, int):
        return 1 if v <= 252 else 3 if v <= 0xFFFF else 5 if v <= 0xFFFFFFFF else 9
    return z3.If(v <= 252, 1, z3.If(v <= 0xFFFF, 3, z3.If(v <= 0xFFFFFFFF, 5, 9)))


def be(heap, view, off, w):
    val = 0
    for k in range(w):
        val = val * 256 + view.at(heap, off + k)
    return val


def need_of_first(f):
    return z3.If(f <= 252, 1, z3.If(f == 0xFD, 3, z3.If(f == 0xFE, 5, 9)))


def need_at(heap, view, off):
    """number of bytes the var-number starting at view[off] occupies (any width, as marked by its first byte)"""
    return need_of_first(view.at(heap, off))


def tlval_at(heap, view, off):
    f = view.at(heap, off)
    return z3.If(f <= 252, f, z3.If(f == 0xFD, be(heap, view, off + 1, 2),
                 z3.If(f == 0xFE, be(heap, view, off + 1, 4), be(heap, view, off + 1, 8))))


def tlenc_at(heap, view, off, v):
    """the bytes at view[off:] are the SHORTEST-form encoding of v"""
    v = zint(v)
    return z3.If(v <= 252, view.at(heap, off) == v,
           z3.If(v <= 0xFFFF, z3.And(view.at(heap, off) == 0xFD, be(heap, view, off + 1, 2) == v),
           z3.If(v <= 0xFFFFFFFF, z3.And(view.at(heap, off) == 0xFE, be(heap, view, off + 1, 4) == v),
                 z3.And(view.at(heap, off) == 0xFF, be(heap, view, off + 1, 8) == v))))


def bytes_in_range(heap, view, lo, n):
    """all n bytes (n concrete) from lo are bytes"""
    return And(*[And(view.at(heap, lo + k) >= 0, view.at(heap, lo + k) <= 255) for k in range(n)])


def uint_width(v):
    """smallest legal NonNegativeInteger width"""
    return z3.If(v <= 0xFF, 1, z3.If(v <= 0xFFFF, 2, z3.If(v <= 0xFFFFFFFF, 4, 8)))


# big-endian integer value of a byte string of ANY length: uninterpreted ghost function of (row, start, length), pinned
# down by instantiated axioms for the lengths 0, 1, 2, 4, 8 (the only ones the library produces for numbers)
BEINT = z3.Function('BEINT', ROW, INT, INT, INT)


def beint_term(heap, view):
    return BEINT(view.row(heap), zint(view.start), zint(view.length))


def beint_axioms(heap, view):
    t = beint_term(heap, view)
    L = zint(view.length)
    ax = [t >= 0, z3.Implies(L == 0, t == 0)]
    for w in (1, 2, 4, 8):
        ax.append(z3.Implies(L == w, t == zint(be(heap, view, 0, w))))
    return z3.And(*ax)
