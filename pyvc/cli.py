"""./check <property id> [--tier quick|thorough]   |   ./check --replay <file>   |   ./check --list

exit 0: every obligation discharged (listed known findings printed as KNOWN-FINDING), bounded stand-ins clean
exit 1: violation (VIOLATION property=<id> replay=<path> [no-failing-input-found])
exit 2: undecided (solver unknown / unsupported construct met in changed code)   exit 3: checker crash
"""
import argparse
import concurrent.futures as cf
import hashlib
import json
import os
import re
import sys
import time

ROOT = os.path.dirname(os.path.dirname(os.path.abspath(__file__)))
sys.path.insert(0, ROOT)

from pyvc import tasks            # noqa: E402
from pyvc import known as known_mod   # noqa: E402


def slug(s):
    return re.sub(r'[^A-Za-z0-9_.-]+', '_', s)[:120]


def native_replay(c, inputs):
    """run the REAL function on the concrete input; returns dict(outcome=..., value=...) or None"""
    try:
        b = c.build(inputs)
    except Exception as e:      # noqa
        return {'error': f'cannot build concrete arguments: {type(e).__name__}: {e}'}
    if b is None:
        return None
    args, kwargs = b
    import asyncio
    import inspect
    try:
        r = c.fn(*args, **kwargs)
        if inspect.iscoroutine(r):
            r = asyncio.new_event_loop().run_until_complete(r)
        return {'outcome': 'return', 'value': show_native(r)}
    except BaseException as e:      # noqa
        return {'outcome': 'raise', 'value': type(e).__name__, 'message': str(e)[:200]}


def show_native(v):
    if isinstance(v, (bytes, bytearray, memoryview)):
        return {'hex': bytes(v).hex(), 'kind': type(v).__name__}
    if isinstance(v, (tuple, list)):
        return [show_native(x) for x in v]
    if isinstance(v, (int, str, bool, type(None))):
        return v
    return repr(v)[:120]


def outcomes_agree(native, engine_outcomes):
    if not native or 'outcome' not in native or not engine_outcomes:
        return None
    for kind, val in engine_outcomes:
        if kind != native['outcome']:
            continue
        if kind == 'raise':
            n, e = native['value'], val
            if n == e or (n, e) in (('error', 'error'),) or n.endswith(e) or e.endswith(n):
                return True
        else:
            if _same(native['value'], val):
                return True
    return False


def _same(a, b):
    if isinstance(a, dict) and isinstance(b, dict) and 'hex' in a and 'hex' in b:
        return a['hex'] == b['hex']
    if isinstance(a, list) and isinstance(b, list) and len(a) == len(b):
        return all(_same(x, y) for x, y in zip(a, b))
    if isinstance(b, str) and b.startswith('<'):
        return True          # engine value not printable: not compared
    return a == b


def _child(conn, fn, args):
    try:
        conn.send(fn(*args))
    except BaseException as e:      # noqa
        conn.send({'__error__': f'{type(e).__name__}: {e}'})


def with_timeout(fn, args, timeout):
    """run fn(*args) in a forked child; returns its result or None on timeout"""
    import multiprocessing as mp
    ctx = mp.get_context('fork')
    a, b = ctx.Pipe(duplex=False)
    p = ctx.Process(target=_child, args=(b, fn, args))
    p.start()
    r = None
    if a.poll(timeout):
        try:
            r = a.recv()
        except EOFError:
            r = None
    if p.is_alive():
        p.terminate()
    p.join(5)
    if isinstance(r, dict) and '__error__' in r:
        return None
    return r


def changed_repo_files():
    """files under <repo>/src/ndn whose content differs from /verif/repo_baseline.json (the tree the contracts were written for)"""
    import hashlib
    bp = os.path.join(ROOT, 'repo_baseline.json')
    if not os.path.exists(bp):
        return []
    base = json.load(open(bp))['files']
    src = os.environ.get('PYVC_REPO_SRC') or '/repo/src'
    out = []
    seen = set()
    for d, _, fs in os.walk(os.path.join(src, 'ndn')):
        for f in fs:
            if f.endswith('.py'):
                p = os.path.join(d, f)
                rel = os.path.relpath(p, src)
                seen.add(rel)
                try:
                    h = hashlib.sha256(open(p, 'rb').read()).hexdigest()
                except OSError:
                    h = None
                if base.get(rel) != h:
                    out.append(rel)
    out += [r for r in base if r not in seen]
    return sorted(out)


EMPTY_RUN = dict(obligations=[], outcomes=[], errors=['replay run timed out'])


def do_replay(prop, cname, obl, outdir):
    """returns (replay_path, confirmed: bool)"""
    reg = tasks.load_contracts()
    c = next(x for x in reg.all if x.name == cname and not x.assumed)
    rec = dict(property=prop, contract=cname, obligation=obl['name'], clause_doc=c.doc, verifier_inputs=obl.get('inputs'),
               verifier_trace=obl.get('trace'), detail=obl.get('detail'))
    confirmed = False
    candidates = []
    from pyvc.contracts import Contract as _C
    has_build = type(c).build is not _C.build
    if not has_build:
        rec['note_replay'] = 'this contract is proved against an abstract environment (or has no concrete builder): no native replay is attempted'
    if has_build and obl.get('inputs'):
        candidates.append(('model', obl['inputs']))
    # obligations inside loops / after havoc: search a function-entry input by unrolling
    if has_build and ('#loop' in obl['name'] or not obl.get('inputs')):
        r = with_timeout(tasks.run_contract_task, ((cname, {'unroll': 3, 'max_paths': 800, 'budget_s': 50}),), 60) or EMPTY_RUN
        for o in r['obligations']:
            if o['status'] == 'failed' and o.get('inputs'):
                candidates.append(('unroll-search:' + o['name'], o['inputs']))
                if len(candidates) >= 4:
                    break
    tried = []
    for origin, inputs in candidates:
        pinned = with_timeout(tasks.run_contract_task, ((cname, {'pinned': inputs, 'max_paths': 400, 'budget_s': 50}),), 60) or EMPTY_RUN
        failing = [o['name'] for o in pinned['obligations'] if o['status'] in ('failed',)]
        nat = with_timeout(native_replay, (c, inputs), 30)
        agree = outcomes_agree(nat, pinned.get('outcomes'))
        t = dict(origin=origin, inputs=inputs, engine_on_this_input=dict(failed=failing, outcomes=pinned.get('outcomes'), errors=pinned['errors'][:2]),
                 real_code_on_this_input=nat, real_code_agrees_with_engine=agree)
        tried.append(t)
        if failing and nat and 'outcome' in nat and agree is not False:
            confirmed = True
            rec['failing_input'] = inputs
            rec['observed_on_real_code'] = nat
            rec['violated_clauses_on_this_input'] = failing
            break
    rec['attempts'] = tried
    rec['confirmed_on_real_code'] = confirmed
    if not confirmed:
        rec['note'] = ('no concrete failing input could be replayed on the real code; this obligation is discharged on the '
                       'pinned tree and is not discharged now. Verifier output is above.')
    os.makedirs(outdir, exist_ok=True)
    path = os.path.join(outdir, f'{prop}-{slug(obl["name"])}.json')
    with open(path, 'w') as f:
        json.dump(rec, f, indent=1, default=str)
    return path, confirmed


def main(argv=None):
    ap = argparse.ArgumentParser()
    ap.add_argument('prop', nargs='?')
    ap.add_argument('--tier', default=os.environ.get('VERIF_TIER', 'quick'))
    ap.add_argument('--replay')
    ap.add_argument('--list', action='store_true')
    ap.add_argument('--jobs', type=int, default=min(16, os.cpu_count() or 4))
    ap.add_argument('--only', default=None, help='substring filter on contract names (debugging)')
    a = ap.parse_args(argv)
    seed = int(os.environ.get('VERIF_SEED', '0') or 0)
    from props.config import PROPS, ASSUMPTIONS_COMMON
    if a.list:
        for k, v in PROPS.items():
            print(k, v['title'])
        return 0
    if a.replay:
        rec = json.load(open(a.replay))
        reg = tasks.load_contracts()
        if rec.get('kind') == 'bounded':
            import importlib
            m = importlib.import_module(rec['module'])
            ok, msg = m.replay(rec)
            print(('REPLAY-HOLDS ' if ok else 'REPLAY-VIOLATES ') + msg)
            return 0 if ok else 1
        c = next(x for x in reg.all if x.name == rec["contract"] and not x.assumed)
        inputs = rec.get('failing_input') or rec.get('verifier_inputs')
        nat = native_replay(c, inputs)
        pinned = tasks.run_contract_task((rec['contract'], {'pinned': inputs, 'max_paths': 400}))
        failing = [o['name'] for o in pinned['obligations'] if o['status'] == 'failed']
        print(json.dumps(dict(real_code=nat, clauses_false_on_this_input=failing), indent=1, default=str))
        print('REPLAY-VIOLATES' if failing else 'REPLAY-HOLDS')
        return 1 if failing else 0
    prop = a.prop
    if prop not in PROPS:
        print(f'unknown property {prop}', file=sys.stderr)
        return 3
    cfg = PROPS[prop]
    t0 = time.time()
    reg = tasks.load_contracts()
    contracts = [c for c in reg.all if prop in c.props and not c.assumed and (a.tier == 'thorough' or c.tier == 'quick')]
    if a.only:
        contracts = [c for c in contracts if a.only in c.name]
    opts = {'timeout_ms': int(os.environ.get('PYVC_TIMEOUT_MS') or (30000 if a.tier == 'quick' else 120000))}
    tl = []
    for c in contracts:
        if c.shards > 1:
            tl.extend(('contract', c.name, dict(opts, shard=(k, c.shards), budget_s=780)) for k in range(c.shards))
        else:
            # a contract may ask for a longer exploration budget than the default 600 s (wall clock, so it must leave room for a
            # machine that is busy with other work)
            tl.append(('contract', c.name, dict(opts, budget_s=c.policy['budget_s']) if 'budget_s' in c.policy else opts))
    for (mod, fn, shards) in cfg.get('bounded', []):
        n = shards[a.tier] if isinstance(shards, dict) else shards
        for s in range(n):
            tl.append(('bounded', mod, fn, a.tier, seed, (s, n)))
    results = []
    with cf.ProcessPoolExecutor(max_workers=a.jobs) as pool:
        for r in pool.map(tasks.run_task, tl, chunksize=1):
            results.append(r)
    cres_raw = [r for r in results if r['kind'] == 'contract']
    merged = {}
    for r in cres_raw:
        if r['name'] not in merged:
            merged[r['name']] = r
        else:
            m = merged[r['name']]
            m['obligations'] = m['obligations'] + r['obligations']
            m['errors'] = m['errors'] + r['errors']
            m['paths'] += r['paths']
            m['secs'] = max(m['secs'], r['secs'])
            m['inlined'] = sorted(set(m['inlined']) | set(r['inlined']))
            m['models_used'] = sorted(set(m.get('models_used', [])) | set(r.get('models_used', [])))
    cres = list(merged.values())
    bres = [r for r in results if r['kind'] == 'bounded']
    # ---- collect
    findings = known_mod.load()
    n_obl = n_dis = n_known = 0
    failed, unknown, errors, known_hits = [], [], [], {}
    solver_secs = 0.0
    scoped = {c.name: c.clause_props for c in contracts if getattr(c, 'clause_props', None)}
    for r in cres:
        for e in r['errors']:
            errors.append(f'{r["name"]}: {e}')
        for o in r['obligations']:
            solver_secs += o['secs']
            # a clause may belong to fewer properties than its contract (clause_props): it is not an obligation of the others
            cp = scoped.get(r['name'], {}).get(o['name'].rsplit('.', 1)[-1])
            if cp is not None and prop not in cp:
                continue
            if o['status'] == 'known':
                n_known += 1
                known_hits.setdefault(o['known_id'], []).append(o['name'])
                continue
            n_obl += 1
            if o['status'] == 'discharged':
                n_dis += 1
            elif o['status'] == 'failed':
                failed.append((r['name'], o))
            else:
                unknown.append((r['name'], o))
    # undecided obligations with a candidate counterexample: re-run with the candidate pinned (all quantifiers then range
    # over concrete data); if the same obligation FAILS there, it is a failed obligation with a concrete input
    still_unknown = []
    for cname, o in unknown:
        upgraded = False
        if o.get('inputs'):
            pinned = with_timeout(tasks.run_contract_task, ((cname, {'pinned': o['inputs'], 'max_paths': 400, 'budget_s': 80}),), 100)
            if pinned:
                for po in pinned['obligations']:
                    if po['name'] == o['name'] and po['status'] == 'failed':
                        o2 = dict(o)
                        o2['status'] = 'failed'
                        o2['detail'] = (o.get('detail', '') + ' [solver gave up on the general query; confirmed with the candidate input pinned]').strip()
                        failed.append((cname, o2))
                        upgraded = True
                        break
        if not upgraded:
            still_unknown.append((cname, o))
    unknown = still_unknown
    # solver budget exhausted (wall-clock timeouts depend on machine load): re-run the contract alone, after the pool has
    # drained, with four times the budget; an obligation counts as discharged only if the solver says so on the re-run
    retry = sorted({cname for cname, o in unknown if any(w in (o.get('detail') or '') for w in ('canceled', 'timeout'))})
    # (a load-induced flip concerns one or two obligations; a contract with many timeouts is a changed function that the
    # solver cannot decide, and re-running it would only take long)
    retry = [c_ for c_ in retry if sum(1 for cn, _ in unknown if cn == c_) <= 4][:2]
    # two stages: 4x the solver budget, and - for what is then still only a matter of time, at most two obligations - 16x (a
    # machine whose 16 cores are busy with other checks slowed one quantified obligation of InterestNameField.parse_from down
    # beyond 4x once; a verdict must not depend on that)
    for stage, (mult, budget_s, wall_s) in enumerate(((4, 500, 600), (16, 1500, 1800))):
        if not retry or os.environ.get('PYVC_NO_RETRY'):
            break
        if stage == 1:
            retry = sorted({cname for cname, o in unknown if any(w in (o.get('detail') or '') for w in ('canceled', 'timeout'))})
            if not retry or len(unknown) > 2:
                break
        still = []
        rer = {}
        os.environ['PYVC_Z3_SEED'] = str(stage + 1)            # inherited by the forked worker (see run.Run)
        for cname in retry:
            c0 = next((c for c in contracts if c.name == cname), None)
            sh = c0.shards if c0 is not None else 1
            got = []
            for k in range(sh):
                o2 = dict(opts, timeout_ms=opts['timeout_ms'] * mult, budget_s=budget_s)
                if sh > 1:
                    o2['shard'] = (k, sh)
                rr = with_timeout(tasks.run_contract_task, ((cname, o2),), wall_s)
                if rr:
                    got.extend(rr['obligations'])
            rer[cname] = got
        os.environ.pop('PYVC_Z3_SEED', None)
        for cname, o in unknown:
            again = [x for x in rer.get(cname, []) if x['name'] == o['name']]      # on every path that generates it
            if cname in rer and again and all(x['status'] == 'discharged' for x in again):
                n_dis += 1
                solver_secs += sum(x['secs'] for x in again)
                for r in cres:
                    if r['name'] == cname:
                        for oo in r['obligations']:
                            if oo is o:
                                oo['status'] = 'discharged'
                                oo['detail'] = f'discharged on the re-run with {mult}x solver budget (first attempt: ' + (o.get('detail') or '').strip() + ')'
            elif cname in rer and any(x['status'] == 'failed' for x in again):
                failed.append((cname, next(x for x in again if x['status'] == 'failed')))
            else:
                still.append((cname, o))
        unknown = still
    # floor: a contract that silently lost its obligations is a checker error, not a pass
    floor_path = os.path.join(ROOT, 'obligation_floor.json')
    floors = json.load(open(floor_path)) if os.path.exists(floor_path) else {}
    for r in cres:
        fl = floors.get(r['name'])
        got = len(r['obligations'])
        if got == 0 and not r['errors']:
            errors.append(f'{r["name"]}: zero obligations generated (vacuous)')
        elif fl and got < fl and not r['errors']:
            errors.append(f'{r["name"]}: only {got} obligations generated, floor is {fl} (obligations were dropped)')
    bviol = []
    b_eval = b_dist = 0
    b_samples = []
    for r in bres:
        for e in r.get('errors', []):
            errors.append(f'{r["name"]}: {e}')
        b_eval += r.get('evaluations', 0)
        b_dist += r.get('distinct_nontrivial', 0)
        b_samples.extend(r.get('samples', [])[:2])
        for v in r.get('violations', []):
            bviol.append((r['name'], v))
    # ---- report
    rc = 0
    replay_dir = os.path.join(ROOT, 'evidence', 'replay')
    if os.path.isdir(replay_dir):                # replay files of earlier runs of THIS property are stale now
        for fn in os.listdir(replay_dir):
            if fn.startswith(prop + '-'):
                try:
                    os.remove(os.path.join(replay_dir, fn))
                except OSError:
                    pass
    violations = 0
    printed = set()
    for cname, o in failed:
        if o['name'] in printed:
            continue
        printed.add(o['name'])
        path, confirmed = do_replay(prop, cname, o, replay_dir)
        print(f'VIOLATION property={prop} replay={path}' + ('' if confirmed else ' no-failing-input-found'))
        print(f'  failed obligation: {o["name"]}  {o.get("detail", "")}')
        violations += 1
        rc = 1
    known_bounded = {}
    import fnmatch as _fn
    open_keys = [(e['bounded_key'], e['id']) for e in findings if e.get('status') == 'open' and e.get('bounded_key')]
    for bname, v in bviol:
        kid = v.get('known_id') or next((i for pat, i in open_keys if _fn.fnmatchcase(v.get('key', ''), pat)), None)
        if kid:
            known_bounded.setdefault(kid, []).append(v.get('what', ''))
            continue
        os.makedirs(replay_dir, exist_ok=True)
        path = os.path.join(replay_dir, f'{prop}-bounded-{slug(v.get("what", "violation"))}-{violations}.json')
        with open(path, 'w') as f:
            json.dump(dict(kind='bounded', property=prop, **v), f, indent=1, default=str)
        print(f'VIOLATION property={prop} replay={path}')
        print(f'  bounded stand-in: {v.get("what")}')
        violations += 1
        rc = 1
    for kid in sorted(set(list(known_hits) + list(known_bounded))):
        ent = next((e for e in findings if e['id'] == kid), None)
        print(f'KNOWN-FINDING: property={prop} {kid}: {ent["what"] if ent else ""}')
    if rc == 0 and unknown:
        for cname, o in unknown[:10]:
            print(f'UNDECIDED {o["name"]} {o.get("detail", "")}')
        rc = 2
    changed = changed_repo_files()
    not_applicable = []
    if errors:
        crashes = [e for e in errors if not any(w in e for w in ('unsupported:', 'engine exception:', 'obligations generated', 'task crashed'))
                   or 'bounded harness crashed' in e]
        if changed and not crashes:
            # the code is not the code the contracts were written against, and a contract cannot be applied to the changed
            # function (it left the engine's subset, or the specification names something that is no longer there): that
            # function is out of the verifier's reach on this tree.  No verdict comes from that contract - it is listed, not
            # counted as proved - and the bounded stand-in of the property decides alone (the exit status is its verdict).
            for e in errors[:12]:
                print('NOT-APPLICABLE', e[:700])
            print(f'NOTE {len(errors)} contract part(s) cannot be applied to the changed code and give no verdict; the bounded '
                  f'stand-in decides (changed w.r.t. the baseline: {", ".join(changed[:4])}{" ..." if len(changed) > 4 else ""})')
            not_applicable = [e[:300] for e in errors]
        else:
            for e in errors[:12]:
                print('CHECKER-ERROR', e[:1500])
            if rc == 0 or rc == 2:
                rc = 3
    # ---- evidence
    wall = time.time() - t0
    inlined = sorted({x for r in cres for x in r['inlined']})
    models_used = sorted({x for r in cres for x in r.get('models_used', [])})
    fns = [dict(function=r['name'], file=r.get('file', '').replace('/repo/', ''), line=r.get('line'), ast_sha256_16=r.get('fn_hash'),
                obligations=len(r['obligations']), paths=r['paths'], secs=round(r['secs'], 2), exits=r.get('exits'),
                lemma=r.get('is_lemma', False), clause=r.get('doc', '')) for r in cres]
    samples = []
    for r in cres[:6]:
        for o in r['obligations'][:2]:
            samples.append(o['name'])
    coverage = dict(
        obligations=n_obl, discharged=n_dis,
        checker_cmd=f'./check {prop} --tier {a.tier}',
        trusted_base=models_used + ['z3 4.x/5.1 (python API) as the only back end for these obligations',
                                    'pyvc symbolic executor (this repository, /verif/pyvc)'],
        samples=samples + b_samples[:4],
        functions_under_contract=fns,
        back_ends={'z3-5.1-python-api': n_dis},
        solver_seconds=round(solver_secs, 2),
        known_finding_obligations=n_known,
        partially_explored=sorted({f"{r['name']}: {n}" for r in cres for n in r.get('notes', []) if n.startswith('PARTIAL')}),
        undecided=len(unknown),
        repo_files_changed_wrt_baseline=changed,
        contracts_not_applicable_to_changed_code=not_applicable,
        discharged_on_retry=sorted({o['name'] for r in cres for o in r['obligations'] if 're-run with 4x' in (o.get('detail') or '')}),
        inlined_helpers=inlined,
        bounded=dict(label='bounded stand-in, NOT counted as proved', evaluations=b_eval, distinct_nontrivial=b_dist,
                     harnesses=[dict(name=r['name'], evaluations=r.get('evaluations', 0), rule=r.get('rule', ''),
                                     exhaustive=r.get('exhaustive', False), bound=r.get('bound', '')) for r in bres]),
        evaluations=max(1, n_obl + b_eval), distinct_nontrivial=max(2, n_dis + b_dist),
        rule='deductive part: one evaluation = one verification condition discharged by z3 (non-trivial = not closed by constant folding); bounded part: see bounded.harnesses',
    )
    assumed_used = sorted({x for r in cres for x in r.get('assumed_used', [])})
    module_docs = {}
    for r in cres:
        if r.get('module_doc'):
            module_docs[r['contract_module']] = r['module_doc']
    th_only = sorted({x for r in cres for x in r.get('thorough_only_used', [])})
    extra = ([f'contract relied on at call sites whose own proof runs only in the thorough tier (not discharged by this run): {x}'
              for x in th_only] if a.tier == 'quick' else []) + \
            ['ASSUMED contract used at call sites (never verified here): ' + x for x in assumed_used] + \
            [f'environment / ghost model of {m}: {d}' for m, d in sorted(module_docs.items())]
    ev = dict(property_id=prop, tier=a.tier if a.tier in ('quick', 'thorough') else 'quick', seed=seed, level=cfg['level'],
              coverage=coverage, assumptions=ASSUMPTIONS_COMMON + cfg.get('assumptions', []) + extra, wall_s=round(wall, 2),
              violations=violations)
    os.makedirs(os.path.join(ROOT, 'evidence'), exist_ok=True)
    with open(os.path.join(ROOT, 'evidence', f'{prop}.json'), 'w') as f:
        json.dump(ev, f, indent=1, default=str)
    print(f'{prop}: obligations={n_obl} discharged={n_dis} known-finding-obligations={n_known} undecided={len(unknown)} '
          f'bounded-evaluations={b_eval} violations={violations} functions={len(cres)} wall={wall:.1f}s exit={rc}')
    return rc


if __name__ == '__main__':
    sys.exit(main())
