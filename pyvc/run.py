"""Single-path run state of the symbolic executor.

Forking is done by RE-EXECUTION: a run follows a prefix of recorded decisions, and every new
symbolic branch pushes the alternative decision prefix on the explorer's worklist.  Because one run
is one path, mutable python containers created during the run are ordinary python objects, python
exceptions model python exceptions, and no state copying is needed.  Fresh symbol names are
deterministic (per-run counter) so a re-run of a prefix rebuilds identical terms.
"""
import time
import os
import z3
from .zutil import *


_QCACHE = {}


def has_quantifier(t):
    if not is_sym(t):
        return False
    stack, seen, found = [t], set(), False
    while stack:
        x = stack.pop()
        i = x.get_id()
        if i in seen:
            continue
        seen.add(i)
        if z3.is_quantifier(x):
            if x.is_lambda():
                stack.append(x.body())
                continue
            found = True
            break
        stack.extend(x.children())
    return found


def finite_instances(t, K):
    """ground instances of a top-level (conjunction of) ForAll over Int variables, with every variable in 0..K-1 and -1..;
    anything of another shape contributes nothing (weakening is fine for a candidate search)"""
    out = []
    stack = [t]
    while stack:
        x = stack.pop()
        if z3.is_and(x):
            stack.extend(x.children())
        elif z3.is_implies(x) and not has_quantifier(x.arg(0)):
            for inst in finite_instances(x.arg(1), K):
                out.append(z3.Implies(x.arg(0), inst))
        elif z3.is_quantifier(x) and x.is_forall() and x.num_vars() <= 2:
            import itertools
            nv = x.num_vars()
            for vals in itertools.product(range(0, K), repeat=nv):
                # de Bruijn: var 0 is the LAST bound variable
                subs = [z3.IntVal(v) for v in reversed(vals)]
                try:
                    inst = z3.substitute_vars(x.body(), *subs)
                except z3.Z3Exception:
                    continue
                if not has_quantifier(inst):
                    out.append(inst)
        elif not has_quantifier(x):
            out.append(x)
    return out


class Unsupported(Exception):
    """The engine met a construct it does not model.  Never mapped to 'holds' or 'violation'."""


class PathEnd(Exception):
    """Path stops here (infeasible, or loop-body path completed)."""


class Obligation:
    __slots__ = ('name', 'status', 'secs', 'model', 'inputs', 'trace', 'detail', 'trivial')

    def __init__(self, name, status, secs=0.0, model=None, inputs=None, trace=(), detail='', trivial=False):
        self.name, self.status, self.secs, self.model = name, status, secs, model
        self.inputs, self.trace, self.detail, self.trivial = inputs, trace, detail, trivial

    def to_json(self):
        return dict(name=self.name, status=self.status, secs=round(self.secs, 4), inputs=self.inputs,
                    detail=self.detail, trivial=self.trivial, known_id=self.model if self.status == 'known' else None,
                    trace=list(self.trace)[-12:])


class View:
    """bytes / bytearray / memoryview value: a window [start, start+length) on heap cell `cell`."""
    __slots__ = ('cell', 'start', 'length', 'kind', 'writable')

    def __init__(self, cell, start, length, kind='bytes', writable=False):
        self.cell, self.start, self.length, self.kind, self.writable = cell, start, length, kind, writable

    def at(self, heap, i):
        return z3.Select(z3.Select(heap, zint(self.cell)), zint(self.start + i))

    def row(self, heap):
        return z3.Select(heap, zint(self.cell))

    def sub(self, lo, ln, kind=None, writable=None):
        return View(self.cell, self.start + lo, ln, kind or self.kind,
                    self.writable if writable is None else writable)

    def comp_(self, it, n, fr):
        """a comprehension over the bytes of this value: only the structured-text mode gives it a meaning of its own"""
        from . import models
        if models.text_mode(it):
            return models.TEXT_HOOK.view_comp(it, self, n, fr)
        return NotImplemented

    def __repr__(self):
        return f'View(cell={self.cell}, start={self.start}, len={self.length}, {self.kind})'


class Run:
    def __init__(self, explorer, prefix):
        self.ex = explorer
        self.prefix = prefix
        self.decisions = []
        self.solver = z3.Solver()
        self.solver.set('timeout', explorer.timeout_ms)
        # the retry stages of the check driver use another solver seed: a quantified query that runs away with one seed is
        # usually decided at once with another (an answer is an answer, whatever the seed)
        _seed = int(os.environ.get('PYVC_Z3_SEED') or 0)
        if _seed:
            self.solver.set('random_seed', _seed)
        self.pc = []
        self.counter = 0
        self.heap = z3.Const('heap0', HEAP)
        self.next_cell = 1
        self.inputs = []           # (name, kind, payload) for counterexample concretisation
        self.overlay = {}          # (id(real object), attr) -> value written by interpreted code
        self.overlay_keep = []     # keep real objects alive so ids stay unique
        self.ghost = {}            # ghost variables for contracts
        self.trace = []            # human-readable decision labels
        self.depth = 0
        self.notes = []
        self.raw_quantified = []

    # ---- naming
    def fresh_name(self, base):
        self.counter += 1
        return f'{base}!{self.counter}'

    def fresh_int(self, base='i'):
        return z3.Int(self.fresh_name(base))

    def fresh_bool(self, base='b'):
        return z3.Bool(self.fresh_name(base))

    def fresh_row(self, base='row'):
        return z3.Const(self.fresh_name(base), ROW)

    # ---- constraints
    def assume(self, t):
        raw = t
        t = simp(t) if is_sym(t) else t
        if is_sym(raw) and has_quantifier(raw):
            self.raw_quantified.append(raw)       # the form as written (simplification may restructure quantifiers)
        if t is True:
            return
        if t is False:
            raise PathEnd('assumed false')
        self.pc.append(t)
        self.solver.add(t)

    def sat(self, extra=None):
        # feasibility queries get a short budget: unknown / timeout counts as feasible (sound: explores more paths)
        self.solver.set('timeout', self.ex.feas_timeout_ms)
        try:
            if extra is None:
                r = self.solver.check()
            else:
                self.solver.push()
                self.solver.add(extra)
                r = self.solver.check()
                self.solver.pop()
        finally:
            self.solver.set('timeout', self.ex.timeout_ms)
        return r != z3.unsat

    def choose(self, options, label=''):
        """options: list of (tag, condition).  Returns the tag of the option this path follows.
        All feasible options are eventually explored (alternatives are queued)."""
        pos = len(self.decisions)
        if pos < len(self.prefix):
            k = self.prefix[pos]
        else:
            feas = []
            for idx, (tag, cond) in enumerate(options):
                c = simp(cond) if is_sym(cond) else cond
                if c is False:
                    continue
                if c is True or self.sat(c):
                    feas.append(idx)
            if not feas:
                raise PathEnd('no feasible option')
            k = feas[0]
            for alt in feas[1:]:
                self.ex.push(tuple(self.decisions) + (alt,))
        self.decisions.append(k)
        tag, cond = options[k]
        self.trace.append(f'{label}:{tag}' if label else str(tag))
        self.assume(cond)
        return tag

    def branch(self, cond, label=''):
        cond = simp(cond) if is_sym(cond) else cond
        if isinstance(cond, bool):
            return cond
        return self.choose([(True, cond), (False, z3.Not(cond))], label)

    def concretize(self, term, label='', limit=64):
        """case-split a symbolic int into its feasible concrete values (used for exponents etc.)"""
        term = simp(term)
        if isinstance(term, int):
            return term
        for _ in range(limit):
            self.solver.push()
            r = self.solver.check()
            if r != z3.sat:
                self.solver.pop()
                raise Unsupported(f'cannot concretize {term} ({r})')
            v = self.solver.model().eval(term, model_completion=True).as_long()
            self.solver.pop()
            if self.branch(term == v, label or 'concretize'):
                return v
        raise Unsupported(f'too many values for {term}')

    # ---- obligations
    def oblige(self, name, claim, detail='', regions=None):
        key = (name, tuple(self.decisions))
        ex = self.ex
        if key in ex.seen_obligations:
            self.assume(claim)
            return
        ex.seen_obligations.add(key)
        c = claim
        if is_sym(c):
            c = True if z3.is_true(c) else (False if z3.is_false(c) else c)
        if c is True:
            ex.record(Obligation(name, 'discharged', trivial=True, detail=detail))
            return
        t0 = time.time()
        self.solver.push()
        if c is not False:
            self.solver.add(z3.Not(c))          # claim False: violated iff the path itself is feasible
        r = self.solver.check()
        secs = time.time() - t0
        if r == z3.unsat:
            self.solver.pop()
            ex.record(Obligation(name, 'discharged', secs, detail=detail))
        elif r == z3.sat:
            m = self.solver.model()
            small = self.small_candidate(c)
            inputs = small if small is not None else self.concretize_inputs(m)
            status, kid = 'failed', None
            from . import known as _known
            ents = _known.open_entries_for(ex.known, name)
            if ents:
                rs = []
                whole = False
                for e in ents:
                    if e.get('region'):
                        if regions and e['region'] in regions:
                            rs.append(regions[e['region']])
                    else:
                        whole = True
                if whole:
                    status, kid = 'known', ents[0]['id']
                elif rs:
                    self.solver.add(z3.Not(zbool(Or(*rs)) if not isinstance(Or(*rs), bool) else z3.BoolVal(Or(*rs))))
                    r2 = self.solver.check()
                    if r2 == z3.unsat:
                        status, kid = 'known', ents[0]['id']
                    elif r2 == z3.sat:
                        inputs = self.concretize_inputs(self.solver.model())
                        detail = (detail + ' [fails OUTSIDE the region of the listed known finding]').strip()
            self.solver.pop()
            o = Obligation(name, status, secs, inputs=inputs, trace=tuple(self.trace), detail=detail)
            o.model = kid
            ex.record(o)
        else:
            reason = self.solver.reason_unknown()
            self.solver.pop()
            # The solver gave up (typically quantified assumptions).  Look for a CANDIDATE counterexample under the
            # quantifier-free part of the path condition; it is only a candidate: the caller re-runs the function with
            # these inputs pinned, where every quantifier ranges over concrete data, before anything is reported.
            cand = self.small_candidate(c)
            o = Obligation(name, 'unknown', secs, inputs=cand, trace=tuple(self.trace), detail=f'{detail} z3:{reason}')
            ex.record(o)
        if c is False:
            raise PathEnd('obligation false')
        self.assume(c)

    def oblige_all(self, named):
        """several clauses at one program point: one solver call for the conjunction; the clauses are checked one by one
        only if the conjunction is not discharged (so that the failing clause is named)"""
        items = [(n, c) for n, c in named if not (c is True)]
        key = ('ALL',) + tuple(n for n, _ in named) + (tuple(self.decisions),)
        sym = [(n, c) for n, c in items if is_sym(c)]
        if len(sym) >= 3 and all(c is not False for _, c in items) and key not in self.ex.seen_obligations:
            t0 = time.time()
            self.solver.push()
            self.solver.add(z3.Not(z3.And(*[zbool(c) for _, c in sym])))
            r = self.solver.check()
            self.solver.pop()
            if r == z3.unsat:
                self.ex.seen_obligations.add(key)
                secs = (time.time() - t0) / max(1, len(named))
                for n, c in named:
                    k2 = (n, tuple(self.decisions))
                    if k2 not in self.ex.seen_obligations:
                        self.ex.seen_obligations.add(k2)
                        self.ex.record(Obligation(n, 'discharged', secs, trivial=(c is True), detail='discharged as part of a conjunction'))
                for n, c in sym:
                    self.assume(c)
                return
        for n, c in named:
            self.oblige(n, c)

    def small_candidate(self, c, K=3):
        """a SMALL candidate counterexample for claim c: the quantifier-free part of the path condition, the universally
        quantified assumptions instantiated on the indices 0..K-1, and size bounds on the inputs.  Quantifier-free, hence
        fast and deterministic.  Only a candidate: it is confirmed by re-running with the inputs pinned."""
        try:
            s2 = z3.Solver()
            s2.set('timeout', 8000)
            for t in self.pc:
                if not has_quantifier(t):
                    s2.add(t)
            for t in self.raw_quantified:
                for inst in finite_instances(t, K):
                    s2.add(inst)
            for nm, kind, payload in self.inputs:
                if kind == 'bufseq':
                    seq, h0 = payload
                    s2.add(zint(seq.n) <= K)
                    from .symseq import PS
                    s2.add(PS(seq.lens, z3.IntVal(0)) == 0)
                    for j in range(K):
                        s2.add(PS(seq.lens, z3.IntVal(j + 1)) == PS(seq.lens, z3.IntVal(j)) + z3.Select(seq.lens, j))
                    for j in range(K):
                        s2.add(z3.Select(seq.lens, j) <= 300)
                        s2.add(z3.Select(seq.lens, j) >= 0)
                        row = z3.Select(h0, z3.Select(seq.cells, j))
                        st = z3.Select(seq.starts, j)
                        for k in range(24):          # header bytes are bytes (the rest is irrelevant to the arithmetic)
                            b = z3.Select(row, st + k)
                            s2.add(z3.And(b >= 0, b <= 255))
                elif kind == 'symmap':
                    dom, _ = payload
                    kq = z3.Int('k!cand')
                    # candidate maps use the key ids 0..K only
                    for kk in range(K + 1, K + 6):
                        s2.add(z3.Not(z3.Select(dom, kk)))
                    s2.add(z3.Not(z3.Select(dom, -1)))
                elif kind == 'buf':
                    v, h0 = payload
                    s2.add(zint(v.length) <= 2000)
                    for k in range(40):
                        b = v.at(h0, k)
                        s2.add(z3.And(b >= 0, b <= 255))
            if c is not False and not has_quantifier(c):
                s2.add(z3.Not(c))
            elif c is not False:
                return None
            if s2.check() == z3.sat:
                return self.concretize_inputs(s2.model())
        except z3.Z3Exception:
            return None
        return None

    def concretize_inputs(self, model):
        out = {}
        for name, kind, payload in self.inputs:
            try:
                if kind == 'int':
                    out[name] = model.eval(payload, model_completion=True).as_long()
                elif kind == 'bool':
                    out[name] = z3.is_true(model.eval(payload, model_completion=True))
                elif kind == 'buf':
                    view, heap = payload
                    n = model.eval(zint(view.length), model_completion=True).as_long()
                    n = max(0, min(n, 4096))
                    bs = []
                    for k in range(n):
                        b = model.eval(view.at(heap, k), model_completion=True)
                        bs.append(b.as_long() % 256 if z3.is_int_value(b) else 0)
                    out[name] = {'hex': bytes(bs).hex(), 'kind': view.kind}
                elif kind == 'bufseq':
                    seq, heap = payload
                    n = model.eval(zint(seq.n), model_completion=True).as_long()
                    comps = []
                    for j in range(max(0, min(n, 8))):
                        ln = model.eval(z3.Select(seq.lens, j), model_completion=True).as_long()
                        cell, st = z3.Select(seq.cells, j), z3.Select(seq.starts, j)
                        bs = []
                        for k in range(max(0, min(ln, 400))):
                            b = model.eval(z3.Select(z3.Select(heap, cell), st + k), model_completion=True)
                            bs.append(b.as_long() % 256 if z3.is_int_value(b) else 0)
                        comps.append(bytes(bs).hex())
                    out[name] = {'components_hex': comps, 'n': n}
                elif kind == 'symmap':
                    dom, val = payload
                    items = []
                    for k in range(4):
                        if z3.is_true(model.eval(z3.Select(dom, k), model_completion=True)):
                            items.append([k, model.eval(z3.Select(val, k), model_completion=True).as_long()])
                    out[name] = {'items': items}
                elif kind == 'const':
                    out[name] = payload
            except Exception as e:      # noqa
                out[name] = f'<unconcretised: {e}>'
        return out

    # ---- heap
    def alloc(self, length, kind='bytearray', row=None, writable=True):
        cell = self.next_cell
        self.next_cell += 1
        if row is not None:
            self.heap = z3.Store(self.heap, zint(cell), row)
        return View(cell, 0, length, kind, writable)

    def alloc_zero(self, length, kind='bytearray'):
        return self.alloc(length, kind, z3.K(INT, z3.IntVal(0)))

    def input_buf(self, name, kind='bytes', writable=None, length=None):
        """a symbolic input buffer in its own cell, contents arbitrary bytes"""
        if length is None:
            length = self.fresh_int(name + '_len')
            self.assume(length >= 0)
        v = self.alloc(length, kind, None, kind != 'bytes' if writable is None else writable)
        self.inputs.append((name, 'buf', (v, self.heap)))
        pin = self.ex.pinned.get(name) if self.ex.pinned else None
        if pin is not None:
            data = bytes.fromhex(pin['hex'])
            self.assume(zint(v.length) == len(data))
            for k, b in enumerate(data):
                self.assume(v.at(self.heap, k) == b)
        return v

    def input_bufseq(self, name, kind='bytearray'):
        """a symbolic list of byte strings (e.g. a FormalName) given as input"""
        from .symseq import BufSeq
        seq = BufSeq.fresh(self, name, kind)
        self.inputs.append((name, 'bufseq', (seq, self.heap)))
        pin = self.ex.pinned.get(name) if self.ex.pinned else None
        if pin is not None:
            from .symseq import PS
            comps = [bytes.fromhex(x) for x in pin['components_hex']]
            self.assume(zint(seq.n) == len(comps))
            self.assume(PS(seq.lens, z3.IntVal(0)) == 0)
            for j, cb in enumerate(comps):
                self.assume(PS(seq.lens, z3.IntVal(j + 1)) == PS(seq.lens, z3.IntVal(j)) + len(cb))
            for j, cb in enumerate(comps):
                self.assume(z3.Select(seq.lens, j) == len(cb))
                self.assume(z3.Select(seq.cells, j) == -(j + 1))          # input cells are negative: distinct from allocated ones
                self.assume(z3.Select(seq.starts, j) == 0)
                for k, b in enumerate(cb):
                    self.assume(z3.Select(z3.Select(self.heap, z3.IntVal(-(j + 1))), k) == b)
        return seq

    def input_symmap(self, name):
        """a symbolic dict over opaque keys given as input; candidates / pins use the key ids 0..3 only"""
        from .symseq import SymMap
        m = SymMap.fresh(self, name)
        self.inputs.append((name, 'symmap', (m.dom, m.val)))
        pin = self.ex.pinned.get(name) if self.ex.pinned else None
        if pin is not None:
            dom = z3.K(INT, z3.BoolVal(False))
            val = z3.K(INT, z3.IntVal(0))
            for k, v in pin['items']:
                dom = z3.Store(dom, int(k), z3.BoolVal(True))
                val = z3.Store(val, int(k), int(v))
            self.assume(m.dom == dom)
            self.assume(m.val == val)
        return m

    def input_int(self, name):
        t = self.fresh_int(name)
        self.inputs.append((name, 'int', t))
        if self.ex.pinned and name in self.ex.pinned:
            self.assume(t == int(self.ex.pinned[name]))
        return t

    def input_bool(self, name):
        t = self.fresh_bool(name)
        self.inputs.append((name, 'bool', t))
        if self.ex.pinned and name in self.ex.pinned:
            self.assume(t == bool(self.ex.pinned[name]))
        return t

    def input_const(self, name, value):
        self.inputs.append((name, 'const', value))
        if self.ex.pinned and name in self.ex.pinned and self.ex.pinned[name] != value:
            raise PathEnd('case not selected by the pinned input')
        return value

    def read(self, view, i, heap=None):
        v = view.at(self.heap if heap is None else heap, i)
        self.assume(z3.And(v >= 0, v <= 255))     # heap invariant: cells hold bytes (every write is checked)
        return v

    def write(self, view, i, val):
        row = view.row(self.heap)
        self.heap = z3.Store(self.heap, zint(view.cell), z3.Store(row, zint(view.start + i), zint(val)))

    def copy_into(self, dst, dlo, src, n, src_heap=None):
        """dst[dlo:dlo+n] = src[0:n] (n symbolic allowed)"""
        sh = self.heap if src_heap is None else src_heap
        k = z3.Int('k!cp')
        drow, srow = dst.row(self.heap), src.row(sh)
        lo = zint(dst.start + dlo)
        new = z3.Lambda([k], z3.If(z3.And(k >= lo, k < lo + zint(n)),
                                   z3.Select(srow, k - lo + zint(src.start)), z3.Select(drow, k)))
        self.heap = z3.Store(self.heap, zint(dst.cell), new)

    def havoc_range(self, view, lo, n, base='hv'):
        """bytes view[lo:lo+n] become arbitrary bytes; everything else is kept"""
        k = z3.Int('k!hv')
        fresh = self.fresh_row(base)
        drow = view.row(self.heap)
        a = zint(view.start + lo)
        new = z3.Lambda([k], z3.If(z3.And(k >= a, k < a + zint(n)), z3.Select(fresh, k), z3.Select(drow, k)))
        self.heap = z3.Store(self.heap, zint(view.cell), new)

    def new_bytes(self, data, kind='bytes'):
        """concrete python bytes -> heap view"""
        row = z3.K(INT, z3.IntVal(0))
        for i, b in enumerate(bytes(data)):
            row = z3.Store(row, i, b)
        return self.alloc(len(data), kind, row, kind != 'bytes')
