"""Worker-side task execution (one process per task, 16-process pool)."""
import importlib
import os
import sys
import time
import traceback

ROOT = os.path.dirname(os.path.dirname(os.path.abspath(__file__)))
if ROOT not in sys.path:
    sys.path.insert(0, ROOT)

CONTRACT_MODULES = ['tlv_var', 'name', 'fields', 'model']


def load_contracts():
    from pyvc.contracts import REGISTRY
    for m in CONTRACT_MODULES:
        importlib.import_module('contracts.' + m)
    for m in sorted(os.listdir(os.path.join(ROOT, 'contracts'))):
        if m.endswith('.py') and m[:-3] not in CONTRACT_MODULES and m != '__init__.py':
            importlib.import_module('contracts.' + m[:-3])
    lem = os.path.join(ROOT, 'lemmas')
    if os.path.isdir(lem):
        for m in sorted(os.listdir(lem)):
            if m.endswith('.py') and m != '__init__.py':
                importlib.import_module('lemmas.' + m[:-3])
    return REGISTRY


def run_contract_task(args):
    name, opts = args
    t0 = time.time()
    try:
        reg = load_contracts()
        from pyvc.values import SourceIndex
        from pyvc.verify import verify_contract
        from pyvc import known, models
        c = next(x for x in reg.all if x.name == name and not x.assumed)
        res = verify_contract(c, SourceIndex(), unroll=opts.get('unroll', 0), timeout_ms=opts.get('timeout_ms', 20000),
                              known=known.load(), pinned=opts.get('pinned'), max_paths=opts.get('max_paths', 6000),
                              budget_s=opts.get('budget_s', 600), shard=opts.get('shard'))
        res['obligations'] = [o.to_json() for o in res['obligations']]
        res['models_used'] = sorted(models.USED)
        res['kind'] = 'contract'
        res['shard'] = opts.get('shard')
        res['doc'] = c.doc
        # assumed contracts used at call sites during this proof, with what they promise
        used = []
        for nm in res.get('called', []):
            if nm.endswith(' [assumed]'):
                base = nm[:-len(' [assumed]')]
                a = next((x for x in reg.all if x.name == base and x.assumed), None)
                txt = ((a.doc or type(a).__doc__ or '') if a is not None else '').strip().replace('\n', ' ')
                used.append(f'{base}: {" ".join(txt.split())[:260]}' if txt else base)
        res['assumed_used'] = used
        res['thorough_only_used'] = sorted({nm for nm in res.get('called', []) if not nm.endswith(' [assumed]') and
                                            any(x.name == nm and not x.assumed and getattr(x, 'tier', 'quick') == 'thorough' for x in reg.all)})
        import sys as _sys
        mod = _sys.modules.get(type(c).__module__)
        res['contract_module'] = type(c).__module__
        res['module_doc'] = " ".join((getattr(mod, '__doc__', '') or '').split())[:700]
        res['assumed'] = c.assumed
        res['is_lemma'] = getattr(c, 'is_lemma', False)
        return res
    except Exception as e:      # noqa
        return dict(name=name, kind='contract', obligations=[], errors=[f'task crashed: {type(e).__name__}: {e}\n{traceback.format_exc(limit=6)}'],
                    paths=0, secs=time.time() - t0, inlined=[], called=[], notes=[], models_used=[], exits={}, fn_hash='', file='', line=0,
                    doc='', assumed=False, is_lemma=False, vacuous=False, props=[])


def run_bounded_task(args):
    mod, fn, tier, seed, shard = args
    t0 = time.time()
    try:
        m = importlib.import_module(mod)
        r = getattr(m, fn)(tier=tier, seed=seed, shard=shard)
        r['kind'] = 'bounded'
        r['name'] = f'{mod}.{fn}[{shard}]'
        r['secs'] = time.time() - t0
        r.setdefault('errors', [])
        return r
    except Exception as e:      # noqa
        return dict(kind='bounded', name=f'{mod}.{fn}[{shard}]', evaluations=0, distinct_nontrivial=0, samples=[], violations=[],
                    errors=[f'bounded harness crashed: {type(e).__name__}: {e}\n{traceback.format_exc(limit=8)}'], secs=time.time() - t0)


def run_task(t):
    kind = t[0]
    if kind == 'contract':
        return run_contract_task(t[1:])
    if kind == 'bounded':
        return run_bounded_task(t[1:])
    raise ValueError(kind)
