"""Contract objects, registry, and the call-site rule (caller is checked against the callee's contract)."""
import inspect
import types
import z3

from .zutil import *
from .run import View, Unsupported, PathEnd
from .values import *


class Ctx:
    """what a contract clause sees: the run, the interpreter, the heap now and the heap at entry"""

    def __init__(self, it, old_heap=None):
        self.it, self.run = it, it.run
        self.old_heap = old_heap if old_heap is not None else it.run.heap

    @property
    def heap(self):
        return self.run.heap

    def rd(self, view, i):                 # byte now
        return view.at(self.run.heap, i)

    def rd_old(self, view, i):             # byte at entry
        return view.at(self.old_heap, i)

    def frame(self, view, lo, hi):
        """nothing in view's cell outside view[lo:hi) changed since entry"""
        k = z3.Int('k!fr')
        a, b = zint(view.start + lo), zint(view.start + hi)
        return z3.ForAll([k], z3.Implies(z3.Or(k < a, k >= b),
                                         z3.Select(view.row(self.run.heap), k) == z3.Select(view.row(self.old_heap), k)))

    def unchanged_cell(self, view):
        return view.row(self.run.heap) == view.row(self.old_heap)


class LoopSpec:
    """invariant / variant of one loop, keyed by (function qualname, loop ordinal in source order)"""
    ghost = None
    var = None

    def __init__(self, inv, var=None, ghost=None, havoc=None, for_guard=None, for_item=None, step=None, update=None, abstracts=()):
        self.inv = inv
        self.update = update              # ghost update at the end of each iteration: update(it, pre_env, env, g)
        self.step = step                  # two-state claims about one iteration: step(it, pre_env, env, g) -> dict
        self.var = var
        self.ghost = ghost
        self._havoc = havoc
        self.abstracts = tuple(abstracts)   # containers mutated in the body whose abstraction another havoc entry provides
        self.for_guard = for_guard
        self.for_item = for_item

    def havoc(self, it, env, g, targets):
        custom = self._havoc or {}
        for t in custom:                 # object state mutated through references (not a name assignment)
            if t not in targets and t in env:
                env[t] = custom[t](it, env, g)
        for t in sorted(targets):
            if t in custom:
                env[t] = custom[t](it, env, g)
                continue
            cur = env.get(t, None)
            if t not in env:
                continue       # first assigned inside the body: dead at the head
            if isinstance(cur, bool) or is_symbool(cur):
                env[t] = it.run.fresh_bool(t)
            elif isinstance(cur, int) or is_symint(cur):
                env[t] = it.run.fresh_int(t)
            elif cur is None:
                raise Unsupported(f'loop havoc of {t}: None at loop head needs a custom havoc')
            else:
                raise Unsupported(f'loop havoc of {t}: {type(cur).__name__} needs a custom havoc')


class Contract:
    fn = None                 # real function object
    props = ()
    assumed = False           # True: external / trusted, never verified here
    raises = {}
    exact_raises = False
    loops = {}
    policy = {}
    cases = None
    doc = ''
    shards = 1                 # >1: the setup cases are distributed over that many worker processes
    tier = 'quick'             # 'thorough': verified only in the thorough tier (slow obligations)
    nested = None              # name of a function defined INSIDE fn: the contract is about that inner function; its free
    #                            variables come from closure(cx) during its proof, call sites inside fn use the summary

    def __init__(self):
        raw = None
        for k in type(self).__mro__:
            if 'fn' in k.__dict__:
                raw = k.__dict__['fn']
                break
        if isinstance(raw, (staticmethod, classmethod, types.MethodType)):
            raw = raw.__func__
        self.fn = raw                     # instance attribute: the plain function object, not a bound method
        self.name = f'{raw.__module__}.{raw.__qualname__}' if raw is not None else type(self).__name__
        if self.nested:
            self.nested_qualname = f'{raw.__qualname__}.<locals>.{self.nested}'
            self.name = f'{raw.__module__}.{self.nested_qualname}'

    def closure(self, cx):
        return {}

    # -- clauses (override)
    def setup(self, cx):
        raise NotImplementedError

    def pre(c, cx, **p):
        return True

    def post(c, cx, result, **p):
        return {}

    def result(c, cx, **p):
        """call-site: havoc the frame and return a fresh result value"""
        return None

    def normal_when(c, cx, **p):
        if c.exact_raises:
            return And(*[Not(f(cx, **p)) for f in c.raises.values()])
        return True

    def use_contract_at(c, it, args, kwargs):
        # a contract without a call-site summary (result / apply_at) cannot stand for its function: the body is inlined
        return type(c).result is not Contract.result or hasattr(c, 'apply_at')

    def build(self, inputs):
        """concrete python arguments for replay (default: ints and byte strings by parameter name)"""
        return None


class Registry:
    def __init__(self):
        self.by_fn = {}
        self.by_nested = {}
        self.under_proof = None
        self.opaque_handlers = {}
        self.all = []

    def add(self, c):
        if c.nested:
            self.by_nested[f'{c.fn.__module__}.{c.nested_qualname}'] = c
        else:
            cs = self.by_fn.setdefault(c.fn, [])
            cs.append(c)
            # contracts that restrict their own call sites (use_contract_at overridden) are asked first
            cs.sort(key=lambda k: type(k).use_contract_at is Contract.use_contract_at)
        self.all.append(c)
        return c

    def lookup(self, fn):
        """the verified (else the first) contract of fn"""
        cs = self.candidates(fn)
        for c in cs:
            if not c.assumed:
                return c
        return cs[0] if cs else None

    def candidates(self, fn):
        """every contract registered for fn; a call site uses the first one whose use_contract_at accepts the arguments"""
        try:
            return self.by_fn.get(fn, [])
        except TypeError:
            return []

    def opaque_attr(self, obj, name):
        h = self.opaque_handlers.get(obj.typ)
        if h is None:
            return None
        return h(obj, name)


REGISTRY = Registry()


def contract(cls):
    """class decorator: instantiate and register"""
    c = cls()
    REGISTRY.add(c)
    return cls


def bind_params(fn, args, kwargs):
    sig = inspect.signature(fn)
    ba = sig.bind(*args, **kwargs)
    ba.apply_defaults()
    return dict(ba.arguments)


def apply_contract(it, c, fn, args, kwargs, node):
    if inspect.iscoroutinefunction(fn):
        return CoroVal(lambda: _apply(it, c, fn, args, kwargs, node), fn.__qualname__)
    return _apply(it, c, fn, args, kwargs, node)


def _apply(it, c, fn, args, kwargs, node):
    run = it.run
    if c.nested:
        p = it.bind(fn, args, kwargs, node)          # fn is the InterpFunction of the inner def
    else:
        try:
            p = bind_params(fn, args, kwargs)
        except TypeError as e:
            it.raise_(TypeError, str(e), node=node)
    cx = Ctx(it, run.heap)
    site = f'{it.where()}#call[{c.nested_qualname if c.nested else fn.__qualname__}@L{getattr(node, "lineno", 0)}]'
    it.called_contracts.add(c.name + (' [assumed]' if c.assumed else ''))
    for v in p.values():
        # a token standing for an UNKNOWN value of a library type (declared by the contract module that made it) means nothing
        # to the contracts of other modules: neither "a well-formed argument" nor "a wrong type"
        if getattr(v, 'opaque_value', False) and not getattr(c, 'accepts_opaque', False) and \
                getattr(__import__('sys').modules.get(type(c).__module__), type(v).__name__, None) is not type(v):
            # (a contract module that defines or imports the token class knows it)
            raise Unsupported(f'{type(v).__name__} token of {type(v).__module__} passed to {c.name}, whose contract does not know it')
    if hasattr(c, 'apply_at'):
        return c.apply_at(cx, p, node, site)
    try:
        pre = c.pre(cx, **p)
    except (AttributeError, TypeError, KeyError) as e:
        raise Unsupported(f'the contract of {c.name} cannot interpret the arguments of this call ({type(e).__name__}: {e})')
    # a precondition that is CONCRETELY false is a shape mismatch between the caller's abstract values and what the callee's
    # contract can talk about (e.g. an opaque name token where a component list is expected): not applicable, no verdict.
    # A violated precondition of the program shows up as a symbolic obligation with a counter-model.
    if pre is False or (isinstance(pre, dict) and any(t is False for t in pre.values())):
        raise Unsupported(f'the contract of {c.name} cannot interpret the arguments of this call (precondition is not expressible for them)')
    if isinstance(pre, dict):
        for lab, t in pre.items():
            run.oblige(f'{site}.pre:{lab}', t)
    else:
        run.oblige(f'{site}.pre', pre)
    options = [('normal', c.normal_when(cx, **p))]
    for ecls, cond in c.raises.items():
        options.append((ecls, cond(cx, **p)))
    short = c.nested if c.nested else fn.__name__
    tag = run.choose(options, f'call {short}')
    if tag != 'normal':
        raise PyExc(tag, (f'raised by {c.nested_qualname if c.nested else fn.__qualname__} (contract)',), getattr(node, 'lineno', None), it.where())
    res = c.result(cx, **p)
    for label, t in getattr(c, 'post_assumed', c.post)(cx, res, **p).items():
        if t is False:
            raise Unsupported(f'summary of {c.name} is inconsistent: clause {label} is false for the value its result() built')
        run.assume(t)
    if not run.sat():
        raise Unsupported(f'summary of {c.name} is inconsistent: its postcondition contradicts the value its result() built '
                          f'(vacuous normal path)')
    return res
