"""Trusted models of the builtins / stdlib calls that occur in verified functions.
Everything here is part of the trusted base and is listed in evidence."""
import ast
import builtins
import dataclasses
import functools
import hashlib
import inspect
import logging
import struct
import types
import z3

from .zutil import *
from .run import View, Unsupported, PathEnd
from .values import *

USED = set()          # names of models actually exercised (reported as trusted_base)

FMT = {'B': 1, 'H': 2, 'I': 4, 'Q': 8}


def _fmt(fmt):
    if not isinstance(fmt, str) or not fmt.startswith('!') or any(c not in FMT for c in fmt[1:]):
        raise Unsupported(f'struct format {fmt!r}')
    return [FMT[c] for c in fmt[1:]]


def _need_view(it, v, node, what='a bytes-like object is required'):
    if isinstance(v, (bytes, bytearray)):
        return it.run.new_bytes(v, 'bytearray' if isinstance(v, bytearray) else 'bytes')
    if not isinstance(v, View):
        it.raise_(TypeError, what, node=node)
    return v


def m_pack_into(it, args, kwargs, node):
    USED.add('struct.pack_into')
    fmt, buf, off = args[0], args[1], args[2]
    vals = args[3:]
    widths = _fmt(fmt)
    if len(vals) != len(widths):
        it.raise_(struct.error, 'pack_into expected %d items' % len(widths), node=node)
    buf = _need_view(it, buf, node)
    if not buf.writable:
        it.raise_(TypeError, 'argument must be read-write bytes-like object', node=node)
    total = sum(widths)
    for v in vals:
        if v is None or isinstance(v, (str, View, SymObj, Opaque, list, tuple, float)):
            it.raise_(struct.error, 'required argument is not an integer', node=node)
    if off is None or isinstance(off, (str, View)):
        it.raise_(TypeError, 'offset must be an integer', node=node)
    L, o = zint(buf.length), zint(off)
    eff = z3.If(o < 0, o + L, o)
    fits = z3.And(z3.Or(o >= 0, o + total <= 0), eff >= 0, L - eff >= total)
    rng = And(*[And(zint(v) >= 0, zint(v) < 256 ** w) for v, w in zip(vals, widths)])
    if not it.run.branch(And(fits, rng), f'L{getattr(node, "lineno", 0)}.pack_ok'):
        it.raise_(struct.error, 'argument out of range or buffer too small', node=node)
    pos = simp(eff)
    for v, w in zip(vals, widths):
        v = simp(zint(v))
        if isinstance(v, int):
            digs = list(v.to_bytes(w, 'big'))
        elif w == 1:
            digs = [v]
        else:
            digs = [it.run.fresh_int('pk') for _ in range(w)]
            it.run.assume(And(*[And(d >= 0, d <= 255) for d in digs]))
            it.run.assume(Sum(d * (256 ** (w - 1 - k)) for k, d in enumerate(digs)) == v)
        for d in digs:
            it.run.write(buf, pos, d)
            pos = simp(pos + 1)
    return None


def _be_value(it, buf, off, w):
    val = 0
    for k in range(w):
        val = val * 256 + it.run.read(buf, simp(off + k))
    return val


def m_unpack(it, args, kwargs, node):
    USED.add('struct.unpack')
    fmt, buf = args
    widths = _fmt(fmt)
    buf = _need_view(it, buf, node)
    total = sum(widths)
    if not it.run.branch(zint(buf.length) == total, f'L{getattr(node, "lineno", 0)}.unpack_len'):
        it.raise_(struct.error, f'unpack requires a buffer of {total} bytes', node=node)
    out, off = [], 0
    for w in widths:
        out.append(_be_value(it, buf, off, w))
        off += w
    return tuple(out)


def m_unpack_from(it, args, kwargs, node):
    USED.add('struct.unpack_from')
    fmt, buf = args[0], args[1]
    off = args[2] if len(args) > 2 else kwargs.get('offset', 0)
    widths = _fmt(fmt)
    buf = _need_view(it, buf, node)
    total = sum(widths)
    if off is None or isinstance(off, (str, View)):
        it.raise_(TypeError, 'offset must be an integer', node=node)
    L, o = zint(buf.length), zint(off)
    eff = z3.If(o < 0, o + L, o)
    fits = z3.And(z3.Or(o >= 0, o + total <= 0), eff >= 0, L - eff >= total)
    if not it.run.branch(fits, f'L{getattr(node, "lineno", 0)}.unpack_from_fits'):
        it.raise_(struct.error, 'unpack_from requires a larger buffer', node=node)
    eff = simp(eff)
    out, p = [], eff
    for w in widths:
        out.append(_be_value(it, buf, p, w))
        p = simp(p + w)
    return tuple(out)


def m_pack(it, args, kwargs, node):
    USED.add('struct.pack')
    fmt = args[0]
    widths = _fmt(fmt)
    out = it.run.alloc_zero(sum(widths), 'bytearray')
    m_pack_into(it, [fmt, out, 0] + list(args[1:]), {}, node)
    out.kind, out.writable = 'bytes', False
    return out


def m_len(it, args, kwargs, node):
    (v,) = args
    if isinstance(v, View):
        return v.length
    if hasattr(v, 'len_'):
        return v.len_(it, node)
    if isinstance(v, SymStr):
        if v.length is None:
            raise Unsupported('len of opaque string')
        return v.length
    if isinstance(v, SymObj):
        from .interp import _mro_dict
        d = _mro_dict(v.cls)
        if '__len__' in d:
            return it.call(d['__len__'], [v], {}, node)
        it.raise_(TypeError, f'object of type {v.cls.__name__} has no len()', node=node)
    if v is None or isinstance(v, (int, bool)) or is_sym(v) or isinstance(v, Opaque):
        it.raise_(TypeError, 'object has no len()', node=node)
    return len(v)


def sym_isinstance(it, v, t):
    """isinstance(v, t) for engine values; returns python bool"""
    if isinstance(t, tuple):
        return any(sym_isinstance(it, v, x) for x in t)
    if isinstance(t, types.UnionType):
        return any(sym_isinstance(it, v, x) for x in t.__args__)
    if is_symint(v):
        return t in (int, object)
    if is_symbool(v):
        return t in (int, bool, object)
    if isinstance(v, View):
        real = {'bytes': bytes, 'bytearray': bytearray, 'memoryview': memoryview}[v.kind]
        try:
            return issubclass(real, t)
        except TypeError:
            return False
    if isinstance(v, SymObj):
        try:
            return issubclass(v.cls, t)
        except TypeError:
            return False
    if isinstance(v, ExcVal):
        return issubclass(v.cls, t)
    if isinstance(v, SymStr):
        try:
            return issubclass(str, t)
        except TypeError:
            return False
    if isinstance(v, Opaque):
        r = v.d.get('__isinstance__')
        if r is not None:
            return r(t)
        raise Unsupported(f'isinstance of opaque {v.typ}')
    if isinstance(v, (InterpFunction, BoundMethod)):
        return t in (object, types.FunctionType) or (t is types.MethodType and isinstance(v, BoundMethod))
    if hasattr(v, 'isinstance_'):
        return v.isinstance_(t)
    return isinstance(v, t)


def m_isinstance(it, args, kwargs, node):
    return sym_isinstance(it, args[0], args[1])


def m_memoryview(it, args, kwargs, node):
    (v,) = args
    v = _need_view(it, v, node, 'memoryview: a bytes-like object is required')
    return View(v.cell, v.start, v.length, 'memoryview', v.writable)


def m_bytes(it, args, kwargs, node):
    if not args:
        return it.run.new_bytes(b'')
    v = args[0]
    if isinstance(v, View):
        out = it.run.alloc(v.length, 'bytes', v.row(it.run.heap), False)
        out.start = v.start
        return out
    if isinstance(v, (bytes, bytearray)):
        return it.run.new_bytes(bytes(v))
    if isinstance(v, (list, tuple)):
        out = it.run.alloc_zero(len(v), 'bytearray')
        for i, b in enumerate(v):
            it.setitem(out, i, b, node)
        out.kind, out.writable = 'bytes', False
        return out
    if isinstance(v, int) and not isinstance(v, bool) or is_symint(v):
        if not it.run.branch(zint(v) >= 0, 'bytes.neg'):
            it.raise_(ValueError, 'negative count', node=node)
        out = it.run.alloc_zero(v, 'bytes')
        out.writable = False
        return out
    if isinstance(v, str):
        if len(args) > 1:
            return it.run.new_bytes(v.encode(args[1]))
        it.raise_(TypeError, 'string argument without an encoding', node=node)
    if v is None:
        it.raise_(TypeError, "cannot convert 'NoneType' object to bytes", node=node)
    raise Unsupported(f'bytes({type(v).__name__})')


def m_bytearray(it, args, kwargs, node):
    v = m_bytes(it, args, kwargs, node)
    v.kind, v.writable = 'bytearray', True
    return v


def m_list(it, args, kwargs, node):
    if not args:
        return []
    v = args[0]
    if hasattr(v, 'to_list'):
        return v.to_list(it, node)
    return list(it.iterate(v, node))


def m_tuple(it, args, kwargs, node):
    return tuple(m_list(it, args, kwargs, node))


def m_enumerate(it, args, kwargs, node):
    v = args[0]
    start = args[1] if len(args) > 1 else kwargs.get('start', 0)
    if hasattr(v, 'enumerate_'):
        return v.enumerate_(it, start, node)
    return [(start + i, x) for i, x in enumerate(it.iterate(v, node))]


def m_range(it, args, kwargs, node):
    cs = [simp(a) if is_sym(a) else a for a in args]
    if all(isinstance(c, int) for c in cs):
        return range(*cs)
    from .symseq import SymRange
    return SymRange(*args)


def m_reduce(it, args, kwargs, node):
    USED.add('functools.reduce')
    fn, seq = args[0], args[1]
    if hasattr(seq, 'reduce_'):
        return seq.reduce_(it, fn, args[2] if len(args) > 2 else None, node)
    items = it.iterate(seq, node)
    if len(args) > 2:
        acc = args[2]
    else:
        if not items:
            it.raise_(TypeError, 'reduce() of empty iterable with no initial value', node=node)
        acc, items = items[0], items[1:]
    for x in items:
        acc = it.call(fn, [acc, x], {}, node)
    return acc


def m_int(it, args, kwargs, node):
    if not args:
        return 0
    v = args[0]
    if is_symint(v) or isinstance(v, int):
        return v
    if is_symbool(v):
        return zint(v)
    if isinstance(v, str):
        try:
            return int(v, *args[1:])
        except ValueError as e:
            it.raise_(ValueError, str(e), node=node)
    if v is None or isinstance(v, (SymObj, Opaque, list, dict)):
        it.raise_(TypeError, 'int() argument must be a string, a bytes-like object or a real number', node=node)
    raise Unsupported(f'int({type(v).__name__})')


def beint(it, v):
    """int.from_bytes(v, 'big') as a term: exact for short concrete lengths, else the ghost function BEINT"""
    n = simp(zint(v.length))
    if isinstance(n, int) and n <= 16:
        return _be_value(it, v, 0, n) if n else 0
    from spec.tlv import beint_term, beint_axioms
    for k in range(8):
        it.run.read(v, k)
    it.run.assume(beint_axioms(it.run.heap, v))
    return beint_term(it.run.heap, v)


def m_int_from_bytes(it, args, kwargs, node):
    USED.add('int.from_bytes (big-endian; exact for lengths 0,1,2,4,8)')
    v = _need_view(it, args[0], node)
    order = args[1] if len(args) > 1 else kwargs.get('byteorder', 'big')
    if order != 'big':
        raise Unsupported('little-endian from_bytes')
    return beint(it, v)


def m_bool(it, args, kwargs, node):
    return it.truth(args[0]) if args else False


def m_str(it, args, kwargs, node):
    if not args:
        return ''
    v = args[0]
    if isinstance(v, (str, int, float, type(None))) and not is_sym(v):
        return str(v)
    it.run.notes.append('str() of symbolic value -> placeholder text')
    return '<?>'


def m_repr(it, args, kwargs, node):
    return m_str(it, args, kwargs, node)


def m_minmax(which):
    def f(it, args, kwargs, node):
        xs = args if len(args) > 1 else it.iterate(args[0], node)
        if not xs:
            if 'default' in kwargs:
                return kwargs['default']
            it.raise_(ValueError, 'arg is an empty sequence', node=node)
        acc = xs[0]
        for x in xs[1:]:
            if not is_sym(acc) and not is_sym(x):
                acc = max(acc, x) if which == 'max' else min(acc, x)
            else:
                acc = If(zint(x) > zint(acc), x, acc) if which == 'max' else If(zint(x) < zint(acc), x, acc)
        return acc
    return f


def m_any(it, args, kwargs, node):
    if hasattr(args[0], 'any_'):
        return args[0].any_()
    for x in it.iterate(args[0], node):
        if it.branch(x, 'any'):
            return True
    return False


def m_all(it, args, kwargs, node):
    if hasattr(args[0], 'all_'):
        return args[0].all_()
    for x in it.iterate(args[0], node):
        if not it.branch(x, 'all'):
            return False
    return True


def m_issubclass(it, args, kwargs, node):
    return issubclass(args[0], args[1])


def m_type(it, args, kwargs, node):
    v = args[0]
    if isinstance(v, SymObj):
        return v.cls
    if isinstance(v, ExcVal):
        return v.cls
    if is_symint(v):
        return int
    if isinstance(v, View):
        return {'bytes': bytes, 'bytearray': bytearray, 'memoryview': memoryview}[v.kind]
    if isinstance(v, (Opaque, SymStr)):
        raise Unsupported('type() of opaque value')
    return type(v)


def m_getattr(it, args, kwargs, node):
    try:
        return it.getattr(args[0], args[1], node)
    except PyExc as e:
        if e.cls is AttributeError and len(args) > 2:
            return args[2]
        raise


def m_hasattr(it, args, kwargs, node):
    try:
        it.getattr(args[0], args[1], node)
        return True
    except PyExc as e:
        if e.cls is AttributeError:
            return False
        raise


def m_setattr(it, args, kwargs, node):
    it.setattr(args[0], args[1], args[2], node)


def m_id(it, args, kwargs, node):
    return id(args[0])


def m_noop(it, args, kwargs, node):
    return None


def m_dict(it, args, kwargs, node):
    d = {}
    if args:
        v = args[0]
        if isinstance(v, dict):
            d.update(v)
        else:
            for k, x in it.iterate(v, node):
                d[k] = x
    d.update(kwargs)
    return d


def m_set(it, args, kwargs, node):
    return set(it.iterate(args[0], node)) if args else set()


def m_sorted(it, args, kwargs, node):
    xs = it.iterate(args[0], node)
    if any(is_sym(x) for x in xs) or kwargs:
        raise Unsupported('sorted over symbolic values / with key')
    return sorted(xs)


def m_zip(it, args, kwargs, node):
    return list(zip(*[it.iterate(a, node) for a in args]))


def m_abs(it, args, kwargs, node):
    v = args[0]
    return If(zint(v) < 0, -zint(v), v) if is_sym(v) else abs(v)


def m_sum(it, args, kwargs, node):
    acc = args[1] if len(args) > 1 else 0
    for x in it.iterate(args[0], node):
        acc = it.binop(ast.Add(), acc, x, node)
    return acc


def m_callable(it, args, kwargs, node):
    v = args[0]
    return isinstance(v, (InterpFunction, BoundMethod)) or callable(v)


def m_print(it, args, kwargs, node):
    return None


class Sha256Obj:
    """hashlib.sha256() object: ghost list of blocks fed so far; digest is an uninterpreted function of them"""

    def __init__(self, it, init=None):
        self.blocks = []
        if init is not None:
            self.blocks.append((init, it.run.heap))

    def getattr_(self, it, name, node):
        return BoundMethod(('sha256', name), self)


def m_sha256(it, args, kwargs, node):
    USED.add('hashlib.sha256 (uninterpreted)')
    return Sha256Obj(it, _need_view(it, args[0], node) if args else None)


def sha256_digest_view(it, blocks):
    """result of sha256 over the concatenation of blocks: 32 fresh bytes determined by a ghost id;
    the relation digest == SHA256(blocks) is recorded as a ghost fact on the run"""
    out = it.run.alloc(32, 'bytes', it.run.fresh_row('sha256'), False)
    it.run.ghost.setdefault('sha256_calls', []).append((out, list(blocks), it.run.heap))
    return out


BUILTIN_MODELS = {
    struct.pack_into: m_pack_into, struct.unpack: m_unpack, struct.unpack_from: m_unpack_from, struct.pack: m_pack,
    len: m_len, isinstance: m_isinstance, memoryview: m_memoryview, bytes: m_bytes, bytearray: m_bytearray,
    list: m_list, tuple: m_tuple, enumerate: m_enumerate, range: m_range, functools.reduce: m_reduce,
    int: m_int, bool: m_bool, str: m_str, repr: m_repr, max: m_minmax('max'), min: m_minmax('min'),
    any: m_any, all: m_all, issubclass: m_issubclass, type: m_type, getattr: m_getattr, hasattr: m_hasattr,
    setattr: m_setattr, id: m_id, dict: m_dict, set: m_set, sorted: m_sorted, zip: m_zip, abs: m_abs, sum: m_sum,
    callable: m_callable, print: m_print, hashlib.sha256: m_sha256, int.from_bytes: m_int_from_bytes,
}
try:
    import _hashlib
    BUILTIN_MODELS[_hashlib.openssl_sha256] = m_sha256
except Exception:      # noqa
    pass

REAL_FUNCTION_MODELS = {}


STR_JOIN_HOOK = None
BYTES_JOIN_HOOK = None
# structured text (contracts/uri.py): an object with fstring / join / hex / format / view_comp methods.  Active only in
# runs whose contract switched it on (run.ghost['text_mode']); everywhere else text with symbolic parts stays a placeholder.
TEXT_HOOK = None


def text_mode(it):
    return TEXT_HOOK is not None and bool(it.run.ghost.get('text_mode'))


def call_builtin(it, f, args, kwargs, node):
    try:
        m = BUILTIN_MODELS.get(f)
    except TypeError:
        m = None
    if m is not None:
        return m(it, args, kwargs, node)
    # logging: arguments were already evaluated; the effect is dropped (stated in evidence)
    if isinstance(f, types.MethodType) and isinstance(f.__self__, (logging.Logger, logging.LoggerAdapter)):
        USED.add('logging (effect dropped, arguments evaluated)')
        if f.__name__ == 'isEnabledFor':
            return it.run.fresh_bool('logenabled')
        return None
    if f is logging.getLogger:
        return logging.getLogger(*[a for a in args if isinstance(a, str)])
    if getattr(f, '__module__', None) == 'logging':
        USED.add('logging (effect dropped, arguments evaluated)')
        return None
    if inspect.isclass(f):
        return instantiate(it, f, args, kwargs, node)
    # methods of run-local python containers / strings: executed natively (values are opaque to them)
    if isinstance(f, (types.BuiltinMethodType, types.BuiltinFunctionType, types.MethodWrapperType)):
        selfobj = getattr(f, '__self__', None)
        if isinstance(selfobj, (list, dict, set)):
            return container_method(it, selfobj, f.__name__, args, kwargs, node)
        if isinstance(selfobj, (str, bytes, int, tuple, frozenset)) or selfobj is None or isinstance(selfobj, types.ModuleType):
            if isinstance(selfobj, bytes) and f.__name__ == 'join' and BYTES_JOIN_HOOK is not None and len(args) == 1 \
                    and not isinstance(args[0], (list, tuple)):
                return BYTES_JOIN_HOOK(it, selfobj, args[0])
            if isinstance(selfobj, str) and f.__name__ in ('join', 'format') and text_mode(it):
                r = TEXT_HOOK.join(it, selfobj, args[0], node) if f.__name__ == 'join' and len(args) == 1 and not kwargs \
                    else (TEXT_HOOK.format(it, selfobj, args, kwargs, node) if f.__name__ == 'format' else NotImplemented)
                if r is not NotImplemented:
                    return r
            if isinstance(selfobj, str) and f.__name__ == 'join' and STR_JOIN_HOOK is not None and len(args) == 1 \
                    and isinstance(args[0], (list, tuple)) and any(hasattr(p, 'label') or hasattr(p, 'kind') for p in args[0]):
                return STR_JOIN_HOOK(it, selfobj, list(args[0]))
            if all(_concrete(a) for a in args) and all(_concrete(a) for a in kwargs.values()):
                try:
                    return f(*args, **kwargs)
                except Exception as e:      # noqa
                    if isinstance(selfobj, types.ModuleType) and selfobj.__name__ in _ENV_MODULES:
                        # a real operating-system call made on a value of the contract's ABSTRACT environment (a path that
                        # exists only in the model, ...): its failure says nothing about the program (seed C20-seed14 was
                        # credited to a TypeError out of os.stat on a modelled path; a harmless os.stat would have alarmed)
                        raise Unsupported(f'environment call {selfobj.__name__}.{f.__name__} has no model in this contract')
                    it.raise_(type(e), *e.args, node=node)
            if isinstance(selfobj, str) and f.__name__ == 'join':
                parts = it.iterate(args[0], node)
                if all(isinstance(p, str) for p in parts):
                    return selfobj.join(parts)
                it.run.notes.append('str.join with symbolic parts -> placeholder')
                return '<?>'
            if isinstance(selfobj, str) and f.__name__ == 'format':
                it.run.notes.append('str.format with symbolic parts -> placeholder')
                return '<?>'
    raise Unsupported(f'call of {f!r} (no contract, no model) at L{getattr(node, "lineno", "?")}')


_ENV_MODULES = ('posix', 'nt', '_io', 'io', '_socket', 'socket', 'shutil', 'select', '_thread')


def _concrete(a):
    if is_sym(a) or isinstance(a, (View, SymObj, Opaque, SymStr, InterpFunction, BoundMethod, ExcVal)):
        return False
    if isinstance(a, (list, tuple, set, frozenset)):
        return all(_concrete(x) for x in a)
    if isinstance(a, dict):
        return all(_concrete(k) and _concrete(v) for k, v in a.items())
    return True


def container_method(it, c, name, args, kwargs, node):
    if isinstance(c, dict):
        for k in args[:1]:
            if name in ('get', 'pop', 'setdefault', '__contains__', '__getitem__') and (is_sym(k) or isinstance(k, (View, SymObj))):
                raise Unsupported('symbolic dict key')
    if isinstance(c, list) and name in ('index', 'remove', 'count', '__contains__'):
        x = args[0]
        if name == 'count':
            n = 0
            for e in c:
                n = n + If(it.compare(ast.Eq(), e, x, node), 1, 0)
            return n
        for i, e in enumerate(c):
            if it.run.branch(it.compare(ast.Eq(), e, x, node), f'list.{name}'):
                if name == 'index':
                    return i
                if name == 'remove':
                    del c[i]
                    return None
                return True
        if name == '__contains__':
            return False
        it.raise_(ValueError, 'x not in list', node=node)
    if isinstance(c, list) and name == 'sort':
        if any(is_sym(x) for x in c) or kwargs:
            raise Unsupported('sort of symbolic list')
    if isinstance(c, list) and name == 'extend':
        c.extend(it.iterate(args[0], node))
        return None
    try:
        return getattr(c, name)(*args, **kwargs)
    except (KeyError, IndexError, TypeError, ValueError) as e:
        it.raise_(type(e), *e.args, node=node)


def instantiate(it, cls, args, kwargs, node):
    if issubclass(cls, BaseException):
        v = ExcVal(cls, args)
        init = cls.__dict__.get('__init__')
        if isinstance(init, types.FunctionType):
            obj = v
            it.call(init, [obj] + list(args), kwargs, node)
        return v
    from .interp import _in_repo_class, _static_lookup, _MISSING
    if _in_repo_class(cls) or cls.__module__.startswith('ndn'):
        if isinstance(cls, type) and issubclass(cls, (int, str)) and not dataclasses.is_dataclass(cls):
            # enums / flags: concrete only
            if all(_concrete(a) for a in args):
                try:
                    return cls(*args, **kwargs)
                except Exception as e:      # noqa
                    it.raise_(type(e), *e.args, node=node)
            raise Unsupported(f'symbolic enum construction {cls.__name__}')
        import enum
        if issubclass(cls, enum.Enum):
            if all(_concrete(a) for a in args):
                try:
                    return cls(*args, **kwargs)
                except Exception as e:      # noqa
                    it.raise_(type(e), *e.args, node=node)
            raise Unsupported('symbolic enum construction')
        obj = SymObj(cls, {})
        obj.complete = True
        if dataclasses.is_dataclass(cls) and '__init__' in cls.__dict__ and \
                getattr(cls.__dict__['__init__'], '__qualname__', '').endswith('__init__') and \
                not _has_source(cls.__dict__['__init__']):
            USED.add('dataclasses generated __init__ (modelled)')
            fields = [f for f in dataclasses.fields(cls) if f.init]
            vals = dict(zip([f.name for f in fields], args))
            for k, v in kwargs.items():
                if k in vals:
                    it.raise_(TypeError, f'multiple values for {k}', node=node)
                vals[k] = v
            for f in fields:
                if f.name in vals:
                    obj.d[f.name] = vals[f.name]
                elif f.default is not dataclasses.MISSING:
                    obj.d[f.name] = f.default
                elif f.default_factory is not dataclasses.MISSING:
                    obj.d[f.name] = f.default_factory()
                else:
                    it.raise_(TypeError, f'missing argument {f.name}', node=node)
            return obj
        init = _static_lookup(cls, '__init__')
        if isinstance(init, types.FunctionType):
            it.call(init, [obj] + list(args), kwargs, node)
        elif args or kwargs:
            it.raise_(TypeError, f'{cls.__name__}() takes no arguments', node=node)
        return obj
    if all(_concrete(a) for a in args) and all(_concrete(a) for a in kwargs.values()):
        try:
            return cls(*args, **kwargs)
        except Exception as e:      # noqa
            it.raise_(type(e), *e.args, node=node)
    raise Unsupported(f'instantiation of {cls!r} with symbolic arguments')


def _has_source(fn):
    try:
        return fn.__code__.co_filename.startswith('/') and not fn.__code__.co_filename.startswith('<')
    except AttributeError:
        return False


def value_method(it, tag, selfv, args, kwargs, node):
    kind, name = tag
    if kind == 'view':
        v = selfv
        if name == 'hex':
            if text_mode(it) and not args and not kwargs:
                return TEXT_HOOK.hex(it, v, node)
            it.run.notes.append('bytes.hex() -> placeholder text')
            return '<hex>'
        if name == 'tobytes':
            return m_bytes(it, [v], {}, node)
        if name == 'join' and BYTES_JOIN_HOOK is not None and len(args) == 1 and not isinstance(args[0], (list, tuple)) \
                and isinstance(simp(zint(v.length)), int) and simp(zint(v.length)) == 0:
            return BYTES_JOIN_HOOK(it, b'', args[0])
        if name == 'decode':
            USED.add('bytes.decode (opaque text with ghost utf-8 bytes; UnicodeDecodeError possible)')
            if it.run.branch(it.run.fresh_bool('utf8_invalid'), 'decode.invalid'):
                it.raise_(UnicodeDecodeError, 'invalid utf-8', node=node)
            return SymStr(it.run.fresh_name('text'), None, (v, it.run.heap))
        if name == 'release':
            return None
        if name == '__len__':
            return v.length
        if name == 'startswith' or name == 'endswith':
            raise Unsupported(f'bytes.{name}')
        raise Unsupported(f'bytes method {name}')
    if kind == 'symint':
        if name == 'to_bytes':
            raise Unsupported('int.to_bytes on symbolic int')
        raise Unsupported(f'int method {name}')
    if kind == 'symstr':
        if name == 'encode':
            if selfv.utf8 is not None:
                vv, h = selfv.utf8
                out = it.run.alloc(vv.length, 'bytes', vv.row(h), False)
                out.start = vv.start
                return out
            raise Unsupported('encode of opaque string')
        raise Unsupported(f'str method {name} on opaque string')
    if kind == 'sha256':
        if name == 'update':
            selfv.blocks.append((_need_view(it, args[0], node), it.run.heap))
            return None
        if name == 'digest':
            return sha256_digest_view(it, selfv.blocks)
        raise Unsupported(f'sha256.{name}')
    raise Unsupported(f'method {tag}')
