"""Symbolic-length sequences (placeholder module; extended as contracts need them)."""
from .zutil import *
from .run import Unsupported


class SymRange:
    def __init__(self, *args):
        if len(args) == 1:
            self.lo, self.hi = 0, args[0]
        elif len(args) == 2:
            self.lo, self.hi = args
        else:
            raise Unsupported('range with step over symbolic bounds')

    def iterate(self, it, node):
        lo = it.run.concretize(zint(self.lo), 'range.lo')
        hi = it.run.concretize(zint(self.hi), 'range.hi')
        return list(range(lo, hi))
