"""Symbolic-length sequences: ranges and lists of byte strings (FormalName = list of components).

BufSeq models a python list whose elements are byte strings: element j is View(cells[j], starts[j], lens[j]).
Ghost vocabulary (trusted axiomatisation, instantiated on demand, listed in evidence):
  PS(lens, k)   prefix sum of the first k lengths:  PS(a,0)=0, PS(a,k+1)=PS(a,k)+a[k], a[k]>=0,
                PS(Store(a,n,v),k)=PS(a,k) for k<=n  (append does not change earlier prefix sums)
"""
import z3
from .zutil import *
from .run import View, Unsupported, PathEnd
from .values import BoundMethod

PS = z3.Function('PS', ROW, INT, INT)


class SymRange:
    def __init__(self, *args):
        if len(args) == 1:
            self.lo, self.hi = 0, args[0]
        elif len(args) == 2:
            self.lo, self.hi = args
        else:
            raise Unsupported('range with step over symbolic bounds')

    def iterate(self, it, node):
        lo = it.run.concretize(zint(self.lo), 'range.lo')
        hi = it.run.concretize(zint(self.hi), 'range.hi')
        return list(range(lo, hi))

    # for loops with a specification
    def seq_len(self):
        return If(zint(self.hi) > zint(self.lo), zint(self.hi) - zint(self.lo), 0)

    def elem(self, it, i):
        return simp(zint(self.lo) + zint(i))


class _Method:
    def __init__(self, f):
        self.f = f

    def call_(self, it, args, kwargs, node):
        return self.f(it, *args, **kwargs)


class BufSeq:
    def __init__(self, run, n, cells, starts, lens, kind='bytearray', writable=False, label='seq'):
        self.run, self.n, self.cells, self.starts, self.lens = run, n, cells, starts, lens
        self.kind, self.writable, self.label = kind, writable, label

    @staticmethod
    def fresh(run, label, kind='bytearray', input_cells=True):
        n = run.fresh_int(label + '_n')
        run.assume(n >= 0)
        s = BufSeq(run, n, run.fresh_row(label + '_cells'), run.fresh_row(label + '_starts'),
                   run.fresh_row(label + '_lens'), kind, False, label)
        return s

    @staticmethod
    def empty(run, kind='memoryview'):
        return BufSeq(run, 0, z3.K(INT, z3.IntVal(0)), z3.K(INT, z3.IntVal(0)), z3.K(INT, z3.IntVal(0)), kind)

    def copy(self):
        return BufSeq(self.run, self.n, self.cells, self.starts, self.lens, self.kind, self.writable, self.label)

    # ---- ghost
    def elem(self, it, j):
        j = zint(j)
        ln = z3.Select(self.lens, j)
        self.run.assume(ln >= 0)
        return View(simp(z3.Select(self.cells, j)), simp(z3.Select(self.starts, j)), simp(ln), self.kind, self.writable)

    def psum(self, k):
        """PS(lens, k) with the defining axioms instantiated around k"""
        k = simp(zint(k))
        a = self.lens
        r = self.run
        r.assume(PS(a, z3.IntVal(0)) == 0)
        n = zint(self.n)
        # monotonicity instance (true by induction since every length is >= 0): PS(k) <= PS(n) for 0 <= k <= n
        r.assume(z3.Implies(z3.And(zint(k) >= 0, zint(k) <= n), z3.And(PS(a, zint(k)) <= PS(a, n), PS(a, zint(k)) >= 0)))
        if not isinstance(k, int):
            r.assume(z3.Implies(z3.And(zint(k) >= 0, zint(k) + 1 <= n), PS(a, zint(k) + 1) <= PS(a, n)))
        if isinstance(k, int):
            for j in range(k):
                r.assume(z3.And(z3.Select(a, j) >= 0, PS(a, z3.IntVal(j + 1)) == PS(a, z3.IntVal(j)) + z3.Select(a, j)))
            return PS(a, z3.IntVal(k))
        r.assume(z3.Implies(k >= 0, z3.And(z3.Select(a, k) >= 0, PS(a, k + 1) == PS(a, k) + z3.Select(a, k), PS(a, k) >= 0)))
        r.assume(z3.Implies(k >= 1, z3.And(z3.Select(a, k - 1) >= 0, PS(a, k) == PS(a, k - 1) + z3.Select(a, k - 1), PS(a, k - 1) >= 0)))
        return PS(a, k)

    def total(self):
        return self.psum(self.n)

    def seq_len(self):
        return self.n

    # ---- python protocol hooks used by the interpreter
    def len_(self, it, node):
        return self.n

    def truth(self, it):
        return simp(zint(self.n) != 0)

    def isinstance_(self, t):
        try:
            return issubclass(list, t)
        except TypeError:
            return False

    def iterate(self, it, node):
        n = simp(zint(self.n))
        if not isinstance(n, int):
            raise Unsupported('iteration over a symbolic-length list without a loop specification')
        return [self.elem(it, j) for j in range(n)]

    def to_list(self, it, node):
        return self.copy()

    def enumerate_(self, it, start, node):
        return SymEnumerate(self, start)

    def getitem(self, it, idx, node):
        i, n = zint(idx), zint(self.n)
        if not it.run.branch(z3.And(i >= -n, i < n), 'list.index_ok'):
            it.raise_(IndexError, 'list index out of range', node=node)
        return self.elem(it, simp(z3.If(i < 0, i + n, i)))

    def setitem(self, it, idx, val, node):
        if not isinstance(val, View):
            raise Unsupported('assignment of non-bytes into a list of byte strings')
        i, n = zint(idx), zint(self.n)
        if not it.run.branch(z3.And(i >= -n, i < n), 'list.index_ok'):
            it.raise_(IndexError, 'list assignment index out of range', node=node)
        j = simp(z3.If(i < 0, i + n, i))
        self.cells = z3.Store(self.cells, j, zint(val.cell))
        self.starts = z3.Store(self.starts, j, zint(val.start))
        self.lens = z3.Store(self.lens, j, zint(val.length))

    def getslice(self, it, lo, hi, node):
        s, n = it.norm_slice(self.n, lo, hi)
        if simp(s) != 0:
            raise Unsupported('list slice with non-zero start')
        return BufSeq(self.run, n, self.cells, self.starts, self.lens, self.kind, self.writable, self.label + '[:]')

    def append(self, it, v):
        if not isinstance(v, View):
            raise Unsupported('append of non-bytes to a list of byte strings')
        n = zint(self.n)
        old_lens = self.lens
        self.cells = z3.Store(self.cells, n, zint(v.cell))
        self.starts = z3.Store(self.starts, n, zint(v.start))
        self.lens = z3.Store(self.lens, n, zint(v.length))
        # append keeps earlier prefix sums (axiom instance at k = n) and extends by one
        k = z3.Int('k!app')
        self.run.assume(z3.ForAll([k], z3.Implies(z3.And(k >= 0, k <= n), PS(self.lens, k) == PS(old_lens, k))))
        self.run.assume(PS(self.lens, n) == PS(old_lens, n))
        self.run.assume(PS(self.lens, n + 1) == PS(old_lens, n) + zint(v.length))
        self.n = simp(n + 1)
        return None

    def getattr_(self, it, name, node):
        if name == 'append':
            return _Method(lambda it_, v: self.append(it_, v))
        raise Unsupported(f'list method {name} on symbolic list')

    def reduce_(self, it, fn, init, node):
        """functools.reduce(fn, self, init): supported when fn(x, y) == x + len(y) (checked symbolically)"""
        if init is None:
            raise Unsupported('reduce without initial value over symbolic list')
        x, ln = it.run.fresh_int('rx'), it.run.fresh_int('rl')
        y = View(it.run.fresh_int('rc'), it.run.fresh_int('rs'), ln, self.kind)
        r = it.call(fn, [x, y], {}, node)
        s = z3.Solver()
        s.add(z3.Not(zint(r) == x + ln))
        if s.check() != z3.unsat:
            raise Unsupported('reduce function is not x + len(y)')
        return simp(zint(init) + self.total())

    def compare(self, it, op, other, node):
        raise Unsupported('comparison of symbolic lists')


class SymEnumerate:
    def __init__(self, seq, start=0):
        self.seq, self.start = seq, start

    def seq_len(self):
        return self.seq.seq_len()

    def elem(self, it, i):
        return (simp(zint(self.start) + zint(i)), self.seq.elem(it, i))

    def iterate(self, it, node):
        return [(self.start + j, x) for j, x in enumerate(self.seq.iterate(it, node))]
