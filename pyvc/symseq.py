"""Symbolic-length sequences: ranges and lists of byte strings (FormalName = list of components).

BufSeq models a python list whose elements are byte strings: element j is View(cells[j], starts[j], lens[j]).
Ghost vocabulary (trusted axiomatisation, instantiated on demand, listed in evidence):
  PS(lens, k)   prefix sum of the first k lengths:  PS(a,0)=0, PS(a,k+1)=PS(a,k)+a[k], a[k]>=0,
                PS(Store(a,n,v),k)=PS(a,k) for k<=n  (append does not change earlier prefix sums)
"""
import z3
from .zutil import *
from .run import View, Unsupported, PathEnd
from .values import BoundMethod

PS = z3.Function('PS', ROW, INT, INT)


class SymRange:
    def __init__(self, *args):
        if len(args) == 1:
            self.lo, self.hi = 0, args[0]
        elif len(args) == 2:
            self.lo, self.hi = args
        else:
            raise Unsupported('range with step over symbolic bounds')

    def iterate(self, it, node):
        lo = it.run.concretize(zint(self.lo), 'range.lo')
        hi = it.run.concretize(zint(self.hi), 'range.hi')
        return list(range(lo, hi))

    # for loops with a specification
    def seq_len(self):
        return If(zint(self.hi) > zint(self.lo), zint(self.hi) - zint(self.lo), 0)

    def elem(self, it, i):
        return simp(zint(self.lo) + zint(i))


class _Method:
    def __init__(self, f):
        self.f = f

    def call_(self, it, args, kwargs, node):
        return self.f(it, *args, **kwargs)


class BufSeq:
    def __init__(self, run, n, cells, starts, lens, kind='bytearray', writable=False, label='seq'):
        self.run, self.n, self.cells, self.starts, self.lens = run, n, cells, starts, lens
        self.kind, self.writable, self.label = kind, writable, label

    @staticmethod
    def fresh(run, label, kind='bytearray', input_cells=True):
        n = run.fresh_int(label + '_n')
        run.assume(n >= 0)
        s = BufSeq(run, n, run.fresh_row(label + '_cells'), run.fresh_row(label + '_starts'),
                   run.fresh_row(label + '_lens'), kind, False, label)
        return s

    @staticmethod
    def empty(run, kind='memoryview'):
        return BufSeq(run, 0, z3.K(INT, z3.IntVal(0)), z3.K(INT, z3.IntVal(0)), z3.K(INT, z3.IntVal(0)), kind)

    def copy(self):
        return BufSeq(self.run, self.n, self.cells, self.starts, self.lens, self.kind, self.writable, self.label)

    # ---- ghost
    def elem(self, it, j):
        j = zint(j)
        ln = z3.Select(self.lens, j)
        self.run.assume(ln >= 0)
        return View(simp(z3.Select(self.cells, j)), simp(z3.Select(self.starts, j)), simp(ln), self.kind, self.writable)

    def psum(self, k):
        """PS(lens, k) with the defining axioms instantiated around k"""
        k = simp(zint(k))
        a = self.lens
        r = self.run
        r.assume(PS(a, z3.IntVal(0)) == 0)
        n = zint(self.n)
        # monotonicity instance (true by induction since every length is >= 0): PS(k) <= PS(n) for 0 <= k <= n
        r.assume(z3.Implies(z3.And(zint(k) >= 0, zint(k) <= n), z3.And(PS(a, zint(k)) <= PS(a, n), PS(a, zint(k)) >= 0)))
        if not isinstance(k, int):
            r.assume(z3.Implies(z3.And(zint(k) >= 0, zint(k) + 1 <= n), PS(a, zint(k) + 1) <= PS(a, n)))
        if isinstance(k, int):
            for j in range(k):
                r.assume(z3.And(z3.Select(a, j) >= 0, PS(a, z3.IntVal(j + 1)) == PS(a, z3.IntVal(j)) + z3.Select(a, j)))
            return PS(a, z3.IntVal(k))
        r.assume(z3.Implies(k >= 0, z3.And(z3.Select(a, k) >= 0, PS(a, k + 1) == PS(a, k) + z3.Select(a, k), PS(a, k) >= 0)))
        r.assume(z3.Implies(k >= 1, z3.And(z3.Select(a, k - 1) >= 0, PS(a, k) == PS(a, k - 1) + z3.Select(a, k - 1), PS(a, k - 1) >= 0)))
        return PS(a, k)

    def total(self):
        return self.psum(self.n)

    def seq_len(self):
        return self.n

    # ---- python protocol hooks used by the interpreter
    def len_(self, it, node):
        return self.n

    def truth(self, it):
        return simp(zint(self.n) != 0)

    def isinstance_(self, t):
        try:
            return issubclass(list, t)
        except TypeError:
            return False

    def iterate(self, it, node):
        n = simp(zint(self.n))
        if not isinstance(n, int):
            raise Unsupported('iteration over a symbolic-length list without a loop specification')
        return [self.elem(it, j) for j in range(n)]

    def to_list(self, it, node):
        return self.copy()

    def enumerate_(self, it, start, node):
        return SymEnumerate(self, start)

    def getitem(self, it, idx, node):
        i, n = zint(idx), zint(self.n)
        if not it.run.branch(z3.And(i >= -n, i < n), 'list.index_ok'):
            it.raise_(IndexError, 'list index out of range', node=node)
        return self.elem(it, simp(z3.If(i < 0, i + n, i)))

    def setitem(self, it, idx, val, node):
        if not isinstance(val, View):
            raise Unsupported('assignment of non-bytes into a list of byte strings')
        i, n = zint(idx), zint(self.n)
        if not it.run.branch(z3.And(i >= -n, i < n), 'list.index_ok'):
            it.raise_(IndexError, 'list assignment index out of range', node=node)
        j = simp(z3.If(i < 0, i + n, i))
        self.cells = z3.Store(self.cells, j, zint(val.cell))
        self.starts = z3.Store(self.starts, j, zint(val.start))
        self.lens = z3.Store(self.lens, j, zint(val.length))

    def getslice(self, it, lo, hi, node):
        s, n = it.norm_slice(self.n, lo, hi)
        ss = simp(s)
        if not (isinstance(ss, int) and ss == 0):
            raise Unsupported('list slice with non-zero start')
        return BufSeq(self.run, n, self.cells, self.starts, self.lens, self.kind, self.writable, self.label + '[:]')

    def append(self, it, v):
        if not isinstance(v, View):
            raise Unsupported('append of non-bytes to a list of byte strings')
        n = zint(self.n)
        old_lens = self.lens
        self.cells = z3.Store(self.cells, n, zint(v.cell))
        self.starts = z3.Store(self.starts, n, zint(v.start))
        self.lens = z3.Store(self.lens, n, zint(v.length))
        # append keeps earlier prefix sums (axiom instance at k = n) and extends by one
        k = z3.Int('k!app')
        self.run.assume(z3.ForAll([k], z3.Implies(z3.And(k >= 0, k <= n), PS(self.lens, k) == PS(old_lens, k))))
        self.run.assume(PS(self.lens, n) == PS(old_lens, n))
        self.run.assume(PS(self.lens, n + 1) == PS(old_lens, n) + zint(v.length))
        self.n = simp(n + 1)
        return None

    def getattr_(self, it, name, node):
        if name == 'append':
            return _Method(lambda it_, v: self.append(it_, v))
        raise Unsupported(f'list method {name} on symbolic list')

    def binop_(self, it, op, other, node):
        import ast as _ast
        if isinstance(op, _ast.Add) and isinstance(other, (list, BufSeq)):
            out = self.copy()
            items = other if isinstance(other, list) else other.iterate(it, node)
            for v in items:
                out.append(it, v)
            return out
        raise Unsupported('operation on a symbolic list')

    def reduce_(self, it, fn, init, node):
        """functools.reduce(fn, self, init): supported when fn(x, y) == x + len(y) (checked symbolically)"""
        if init is None:
            raise Unsupported('reduce without initial value over symbolic list')
        x, ln = it.run.fresh_int('rx'), it.run.fresh_int('rl')
        y = View(it.run.fresh_int('rc'), it.run.fresh_int('rs'), ln, self.kind)
        r = it.call(fn, [x, y], {}, node)
        s = z3.Solver()
        s.add(z3.Not(zint(r) == x + ln))
        if s.check() != z3.unsat:
            raise Unsupported('reduce function is not x + len(y)')
        return simp(zint(init) + self.total())

    def elems_equal(self, heap, other, upto):
        """for every j in [0, upto): element j of self and of other are byte strings of equal length and content"""
        j, k = z3.Int('j!leq'), z3.Int('k!leq')
        la, lb = z3.Select(self.lens, j), z3.Select(other.lens, j)
        ra = z3.Select(z3.Select(heap, z3.Select(self.cells, j)), z3.Select(self.starts, j) + k)
        rb = z3.Select(z3.Select(heap, z3.Select(other.cells, j)), z3.Select(other.starts, j) + k)
        return z3.ForAll([j], z3.Implies(z3.And(j >= 0, j < zint(upto)), z3.And(
            la == lb, z3.ForAll([k], z3.Implies(z3.And(k >= 0, k < la), ra == rb)))))

    def compare(self, it, op, other, node):
        """list == list / list != list: same length and element-wise equal byte strings (bytes, bytearray and memoryview
        elements compare by content in CPython)"""
        import ast as _ast
        if isinstance(op, (_ast.Eq, _ast.NotEq)) and isinstance(other, BufSeq):
            eq = z3.And(zint(self.n) == zint(other.n), self.elems_equal(it.run.heap, other, self.n))
            return eq if isinstance(op, _ast.Eq) else z3.Not(eq)
        raise Unsupported('comparison of symbolic lists')


class SymEnumerate:
    def __init__(self, seq, start=0):
        self.seq, self.start = seq, start

    def seq_len(self):
        return self.seq.seq_len()

    def elem(self, it, i):
        return (simp(zint(self.start) + zint(i)), self.seq.elem(it, i))

    def iterate(self, it, node):
        return [(self.start + j, x) for j, x in enumerate(self.seq.iterate(it, node))]


# ----------------------------------------------------------------------------- symbolic maps over opaque keys
BOOLROW = z3.ArraySort(INT, z3.BoolSort())


class KeyTok:
    """an opaque hashable key (e.g. a bytes node id) known only up to equality: `kid` is its ghost identity"""

    def __init__(self, kid, label='key'):
        self.kid, self.label = kid, label

    def compare(self, it, op, other, node):
        import ast as _ast
        if isinstance(other, KeyTok):
            r = simp(zint(self.kid) == zint(other.kid))
        else:
            r = False
        if isinstance(op, _ast.Eq):
            return r
        if isinstance(op, _ast.NotEq):
            return Not(r)
        raise Unsupported('ordering of opaque keys')

    def truth(self, it):
        return True

    def __repr__(self):
        return f'<KeyTok {self.kid}>'


class SymMap:
    """dict over opaque keys: dom[k] (membership) and val[k]; iteration order is arbitrary"""

    def __init__(self, run, label, dom=None, val=None, none=None):
        self.run, self.label = run, label
        self.dom = dom if dom is not None else z3.K(INT, z3.BoolVal(False))
        self.val = val if val is not None else z3.K(INT, z3.IntVal(0))
        self.none = none            # optional Int->Bool array: value is None

    @staticmethod
    def fresh(run, label):
        return SymMap(run, label, z3.Const(run.fresh_name(label + '_dom'), BOOLROW), run.fresh_row(label + '_val'))

    def copy(self):
        return SymMap(self.run, self.label + "'", self.dom, self.val, self.none)

    def has(self, k):
        return z3.Select(self.dom, zint(k.kid))

    def at(self, k):
        return z3.Select(self.val, zint(k.kid))

    def lookup(self, k):
        from .values import OptInt
        if self.none is not None:
            return OptInt(simp(z3.Select(self.none, zint(k.kid))), self.at(k))
        return self.at(k)

    def store(self, k, v):
        from .values import OptInt
        kid = zint(k.kid)
        self.dom = z3.Store(self.dom, kid, z3.BoolVal(True))
        if isinstance(v, OptInt):
            if self.none is None:
                self.none = z3.K(INT, z3.BoolVal(False))
            self.none = z3.Store(self.none, kid, zbool(v.isnone))
            self.val = z3.Store(self.val, kid, zint(v.val))
        else:
            if v is None:
                if self.none is None:
                    self.none = z3.K(INT, z3.BoolVal(False))
                self.none = z3.Store(self.none, kid, z3.BoolVal(True))
                return
            if self.none is not None:
                self.none = z3.Store(self.none, kid, z3.BoolVal(False))
            self.val = z3.Store(self.val, kid, zint(v))

    def same_as(self, other):
        """extensional equality on the domain"""
        k = z3.Int('k!map')
        return z3.ForAll([k], z3.And(z3.Select(self.dom, k) == z3.Select(other.dom, k),
                                     z3.Implies(z3.Select(self.dom, k), z3.Select(self.val, k) == z3.Select(other.val, k))))


class SymItems:
    """m.items() / m.keys() of a SymMap, for `for` loops with a specification (set protocol: ghost visited set)"""
    set_protocol = True

    def __init__(self, m, what='items'):
        self.m, self.what = m, what

    def iterate(self, it, node):
        raise Unsupported('iteration over a symbolic dict needs a loop specification')

    def binop_sub(self, it, other):
        return SymKeyDiff(self.m, other.m)

    def comp_(self, it, n, fr):
        """(cond(k, v) for k, v in m.items()): the element expression evaluated at a GENERIC key of the map; the result is
        only meaningful to any() / all(), which turn it into a quantifier over the keys of the map"""
        import ast as _ast
        from .values import Frame
        if not isinstance(n, (_ast.GeneratorExp, _ast.ListComp)) or len(n.generators) != 1:
            return NotImplemented
        g = n.generators[0]
        run = it.run
        kq = z3.Int(run.fresh_name('k!gen'))
        key = KeyTok(kq)
        f2 = Frame(fr.fn, fr, fr.globals)
        f2.nonlocals = set()
        before = len(run.decisions)
        it.assign_target(g.target, (key, self.m.lookup(key)) if self.what == 'items' else key, f2)
        conds = [it.eval(c, f2) for c in g.ifs]
        elt = it.eval(n.elt, f2)
        if len(run.decisions) != before:
            raise Unsupported('the element expression of a comprehension over a symbolic dict forks on symbolic state')
        if not (is_sym(elt) or isinstance(elt, bool)) or any(not (is_sym(c) or isinstance(c, bool)) for c in conds):
            raise Unsupported('comprehension over a symbolic dict whose elements are not truth values')
        guard = z3.And(z3.Select(self.m.dom, kq), *[zbool(c) for c in conds])
        return QuantGen(kq, guard, zbool(elt))


class QuantGen:
    """the truth values cond(k) for the keys k of a symbolic map satisfying guard(k): argument of any() / all()"""

    def __init__(self, var, guard, body):
        self.var, self.guard, self.body = var, guard, body

    def any_(self):
        return z3.Exists([self.var], z3.And(self.guard, self.body))

    def all_(self):
        return z3.ForAll([self.var], z3.Implies(self.guard, self.body))

    def iterate(self, it, node):
        raise Unsupported('a quantified comprehension can only be passed to any() / all()')


class SymKeyDiff:
    def __init__(self, a, b):
        self.a, self.b = a, b

    def len_(self, it, node):
        c = it.run.fresh_int('ndiff')
        k = z3.Int('k!diff')
        it.run.assume(c >= 0)
        it.run.assume((c > 0) == z3.Exists([k], z3.And(z3.Select(self.a.dom, k), z3.Not(z3.Select(self.b.dom, k)))))
        return c


class LazyDict(dict):
    """what `{}` evaluates to: an ordinary dict until an opaque key (KeyTok) is used, then a SymMap"""

    def __init__(self, *a, **k):
        super().__init__(*a, **k)
        self.sym = None
        self.run = None

    def _sym(self, it):
        if self.sym is None:
            if len(self):
                raise Unsupported('dict mixing concrete and opaque keys')
            self.sym = SymMap(it.run, 'dict')
        return self.sym

    def getitem(self, it, idx, node):
        if isinstance(idx, KeyTok):
            m = self._sym(it)
            if not it.run.branch(m.has(idx), 'dict.has_key'):
                it.raise_(KeyError, idx, node=node)
            return m.lookup(idx)
        if self.sym is not None:
            raise Unsupported('concrete key into a symbolic dict')
        if is_sym(idx) or isinstance(idx, View):
            raise Unsupported('symbolic dict key')
        try:
            return dict.__getitem__(self, idx)
        except KeyError:
            it.raise_(KeyError, idx, node=node)
        except TypeError as e:
            it.raise_(TypeError, str(e), node=node)

    def setitem(self, it, idx, val, node):
        if isinstance(idx, KeyTok):
            self._sym(it).store(idx, val)
            return
        if self.sym is not None:
            raise Unsupported('concrete key into a symbolic dict')
        if is_sym(idx) or isinstance(idx, View):
            raise Unsupported('symbolic dict key')
        dict.__setitem__(self, idx, val)

    def contains(self, it, item, node):
        if isinstance(item, KeyTok):
            return self._sym(it).has(item)
        if self.sym is not None:
            return False
        if is_sym(item) or isinstance(item, View):
            raise Unsupported('symbolic dict key')
        return dict.__contains__(self, item)

    def truth(self, it):
        if self.sym is not None:
            k = z3.Int('k!nonempty')
            return z3.Exists([k], z3.Select(self.sym.dom, k))
        return len(self) > 0

    def getattr_(self, it, name, node):
        if self.sym is None and name not in ('copy',):
            return getattr(dict, name).__get__(self, LazyDict) if hasattr(dict, name) else None
        m = self.sym

        def get(it_, k, default=None):
            from .values import OptInt
            if not isinstance(k, KeyTok):
                return default
            has = m.has(k)
            plain_default = default is not None and (isinstance(default, int) or is_symint(default))
            if m.none is None and plain_default:
                return If(has, m.at(k), default)
            isnone = Or(Not(has) if not plain_default else False,
                        And(has, z3.Select(m.none, zint(k.kid))) if m.none is not None else False)
            return OptInt(simp(isnone) if is_sym(isnone) else isnone, If(has, m.at(k), default if plain_default else 0))
        if name == 'get':
            return _Method(get)
        if name == 'items':
            return _Method(lambda it_: SymItems(m, 'items'))
        if name == 'keys':
            return _Method(lambda it_: SymItems(m, 'keys'))
        if name == 'copy':
            def cp(it_):
                d = LazyDict(self)
                d.sym = m.copy() if m is not None else None
                return d
            return _Method(cp)
        raise Unsupported(f'dict.{name} on a symbolic dict')


# ----------------------------------------------------------------------------- abstract sequences of abstract objects
class AbsObj:
    """an object known only through the attributes given here (values, or callables evaluated on access)"""

    def __init__(self, label, attrs, truth=True):
        self.label, self.attrs, self._truth = label, attrs, truth

    def getattr_(self, it, name, node):
        if name not in self.attrs:
            raise Unsupported(f'attribute {name} of abstract {self.label}')
        v = self.attrs[name]
        return v(it) if callable(v) and not hasattr(v, 'call_') else v

    def truth(self, it):
        return self._truth

    def __repr__(self):
        return f'<AbsObj {self.label}>'


class AbsSeq:
    """a sequence of symbolic length whose i-th element is make_elem(i) (i may be a z3 term)"""

    def __init__(self, run, label, make_elem, n=None):
        self.run, self.label, self.make_elem = run, label, make_elem
        if n is None:
            n = run.fresh_int(label + '_n')
            run.assume(n >= 0)
        self.n = n

    def seq_len(self):
        return self.n

    def len_(self, it, node):
        return self.n

    def truth(self, it):
        return simp(zint(self.n) != 0)

    def elem(self, it, i):
        return self.make_elem(simp(zint(i)))

    def iterate(self, it, node):
        n = simp(zint(self.n))
        if isinstance(n, int):
            return [self.make_elem(j) for j in range(n)]
        raise Unsupported(f'iteration over abstract sequence {self.label} needs a loop specification')

    def getitem(self, it, idx, node):
        i, n = zint(idx), zint(self.n)
        if not it.run.branch(z3.And(i >= -n, i < n), 'seq.index_ok'):
            it.raise_(IndexError, 'list index out of range', node=node)
        return self.make_elem(simp(z3.If(i < 0, i + n, i)))
